/-
  Source tie, closed: the send path and the transports with only RANGE hypotheses.

  * `TInv` (`Lemmas/SrcEquiv/SendTimeInv.lean`), a new model-level invariant: every `last_sent` stamp of the reliable send
    channels, every send time in `sent_packets`, every `slices_last_received` stamp is `≤ now`, and the slice cursor of a
    sliced unacked message is `≤ num_slices`.  Established by `from_channels` (`tinv_from_channels`), kept by
    `send_message`, `receive_message`, `update`, `process_packet` (every byte sequence; through the ack loop and the
    unreliable slice path) and `get_packets_to_send` (through `SendRel.getPackets`' slice loop): `tinv_*`.
  * `send_ok_of_inv`: `SendOk c` (hypothesis of `conn_get_packets_to_send`) from `Conn.InvP`, `TInv` and `SendRange c`
    — the range conditions of one flush, stated once: per send channel `next id ≤ 2^60`, `budget ≤ 2^60`,
    `sliced id + queue length ≤ 2^60`; `Conn.flushSeq c ≤ 2^60` (the packet sequence after this flush) and at most `2^50`
    packets in one flush.  `update_ok_of_inv`: `UpdateOk c dt` from `Conn.InvP`, `TInv`, receive budgets `≤ 2^63`
    and the clock range `now + dt ≤ Duration::MAX`.  Ties without `*Ok`: `conn_get_packets_to_send_inv`, `conn_update_inv`.
  * closed simulations: for a range predicate `Rg` with `RangeClosed Rg` (it implies `SendRange` and the budget bounds and
    holds along the run — counters grow, so this cannot be an invariant; it is the one hypothesis left),
    `rc_sim_closed : RcSim (ConnGood Rg ∧ repr)` and `rn_sim_closed : RnSim (ServerGood Rg ∧ repr)`, where `ConnGood` /
    `ServerGood` = model invariants (`Conn.SInv`, `ChanSorted`, `TInv`, sorted connection table, `CfgOk`) ∧ `Rg`, established by
    `from_channels` / `RenetServer::new` (`conn_good_from_channels`, `server_good_new`) and kept by every operation.
  * the transport ties from `new` on, netcode side by `NS.ServerInv` / `CliInv` (`SrcTieTrInv.lean`):
    `tr_update_closed`, `tr_send_packets_closed`, `tr_disconnect_all_closed`, `ctr_update_closed`, `ctr_send_packets_closed`.
-/
import RenetVerif.Lemmas.SrcEquiv.TrClosed
import RenetVerif.Lemmas.SrcEquiv.TrInv
import RenetVerif.Props.SrcTieConnSend
import RenetVerif.Props.SrcTieConnRecv
set_option maxRecDepth 10000
namespace RenetVerif.SrcTie
open RenetVerif RenetVerif.SrcEquiv RenetVerif.RustSem RenetVerif.Netcode RenetVerif.Transport
open Src.renet.remote_connection Src.renet_netcode.server Src.renet_netcode.client

/-! ### the time / cursor invariant -/
theorem tinv_from_channels (budget : Nat) (send recv : List ChanCfg) : TInv (Conn.fromChannels budget send recv) :=
  tinv_fromChannels budget send recv
theorem tinv_send_message {c c' : Conn} {ch : Nat} {m : Bytes} (h : TInv c) (hr : c.sendMessage ch m = .ok c') : TInv c' :=
  tinv_sendMessage h hr
theorem tinv_receive_message {c c' : Conn} {ch : Nat} {o : Option Bytes} (h : TInv c) (hr : c.receiveMessage ch = .ok (c', o)) :
    TInv c' := tinv_receiveMessage h hr
theorem tinv_update' {c c' : Conn} {dt : Nat} (h : TInv c) (hr : c.update dt = .ok c') : TInv c' := tinv_update h hr
theorem tinv_process_packet {c c' : Conn} {bytes : Bytes} (h : TInv c) (hr : c.processPacket bytes = .ok c') : TInv c' :=
  tinv_processPacket h hr
theorem tinv_get_packets_to_send {c c' : Conn} {bs : List Bytes} (h : TInv c) (hr : c.getPacketsToSend = .ok (c', bs)) :
    TInv c' := tinv_getPacketsToSend h hr
theorem tinv_disconnect_with {c : Conn} (h : TInv c) (r : Reason) : TInv (c.disconnectWith r) := h.disconnectWith r
theorem tinv_set_connected {c : Conn} (h : TInv c) : TInv c.setConnected := h.setConnected
theorem tinv_set_connecting {c : Conn} (h : TInv c) : TInv c.setConnecting := h.setConnecting

/-! ### the bridges -/
theorem send_ok_of_inv {P : SliceCtor → Prop} {c : Conn} (hi : c.InvP P) (ht : TInv c) (hr : SendRange c) : SendOk c :=
  sendOk_of_inv hi ht hr
theorem update_ok_of_inv {P : SliceCtor → Prop} {c : Conn} (hi : c.InvP P) (ht : TInv c) (hb : RecvBudgetOk c) (dt : Nat)
    (hclock : c.now + dt ≤ RustSem.Duration.MAX) : UpdateOk c dt := updateOk_of_inv hi ht hb dt hclock

/-- `get_packets_to_send` with `SendOk` replaced by invariants and the range conditions -/
theorem conn_get_packets_to_send_inv {ε : Type} {P : SliceCtor → Prop} (mrs : Nat → Nat) (c : Conn) (hi : c.InvP P)
    (ht : TInv c) (hr : SendRange c) :
    SameOutcome (RenetClient.get_packets_to_send (reprConn mrs c) : Res ε _)
      (mapRes (fun x => (reprConn mrs x.1, x.2.map toNats)) (fun e => nomatch e) c.getPacketsToSend) :=
  conn_get_packets_to_send mrs c (sendOk_of_inv hi ht hr)
/-- `update` with `UpdateOk` replaced by invariants, the budget bound and the clock range -/
theorem conn_update_inv {ε : Type} {P : SliceCtor → Prop} (mrs : Nat → Nat) (c : Conn) (dt : Nat) (hi : c.InvP P) (ht : TInv c)
    (hb : RecvBudgetOk c) (hclock : c.now + dt ≤ RustSem.Duration.MAX) :
    SameOutcome (RenetClient.update (reprConn mrs c) dt : Res ε _)
      (mapRes (fun c' => (reprConn mrs c', ())) (fun e => nomatch e) (c.update dt)) :=
  conn_update mrs c dt (updateOk_of_inv hi ht hb dt hclock)

/-! ### closed simulations -/
theorem rc_sim_closed {Rg : Conn → Prop} (hR : RangeClosed Rg) :
    RcSim (fun c g => ConnGood Rg c ∧ ∃ mrs, g = reprConn mrs c) := rcSim_closed hR
theorem rn_sim_closed {Rg : Conn → Prop} (hR : RangeClosed Rg) :
    RnSim (fun s g => ServerGood Rg s ∧ ∃ mrss, g = reprServer mrss s) := rnSim_closed hR
theorem conn_good_from_channels {Rg : Conn → Prop} (budget : Nat) (send recv : List ChanCfg)
    (h : Rg (Conn.fromChannels budget send recv)) : ConnGood Rg (Conn.fromChannels budget send recv) :=
  connGood_fromChannels budget send recv h
/-- `RenetServer::new`: good as soon as the configuration has distinct channel ids per kind and a fresh connection is in
    range -/
theorem server_good_new {Rg : Conn → Prop} (budget : Nat) (sc cc : List ChanCfg) (hcfg : CfgOk (Server.new budget sc cc))
    (hf : Rg (Server.new budget sc cc).newConn.setConnected) : ServerGood Rg (Server.new budget sc cc) :=
  ⟨SMap.sorted_nil, hcfg, (fun x hx => nomatch hx), hf⟩

/-! ### the transports, from `new` on, with range hypotheses only -/

theorem tr_update_closed (a : AEAD) (hl : a.Laws) {Rg : Conn → Prop} (hR : RangeClosed Rg) (g : ServerGlue)
    (mrss : Nat → Nat → Nat) (hi : NS.ServerInv g.netcode) (hg : ServerGood Rg g.renet) (duration : Nat) (inbox : List Dgram)
    (hin : inbox.length + 1 < 2 ^ 64) (out : Array Dgram) (o buf : List Nat) (ho : o.length = C.NETCODE_MAX_PACKET_BYTES)
    (hb : buf.length = C.TRANSPORT_SERVER_BUFFER) :
    TrOut (fun s g => ServerGood Rg s ∧ ∃ mrss, g = reprServer mrss s) NS.ServerInv [] C.TRANSPORT_SERVER_BUFFER
      (serverUpdateFrom a g duration (inbox.map (recvFrom C.TRANSPORT_SERVER_BUFFER)) out)
      (@NetcodeServerTransport.update (aeadOf a) (trR inbox out o g.netcode buf) duration (reprServer mrss g.renet)) :=
  tr_update_eq a hl (rnSim_closed hR) (ncInv_serverInv a) g _ hi ⟨hg, mrss, rfl⟩ duration inbox hin out o buf ho hb

theorem tr_send_packets_closed {ε : Type} (a : AEAD) (hl : a.Laws) {Rg : Conn → Prop} (hR : RangeClosed Rg) (g : ServerGlue)
    (mrss : Nat → Nat → Nat) (hi : NS.ServerInv g.netcode) (hg : ServerGood Rg g.renet) (inbox : List Dgram)
    (out : Array Dgram) (o buf : List Nat) (ho : o.length = C.NETCODE_MAX_PACKET_BYTES) :
    TrOut (ε := ε) (fun s g => ServerGood Rg s ∧ ∃ mrss, g = reprServer mrss s) NS.ServerInv inbox buf.length
      (serverSendLoop a g g.renet.clientsId out)
      (@NetcodeServerTransport.send_packets (aeadOf a) ε (trR inbox out o g.netcode buf) (reprServer mrss g.renet)) :=
  tr_send_packets_eq a hl (rnSim_closed hR) (ncInv_serverInv a) g _ hi ⟨hg, mrss, rfl⟩ inbox out o buf ho

theorem tr_disconnect_all_closed {ε : Type} (a : AEAD) (hl : a.Laws) {Rg : Conn → Prop} (hR : RangeClosed Rg) (g : ServerGlue)
    (mrss : Nat → Nat → Nat) (hi : NS.ServerInv g.netcode) (hg : ServerGood Rg g.renet) (inbox : List Dgram)
    (out : Array Dgram) (o buf : List Nat) (ho : o.length = C.NETCODE_MAX_PACKET_BYTES) :
    TrOut (ε := ε) (fun s g => ServerGood Rg s ∧ ∃ mrss, g = reprServer mrss s) NS.ServerInv inbox buf.length
      (serverIdLoop (fun ns id => ns.disconnect a id) g g.netcode.clientsId out)
      (@NetcodeServerTransport.disconnect_all (aeadOf a) ε (trR inbox out o g.netcode buf) (reprServer mrss g.renet)) :=
  tr_disconnect_all_eq a hl (rnSim_closed hR) (ncInv_serverInv a) g _ hi ⟨hg, mrss, rfl⟩ inbox out o buf ho

theorem ctr_update_closed (a : AEAD) (hl : a.Laws) {Rg : Conn → Prop} (hR : RangeClosed Rg) (g : ClientGlue) (mrs : Nat → Nat)
    (hi : CliInv g.netcode) (hg : ConnGood Rg g.renet) (duration : Nat) (inbox : List Dgram)
    (hin : inbox.length + 1 < 2 ^ 64) (out : Array Dgram) (o buf : List Nat) (ho : o.length = C.NETCODE_MAX_PACKET_BYTES)
    (hb : buf.length = C.TRANSPORT_CLIENT_BUFFER) :
    match clientUpdateFrom a g duration (inbox.map (recvFrom C.TRANSPORT_CLIENT_BUFFER)) out with
    | .ok r => ∃ rest, rest.map (recvFrom C.TRANSPORT_CLIENT_BUFFER) = r.rest ∧
        CliTrOut (fun c g => ConnGood Rg c ∧ ∃ mrs, g = reprConn mrs c) CliInv C.TRANSPORT_CLIENT_BUFFER r.result r.g r.out rest
          (@NetcodeClientTransport.update (aeadOf a) (ctrR inbox out o g.netcode buf) duration (reprConn mrs g.renet))
    | .err e => nomatch e
    | .panic _ => ∃ msg, @NetcodeClientTransport.update (aeadOf a) (ctrR inbox out o g.netcode buf) duration
        (reprConn mrs g.renet) = .panic msg :=
  ctr_update_eq a hl (rcSim_closed hR) (ncCInv_cliInv a) g _ hi ⟨hg, mrs, rfl⟩ duration inbox hin out o buf ho hb

theorem ctr_send_packets_closed (a : AEAD) (hl : a.Laws) {Rg : Conn → Prop} (hR : RangeClosed Rg) (g : ClientGlue)
    (mrs : Nat → Nat) (hi : CliInv g.netcode) (hg : ConnGood Rg g.renet) (inbox : List Dgram) (out : Array Dgram)
    (o buf : List Nat) (ho : o.length = C.NETCODE_MAX_PACKET_BYTES) :
    match clientSendPacketsFrom a g out with
    | .ok (res, g', out') => CliTrOut (fun c g => ConnGood Rg c ∧ ∃ mrs, g = reprConn mrs c) CliInv buf.length res g' out' inbox
        (@NetcodeClientTransport.send_packets (aeadOf a) (ctrR inbox out o g.netcode buf) (reprConn mrs g.renet))
    | .err e => nomatch e
    | .panic _ => ∃ msg, @NetcodeClientTransport.send_packets (aeadOf a) (ctrR inbox out o g.netcode buf)
        (reprConn mrs g.renet) = .panic msg :=
  ctr_send_packets_eq a hl (rcSim_closed hR) (ncCInv_cliInv a) g _ hi ⟨hg, mrs, rfl⟩ inbox out o buf ho

end RenetVerif.SrcTie
