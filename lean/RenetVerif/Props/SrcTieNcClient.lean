/-
  Source tie, group NcClient: `renetcode/src/client.rs` `NetcodeClient::{new, is_connecting, is_connected, is_disconnected,
  current_time, client_id, time_since_last_received_packet, disconnect_reason, server_addr, disconnect, process_packet,
  generate_payload_packet, update_internal_state, generate_packet, update}` + `Packet::connection_request_from_token`
  ↔ `NetcodeClient` of `Netcode/Client.lean`.  The AEAD is a parameter on both sides (see `SrcTieNcCodec.lean`).

  * `reprNC out c` is the generated client; `out` — the scratch buffer `[u8; NETCODE_MAX_PACKET_BYTES]`, which the model does
    not keep — is a parameter; the sending functions leave SOME buffer of the same length (`∃ out'`).  The four methods that
    return `&mut self.out[..len]` return the slice by value (manifest `BORROWED_RETURN_OK`); `process_packet` returns its
    `&'a [u8]` payload (a slice of the caller's buffer, decrypted in place) by value, with the buffer (`∃ buf'`;
    `nc_client_process_packet_len`: of the same length).
  * `new`: `ClientAuthentication::Secure { connect_token }` ↔ the model's `new`; `Unsecure { .. }` generates a token first
    (`ConnectToken::generate`, group NcTokenGen) from the four explicit random values `rand1..rand4` (manifest
    `RANDOM_SOURCES`; parameters of the generated `new`, unused for `Secure`).
  * `update_internal_state`: the Rust `Err(e)` carries the state it leaves behind (the model returns `(some e, c')`).
    Hypotheses: `connect_token.timeout_seconds < 2^31` (an `i32`; the model keeps an `Int`) and
    `server_addr_index + 1 < 2^64` (a `usize`; the index stays below 32 along every run).
  * `match (packet, &self.state) { (A, X | Y) => .. }`: the or-pattern inside the tuple is distributed (`(A, X) | (A, Y)`).
-/
import RenetVerif.Lemmas.SrcEquiv.NcClient
set_option maxRecDepth 10000
namespace RenetVerif.SrcTie
open RenetVerif RenetVerif.SrcEquiv RenetVerif.RustSem RenetVerif.Netcode
open Src.renetcode.client

theorem nc_client_new_secure (a : AEAD) (ct : Nat) (tok : Netcode.ConnectToken) (r1 r2 r3 r4 : List Nat) :
    SameOutcome (@Src.renetcode.client.NetcodeClient.new (aeadOf a) ct (.Secure (reprTok tok)) r1 r2 r3 r4)
      (mapRes (reprNC (List.replicate C.NETCODE_MAX_PACKET_BYTES 0)) reprNErr (Netcode.NetcodeClient.new ct tok)) :=
  nc_new_secure_eq a ct tok r1 r2 r3 r4
theorem nc_client_new_unsecure (a : AEAD) (ct pid cid : Nat) (addr : Addr) (ud : Option Bytes) (r1 r2 r3 r4 : Bytes) :
    SameOutcome (@Src.renetcode.client.NetcodeClient.new (aeadOf a) ct (.Unsecure pid cid (reprAddr addr) (ud.map toNats))
        (toNats r1) (toNats r2) (toNats r3) (toNats r4))
      (match Netcode.ConnectToken.generate a ct pid 300 cid 15 [addr] (ud.getD r3) r1 r2 r4 (List.replicate C.NETCODE_KEY_BYTES 0) with
       | .ok tok => mapRes (reprNC (List.replicate C.NETCODE_MAX_PACKET_BYTES 0)) reprNErr (Netcode.NetcodeClient.new ct tok)
       | .err e => .err (reprNErr (.tokenGenerationError e))
       | .panic m => .panic m) := nc_new_unsecure_eq a ct pid cid addr ud r1 r2 r3 r4

theorem nc_client_is_connecting {ε : Type} (out : List Nat) (c : Netcode.NetcodeClient) :
    (NetcodeClient.is_connecting (reprNC out c) : Res ε _) = .ok c.isConnecting := nc_is_connecting_eq out c
theorem nc_client_is_connected {ε : Type} (out : List Nat) (c : Netcode.NetcodeClient) :
    (NetcodeClient.is_connected (reprNC out c) : Res ε _) = .ok c.isConnected := nc_is_connected_eq out c
theorem nc_client_is_disconnected {ε : Type} (out : List Nat) (c : Netcode.NetcodeClient) :
    (NetcodeClient.is_disconnected (reprNC out c) : Res ε _) = .ok c.isDisconnected := nc_is_disconnected_eq out c
theorem nc_client_current_time {ε : Type} (out : List Nat) (c : Netcode.NetcodeClient) :
    (NetcodeClient.current_time' (reprNC out c) : Res ε _) = .ok c.currentTime := nc_current_time_eq out c
theorem nc_client_client_id {ε : Type} (out : List Nat) (c : Netcode.NetcodeClient) :
    (NetcodeClient.client_id' (reprNC out c) : Res ε _) = .ok c.clientId := nc_client_id_eq out c
theorem nc_client_server_addr {ε : Type} (out : List Nat) (c : Netcode.NetcodeClient) :
    (NetcodeClient.server_addr' (reprNC out c) : Res ε _) = .ok (reprAddr c.serverAddr) := nc_server_addr_eq out c
theorem nc_client_disconnect_reason {ε : Type} (out : List Nat) (c : Netcode.NetcodeClient) :
    (NetcodeClient.disconnect_reason (reprNC out c) : Res ε _) = .ok (c.disconnectReason.map reprDR) :=
  nc_disconnect_reason_eq out c
/-- `Duration - Duration` panics when the receive time lies in the future of the client clock -/
theorem nc_client_time_since_last_received_packet {ε : Type} (out : List Nat) (c : Netcode.NetcodeClient) :
    SameOutcome (NetcodeClient.time_since_last_received_packet (reprNC out c) : Res ε _)
      (mapRes (fun o => o) (fun e => nomatch e) c.timeSinceLastReceivedPacket) := nc_time_since_eq out c

/-- `disconnect`: the state becomes `Disconnected(DisconnectedByClient)` also when the encode fails -/
theorem nc_client_disconnect (a : AEAD) (hl : a.Laws) (out : List Nat) (hout : out.length = C.NETCODE_MAX_PACKET_BYTES)
    (c : Netcode.NetcodeClient) :
    CliSendOut (c.disconnect a).2 (c.disconnect a).1 (@Src.renetcode.client.NetcodeClient.disconnect (aeadOf a) (reprNC out c)) :=
  nc_disconnect_eq a hl out hout c
/-- `process_packet` for EVERY byte sequence: the replay window is written back also when the decode fails (the error is
    swallowed); the state machine on (packet, state) -/
theorem nc_client_process_packet {ε : Type} (a : AEAD) (hl : a.Laws) (out : List Nat) (c : Netcode.NetcodeClient) (buffer : Bytes)
    (hbl : buffer.length + 16 < 2 ^ 64) :
    CliPktOut out (c.processPacket a buffer)
      (@Src.renetcode.client.NetcodeClient.process_packet (aeadOf a) ε (reprNC out c) (toNats buffer)) :=
  nc_process_packet_eq a hl out c buffer hbl
theorem nc_client_process_packet_len {ε : Type} (a : AEAD) (hl : a.Laws) (out : List Nat) (c : Netcode.NetcodeClient) (buffer : Bytes)
    (hbl : buffer.length + 16 < 2 ^ 64) :
    CliPktOutL buffer.length out (c.processPacket a buffer)
      (@Src.renetcode.client.NetcodeClient.process_packet (aeadOf a) ε (reprNC out c) (toNats buffer)) :=
  nc_process_packet_eqL a hl out c buffer hbl
theorem nc_client_generate_payload_packet (a : AEAD) (hl : a.Laws) (out : List Nat) (hout : out.length = C.NETCODE_MAX_PACKET_BYTES)
    (c : Netcode.NetcodeClient) (payload : Bytes) :
    CliGenOut c (c.generatePayloadPacket a payload)
      (@Src.renetcode.client.NetcodeClient.generate_payload_packet (aeadOf a) (reprNC out c) (toNats payload)) :=
  nc_generate_payload_packet_eq a hl out hout c payload
/-- `update_internal_state`: clock, time-out (`last_packet_received_time + timeout < now`), token expiry, fail-over to the next
    server address of the token, `NoMoreServers`; panics ↔ panics (Duration overflow / underflow, address index) -/
theorem nc_client_update_internal_state (out : List Nat) (c : Netcode.NetcodeClient) (hto : c.connectToken.timeoutSeconds < 2 ^ 31)
    (hidx : c.serverAddrIndex + 1 < 2 ^ 64) (dt : Nat) :
    CliUpdOut out (c.updateInternalState dt) (Src.renetcode.client.NetcodeClient.update_internal_state (reprNC out c) dt) :=
  nc_update_internal_state_eq out c hto hidx dt
/-- `generate_packet`: send-rate test, connection request / response / keep-alive by state, `sequence += 1` after a
    successful encode (a failed encode is swallowed) -/
theorem nc_client_generate_packet {ε : Type} (a : AEAD) (hl : a.Laws) (out : List Nat) (hout : out.length = C.NETCODE_MAX_PACKET_BYTES)
    (c : Netcode.NetcodeClient) :
    CliTickOut (c.generatePacket a) (@Src.renetcode.client.NetcodeClient.generate_packet (aeadOf a) ε (reprNC out c)) :=
  nc_generate_packet_eq a hl out hout c
theorem nc_client_update {ε : Type} (a : AEAD) (hl : a.Laws) (out : List Nat) (hout : out.length = C.NETCODE_MAX_PACKET_BYTES)
    (c : Netcode.NetcodeClient) (hto : c.connectToken.timeoutSeconds < 2 ^ 31) (hidx : c.serverAddrIndex + 1 < 2 ^ 64) (dt : Nat) :
    CliTickOut (c.update a dt) (@Src.renetcode.client.NetcodeClient.update (aeadOf a) ε (reprNC out c) dt) :=
  nc_update_eq a hl out hout c hto hidx dt

/-! ### the generated definitions on concrete values (toy AEAD) -/

/-- a connected client (sequence 6, time-out 5 s, last heard of at t = 0) at t = 4 s, scratch buffer of 40 sevens -/
def exCli : SNetcodeClient :=
  ⟨.Connected, 4, 0, none, 0, 4000000000, 6, .v4 [10, 0, 0, 1] 7, 0,
   ⟨4, [], 9, 0, 100, [], [some (.v4 [10, 0, 0, 1] 7)], List.replicate 32 1, List.replicate 32 2, [], 5⟩,
   0, [], 0, 0, 250000000, reprRP RP.new, List.replicate 40 7⟩

/-- 1 s later: not timed out (0 + 5 s is not `< 5 s`), a keep-alive with sequence 6 goes out -/
example : (match @NetcodeClient.update (aeadOf AEAD.toy) Empty exCli 1000000000 with
    | .ok (c, r) => (r, c.sequence, c.last_packet_send_time, c.state) ==
        (some ([20, 6, 0, 0, 0, 0, 0, 0, 0, 0] ++ List.replicate 16 0, .v4 [10, 0, 0, 1] 7), 7, some 5000000000, .Connected)
    | _ => false) = true := by decide +kernel
/-- 2 s later: timed out -/
example : (match @NetcodeClient.update (aeadOf AEAD.toy) Empty exCli 2000000000 with
    | .ok (c, r) => (r, c.sequence, c.state) == (none, 6, .Disconnected .ConnectionTimedOut)
    | _ => false) = true := by decide +kernel
/-- a `Disconnect` packet (sequence 3) from the server -/
example : (match @NetcodeClient.process_packet (aeadOf AEAD.toy) Empty exCli ([22, 3] ++ List.replicate 16 0) with
    | .ok (c, _, r) => (r, c.state, c.replay_protection.most_recent_sequence) == (none, .Disconnected .DisconnectedByServer, 3)
    | _ => false) = true := by decide +kernel
example : (match @NetcodeClient.generate_payload_packet (aeadOf AEAD.toy) exCli [9, 8, 7] with
    | .ok (c, r) => (r, c.sequence, c.last_packet_send_time) ==
        ((.v4 [10, 0, 0, 1] 7, [21, 6, 9, 8, 7] ++ List.replicate 16 0), 7, some 4000000000)
    | _ => false) = true := by decide +kernel

end RenetVerif.SrcTie
