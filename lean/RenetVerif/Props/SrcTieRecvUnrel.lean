/-
  Source tie, group RecvUnrel (PARTIAL): `renet/src/channel/unreliable.rs`
  `ReceiveChannelUnreliable::{process_message, receive_message}` ↔ `RecvUnrel.processMessage` / `RecvUnrel.receive`.
  The methods are translated over the struct VIEW `{channel_id, messages, max_memory_usage_bytes, memory_usage_bytes}`
  (the translator rejects them if they touch the `BTreeMap` slice tables); `viewRU` projects a model state onto it.
  NOT translated yet: `new`, `process_slice`, `discard_incomplete_old_slices` (need a `BTreeMap` model, aliases into map
  entries and `Err` results that carry the mutated state).
-/
import RenetVerif.Lemmas.SrcEquiv.RecvUnrel
namespace RenetVerif.SrcTie
open RenetVerif RenetVerif.SrcEquiv RenetVerif.RustSem
open Src.renet.channel.unreliable

/-- `process_message`: the model's new state (unchanged on the memory-limited `log::warn!` + `return` path); the slice
    tables are untouched on both sides -/
theorem recv_unrel_process_message {ε : Type} (r : RecvUnrel) (m : Bytes) (h : r.mem + m.length < 2 ^ 64) :
    (ReceiveChannelUnreliable.process_message (viewRU r) (toNats m) : Res ε _) = .ok (viewRU (r.processMessage m), ()) ∧
      (r.processMessage m).slices = r.slices ∧ (r.processMessage m).lastReceived = r.lastReceived :=
  ⟨process_message_eq r m h, processMessage_tables r m⟩

/-- `receive_message`: pops the oldest message and releases its bytes; panics exactly when the model does (memory
    counter below the message length — excluded by the channel invariant) -/
theorem recv_unrel_receive_message {ε : Type} (r : RecvUnrel) :
    (ReceiveChannelUnreliable.receive_message (viewRU r) : Res ε _) =
      match r.receive with
      | .ok (r', o) => .ok (viewRU r', o.map toNats)
      | .err e => nomatch e
      | .panic _ => .panic "renet/src/channel/unreliable.rs:ReceiveChannelUnreliable::receive_message: self.memory_usage_bytes -= message.len()" :=
  receive_message_eq r

example : (ReceiveChannelUnreliable.process_message ⟨0, [[1]], 10, 1⟩ [2, 3] : Res Empty _) = .ok (⟨0, [[1], [2, 3]], 10, 3⟩, ()) := by
  decide +kernel
example : (ReceiveChannelUnreliable.process_message ⟨0, [[1]], 2, 1⟩ [2, 3] : Res Empty _) = .ok (⟨0, [[1]], 2, 1⟩, ()) := by
  decide +kernel
example : (ReceiveChannelUnreliable.receive_message ⟨0, [[1], [2, 3]], 10, 3⟩ : Res Empty _) = .ok (⟨0, [[2, 3]], 10, 2⟩, some [1]) := by
  decide +kernel
example : (ReceiveChannelUnreliable.receive_message ⟨0, [], 10, 0⟩ : Res Empty _) = .ok (⟨0, [], 10, 0⟩, none) := by decide +kernel

end RenetVerif.SrcTie
