/-
  Source tie, group RecvUnrel: `renet/src/channel/unreliable.rs`
  `ReceiveChannelUnreliable::{new, process_message, process_slice, discard_incomplete_old_slices, receive_message}`
  ↔ `RecvUnrel` of `Renet/Channels.lean` (`RecvUnrel.new/processMessage/processSlice/discardOld/receive`).

  `reprRU` maps a model state to the generated struct.  The two `BTreeMap`s are association lists sorted by key on both
  sides (`RustSem.Map` / `SMap`; `MSorted` = strictly ascending keys); a generated `SliceConstructor` stores its key as
  `message_id`.  `process_slice` is a `&mut self` method returning `Result`: its `Err` carries the state it leaves
  behind (memory already reserved, constructor inserted) exactly like the model's `.err (e, r)`.  `SameOutcome` /
  `discardOut` compare `ok` / `err` values exactly and panics up to the text of the site.
-/
import RenetVerif.Lemmas.SrcEquiv.RecvUnrel
namespace RenetVerif.SrcTie
open RenetVerif RenetVerif.SrcEquiv RenetVerif.RustSem
open Src.renet.channel.unreliable

theorem recv_unrel_new {ε : Type} (channelId maxMem : Nat) :
    (ReceiveChannelUnreliable.new channelId maxMem : Res ε _) = .ok (reprRU (RecvUnrel.new channelId maxMem)) :=
  ru_new_eq channelId maxMem

/-- `process_message`: the model's new state (unchanged on the memory-limited `log::warn!` + `return` path) -/
theorem recv_unrel_process_message {ε : Type} (r : RecvUnrel) (m : Bytes) (h : r.mem + m.length < 2 ^ 64) :
    (ReceiveChannelUnreliable.process_message (reprRU r) (toNats m) : Res ε _) = .ok (reprRU (r.processMessage m), ()) :=
  process_message_eq r m h

/-- `receive_message`: pops the oldest message and releases its bytes; panics exactly when the model does -/
theorem recv_unrel_receive_message {ε : Type} (r : RecvUnrel) :
    (ReceiveChannelUnreliable.receive_message (reprRU r) : Res ε _) =
      match r.receive with
      | .ok (r', o) => .ok (reprRU r', o.map toNats)
      | .err e => nomatch e
      | .panic _ => .panic "renet/src/channel/unreliable.rs:ReceiveChannelUnreliable::receive_message: self.memory_usage_bytes -= message.len()" :=
  receive_message_eq r

/-- `process_slice` on a state with a sorted slice table, a memory counter that cannot overflow when the slice's
    message is reserved, and (if the message is already being assembled) a constructor of sane size: same new state,
    same `InvalidSliceMessage` error WITH the same state left behind, and a panic exactly when the model panics -/
theorem recv_unrel_process_slice (r : RecvUnrel) (sl : Slice) (now : Nat) (hs : MSorted r.slices)
    (hmem : r.mem + sl.numSlices * C.SLICE_SIZE < 2 ^ 64)
    (hctor : ∀ c, SMap.find? r.slices sl.messageId = some c → CtorOk c) :
    SameOutcome (ReceiveChannelUnreliable.process_slice (reprRU r) (reprSlice sl) now)
      (mapRes (fun r' => (reprRU r', ())) (fun e => (reprCE e.1, reprRU e.2)) (r.processSlice sl now)) :=
  process_slice_eq_ru r sl now hs hmem hctor

/-- `discard_incomplete_old_slices` when the recorded receive times are not in the future and the table's constructors
    have sizes that fit `usize`: the model's new state, or a panic exactly when the model panics -/
theorem recv_unrel_discard_incomplete_old_slices {ε : Type} (r : RecvUnrel) (now : Nat)
    (hpast : ∀ p ∈ r.lastReceived, p.2 ≤ now) (hsz : SizesOk r) :
    discardOut (r.discardOld now) (ReceiveChannelUnreliable.discard_incomplete_old_slices (reprRU r) now : Res ε _) :=
  discard_eq r now hpast hsz

example : (ReceiveChannelUnreliable.process_message ⟨0, [[1]], [], [], 10, 1⟩ [2, 3] : Res Empty _) =
    .ok (⟨0, [[1], [2, 3]], [], [], 10, 3⟩, ()) := by decide +kernel
example : (ReceiveChannelUnreliable.receive_message ⟨0, [[1], [2, 3]], [], [], 10, 3⟩ : Res Empty _) =
    .ok (⟨0, [[2, 3]], [], [], 10, 2⟩, some [1]) := by decide +kernel
/-- a one-slice message completes at once: memory reserved, released, the 3 payload bytes accounted -/
example : ReceiveChannelUnreliable.process_slice ⟨0, [], [], [], 5000, 0⟩ ⟨7, 0, 1, [1, 2, 3]⟩ 100 =
    .ok (⟨0, [[1, 2, 3]], [], [], 5000, 3⟩, ()) := by decide +kernel
/-- the first of two slices: constructor and receive time are recorded, 2400 bytes reserved -/
example : ReceiveChannelUnreliable.process_slice ⟨0, [], [], [], 5000, 0⟩ ⟨7, 0, 2, List.replicate 1200 9⟩ 100 =
    .ok (⟨0, [], [(7, ⟨7, 2, 1, [true, false], List.replicate 1200 9 ++ List.replicate 1200 0⟩)], [(7, 100)], 5000, 2400⟩, ()) := by
  decide +kernel
/-- memory limited: the slice is dropped and the state unchanged -/
example : ReceiveChannelUnreliable.process_slice ⟨0, [], [], [], 1000, 0⟩ ⟨7, 0, 1, [1, 2, 3]⟩ 100 =
    .ok (⟨0, [], [], [], 1000, 0⟩, ()) := by decide +kernel
/-- a slice whose `num_slices` disagrees with the constructor: `Err` carrying the unchanged state -/
example : ReceiveChannelUnreliable.process_slice
      ⟨0, [], [(7, ⟨7, 2, 0, [false, false], List.replicate 2400 0⟩)], [], 5000, 2400⟩ ⟨7, 0, 3, [1]⟩ 100 =
    .err (.InvalidSliceMessage, ⟨0, [], [(7, ⟨7, 2, 0, [false, false], List.replicate 2400 0⟩)], [], 5000, 2400⟩) := by
  decide +kernel
/-- an incomplete message older than 3 s is discarded and its memory released -/
example : (ReceiveChannelUnreliable.discard_incomplete_old_slices
      ⟨0, [], [(7, ⟨7, 2, 1, [true, false], List.replicate 2400 0⟩)], [(7, 1000)], 5000, 2400⟩ 3000001000 : Res Empty _) =
    .ok (⟨0, [], [], [], 5000, 0⟩, ()) := by decide +kernel

end RenetVerif.SrcTie
