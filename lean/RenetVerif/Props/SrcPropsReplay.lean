/-
  C04 (anti-replay) stated DIRECTLY about the generated `ReplayProtection` of
  `Generated/Src/Replay.lean` (the Lean text derived from `renetcode/src/replay_protection.rs`).
  The model (`Netcode.RP`, `RP.Inv`) appears only in the proofs:
  `SrcTieReplay` (generated = model on `WfRP` states) ∘ `Props/C04` (`no_reaccept`, `window_inv_*`).

  `WfRP st` is intrinsic: the `[u64; 256]` array has 256 entries.  The excluded point of C04 is kept: sequence
  `2^64-1` is the window's EMPTY marker (`sentinel_collision`), so the statements speak about sequences `< 2^64-1`
  (resp. filter the sentinel out).
-/
import RenetVerif.Props.SrcTieReplay
import RenetVerif.Props.C04
import RenetVerif.Lemmas.SrcCorollaries
namespace RenetVerif.SrcProps
open RenetVerif RenetVerif.SrcEquiv RenetVerif.SrcTie RenetVerif.SrcCor
open Src.renetcode.replay_protection Netcode

/-! ### helpers -/
namespace Replay

/-- the receive discipline of `Packet::decode` written with the GENERATED functions: for each presented sequence
    number ask `already_received`; if it says no, `advance_sequence` and record the sequence as accepted.
    Result: final window and the accepted sequences in order of acceptance. -/
def run {ε : Type} : ReplayProtection → List Nat → Res ε (ReplayProtection × List Nat)
  | st, [] => .ok (st, [])
  | st, s :: rest =>
    ReplayProtection.already_received st s >>= fun dup =>
      if dup then run st rest
      else ReplayProtection.advance_sequence st s >>= fun r =>
        run r.1 rest >>= fun q => .ok (q.1, s :: q.2)

/-- generalised run statement: from a well-formed window whose abstraction satisfies the C04 invariant for the ghost
    list `acc0`, the run does not panic and accepts a duplicate-free list (sentinel aside) disjoint from `acc0` -/
theorem run_inv {ε : Type} (seqs : List Nat) (hs : ∀ s ∈ seqs, s < 2 ^ 64) :
    ∀ (st : ReplayProtection) (h : WfRP st) (acc0 : List Nat), RP.Inv (absRP st h) acc0 →
      ∃ st' acc, (run st seqs : Res ε _) = .ok (st', acc) ∧ ∃ h' : WfRP st',
        RP.Inv (absRP st' h') (acc.reverse ++ acc0) ∧ acc.Sublist seqs ∧
        (acc.filter (· ≠ 2 ^ 64 - 1)).Nodup ∧ ∀ s ∈ acc, s ≠ 2 ^ 64 - 1 → s ∉ acc0 := by
  induction seqs with
  | nil =>
    intro st h acc0 hinv
    exact ⟨st, [], rfl, h, by simpa using hinv, List.Sublist.refl _, by simp, by simp⟩
  | cons s rest ih =>
    intro st h acc0 hinv
    have hs' : s < 2 ^ 64 := hs s (by simp)
    have hrest : ∀ x ∈ rest, x < 2 ^ 64 := fun x hx => hs x (by simp [hx])
    unfold run
    rw [replay_already_received st h s hs', Res.bind_ok]
    cases hdup : (absRP st h).alreadyReceived s with
    | true =>
      obtain ⟨st', acc, hr, h', hinv', hsub, hnd, hdis⟩ := ih hrest st h acc0 hinv
      exact ⟨st', acc, by simpa using hr, h', hinv', hsub.cons _, hnd, hdis⟩
    | false =>
      obtain ⟨st1, h1, hadv, habs⟩ := replay_advance_sequence (ε := ε) st h s hs'
      have hinv1 : RP.Inv (absRP st1 h1) (s :: acc0) := by
        rw [habs]; exact C04.window_inv_advance hinv hs' hdup
      obtain ⟨st', acc, hr, h', hinv', hsub, hnd, hdis⟩ := ih hrest st1 h1 (s :: acc0) hinv1
      refine ⟨st', s :: acc, ?_, h', ?_, hsub.cons_cons _, ?_, ?_⟩
      · simp only [Bool.false_eq_true, if_false, hadv, Res.bind_ok, hr]
      · simpa [List.reverse_cons, List.append_assoc] using hinv'
      · by_cases hsen : s = 2 ^ 64 - 1
        · simpa [List.filter_cons, hsen] using hnd
        · rw [List.filter_cons, if_pos (by simpa using hsen), List.nodup_cons]
          refine ⟨fun hm => ?_, hnd⟩
          have hm' := (List.mem_filter.1 hm).1
          exact hdis s hm' hsen (by simp)
      · intro x hx hne hx0
        rcases List.mem_cons.1 hx with rfl | hx
        · -- `x` was accepted although it is in `acc0`: contradicts `no_reaccept`
          rw [C04.no_reaccept hinv hx0 hne] at hdup; cases hdup
        · exact hdis x hx hne (by simp [hx0])

end Replay

/-! ### headline statements -/

/-- **C04, one step (no sequence accepted twice).**  On a well-formed window, `advance_sequence(s)` does not panic,
    keeps the window well-formed, and afterwards `already_received(s)` answers `true` — for every `u64` sequence
    except the EMPTY marker `2^64-1`. -/
theorem replay_advance_then_already_received {ε : Type} (st : ReplayProtection) (h : WfRP st) (s : Nat)
    (hs : s < 2 ^ 64 - 1) :
    ∃ st', (ReplayProtection.advance_sequence st s : Res ε _) = .ok (st', ()) ∧ WfRP st' ∧
      (ReplayProtection.already_received st' s : Res ε Bool) = .ok true := by
  obtain ⟨st', h', hadv, habs⟩ := replay_advance_sequence (ε := ε) st h s (by omega)
  refine ⟨st', hadv, h', ?_⟩
  rw [replay_already_received st' h' s (by omega), habs, RP.alreadyReceived_advance_self _ (by omega)]

/-- **C04, never panics.**  Both window functions return normally on every well-formed window and every `u64`. -/
theorem replay_never_panics {ε : Type} (st : ReplayProtection) (h : WfRP st) (s : Nat) (hs : s < 2 ^ 64) :
    NoPanic (ReplayProtection.already_received st s : Res ε Bool) ∧
    NoPanic (ReplayProtection.advance_sequence st s : Res ε _) := by
  obtain ⟨st', _, hadv, _⟩ := replay_advance_sequence (ε := ε) st h s hs
  exact ⟨noPanic_of_eq_ok (replay_already_received st h s hs), noPanic_of_eq_ok hadv⟩

/-- **C04, run level (each value accepted at most once).**  Start from `ReplayProtection::new()` and present ANY list
    of `u64` sequence numbers (replays, reordering, …) to the generated `already_received` / `advance_sequence` pair
    in the order `decode` uses them: the run never panics, and the accepted sequences (a sub-list of the presented
    ones) contain no value twice — the EMPTY marker `2^64-1` aside. -/
theorem replay_run_accepts_at_most_once {ε : Type} (seqs : List Nat) (hs : ∀ s ∈ seqs, s < 2 ^ 64) :
    ∃ st0 st' acc, (ReplayProtection.new : Res ε _) = .ok st0 ∧ (Replay.run st0 seqs : Res ε _) = .ok (st', acc) ∧
      WfRP st' ∧ acc.Sublist seqs ∧ (acc.filter (· ≠ 2 ^ 64 - 1)).Nodup := by
  obtain ⟨st0, h0, hnew, habs⟩ := replay_new (ε := ε)
  obtain ⟨st', acc, hr, h', _, hsub, hnd, _⟩ :=
    Replay.run_inv (ε := ε) seqs hs st0 h0 [] (by rw [habs]; exact C04.window_inv_new)
  exact ⟨st0, st', acc, hnew, hr, h', hsub, hnd⟩

/-- … and after the run every accepted sequence (sentinel aside) is reported as already received by the final
    window: a later replay of any of them is rejected. -/
theorem replay_run_then_rejected {ε : Type} (seqs : List Nat) (hs : ∀ s ∈ seqs, s < 2 ^ 64) {st0 st' : ReplayProtection}
    {acc : List Nat} (hnew : (ReplayProtection.new : Res ε _) = .ok st0)
    (hr : (Replay.run st0 seqs : Res ε _) = .ok (st', acc)) :
    ∀ s ∈ acc, s ≠ 2 ^ 64 - 1 → (ReplayProtection.already_received st' s : Res ε Bool) = .ok true := by
  obtain ⟨st0', h0, hnew', habs⟩ := replay_new (ε := ε)
  rw [hnew] at hnew'; cases hnew'
  obtain ⟨st'', acc', hr', h', hinv, hsub, _, _⟩ :=
    Replay.run_inv (ε := ε) seqs hs st0 h0 [] (by rw [habs]; exact C04.window_inv_new)
  rw [hr] at hr'; cases hr'
  intro s hm hne
  have hlt : s < 2 ^ 64 := hs s (hsub.subset hm)
  rw [replay_already_received st' h' s hlt, C04.no_reaccept hinv (by simpa using hm) hne]

/-! ### examples (evaluated on the generated text) -/

/-- the window after `new(); advance(5); advance(300)`: both are now rejected, 45 (255 behind) is not -/
example : ((ReplayProtection.new >>= fun st => ReplayProtection.advance_sequence st 5 >>= fun r =>
      ReplayProtection.advance_sequence r.1 300 >>= fun r => ReplayProtection.already_received r.1 5) : Res Empty Bool) =
    .ok true := by decide +kernel
example : ((ReplayProtection.new >>= fun st => ReplayProtection.advance_sequence st 5 >>= fun r =>
      ReplayProtection.advance_sequence r.1 300 >>= fun r => ReplayProtection.already_received r.1 45) : Res Empty Bool) =
    .ok false := by decide +kernel
/-- replays and reordering: 7, 3, 7, 300, 3, 7, 44 — each value accepted once; 44 is 256 behind 300 and rejected -/
example : okSnd ((ReplayProtection.new >>= fun st => Replay.run st [7, 3, 7, 300, 3, 7, 44]) : Res Empty _)
    = some [7, 3, 300] := by decide +kernel
/-- the instance of the run theorem for that list -/
example : ∃ st0 st' acc, (ReplayProtection.new : Res Empty _) = .ok st0 ∧
    (Replay.run st0 [7, 3, 7, 300, 3, 7, 44] : Res Empty _) = .ok (st', acc) ∧ WfRP st' ∧
    acc.Sublist [7, 3, 7, 300, 3, 7, 44] ∧ (acc.filter (· ≠ 2 ^ 64 - 1)).Nodup :=
  replay_run_accepts_at_most_once _ (by decide)
/-- the excluded point is real in the generated code too: `2^64-1` is accepted, and accepted again -/
example : okSnd ((ReplayProtection.new >>= fun st => Replay.run st [2 ^ 64 - 1, 2 ^ 64 - 1]) : Res Empty _)
    = some [2 ^ 64 - 1, 2 ^ 64 - 1] := by decide +kernel

end RenetVerif.SrcProps
