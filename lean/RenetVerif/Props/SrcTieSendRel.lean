/-
  Source tie, group SendRel: `renet/src/channel/reliable.rs`
  `UnackedMessage::new_sliced`, `SendChannelReliable::{new, available_memory, can_send_message, send_message,
  get_packets_to_send, process_message_ack, process_slice_message_ack}`
  ↔ `SendRel` of `Renet/Channels.lean` (`Unacked.newSliced`, `SendRel.new/available/canSend/sendMessage/getPackets/
  processMessageAck/processSliceAck`).

  `reprSR` maps a model state to the generated struct; the `BTreeMap<u64, UnackedMessage>` is an association list sorted
  by key on both sides (`RustSem.Map` / `SMap`; `MSorted` = strictly ascending keys), `reprU` maps the two variants.
  `send_message` is a `&mut self` method returning `Result`: its `Err` carries the (untouched) state.
  `get_packets_to_send` is the `'messages` loop over `iter_mut()` with its `continue`s, the slice loop with
  `continue 'messages`, the shadowed loop variable `i` and the literal `i + 1 % *num_slices`.  Its hypotheses
  (`UWf`, `needR`) say that the integer types are wide enough and that a sliced entry has `num_slices` flags /
  timestamps over a payload of that many slices — what `new_sliced` constructs (`uwf_newSliced`).
  `SameOutcome` compares `ok` / `err` values exactly and panics up to the text of the site.
-/
import RenetVerif.Lemmas.SrcEquiv.SendRel
namespace RenetVerif.SrcTie
open RenetVerif RenetVerif.SrcEquiv RenetVerif.RustSem
open Src.renet.channel.reliable

theorem send_rel_new {ε : Type} (channelId resend maxMem : Nat) :
    (SendChannelReliable.new channelId resend maxMem : Res ε _) = .ok (reprSR (SendRel.new channelId resend maxMem)) :=
  sr_new_eq channelId resend maxMem

theorem send_rel_available_memory {ε : Type} (s : SendRel) (h : s.mem ≤ s.maxMem) :
    (SendChannelReliable.available_memory (reprSR s) : Res ε Nat) = .ok s.available :=
  sr_available_eq s h

theorem send_rel_can_send_message {ε : Type} (s : SendRel) (n : Nat) (h : n + s.mem < 2 ^ 64) :
    (SendChannelReliable.can_send_message (reprSR s) n : Res ε Bool) = .ok (s.canSend n) :=
  sr_can_send_eq s n h

theorem send_rel_new_sliced {ε : Type} (m : Bytes) :
    (UnackedMessage.new_sliced (toNats m) : Res ε _) = .ok (reprU (Unacked.newSliced m)) :=
  new_sliced_eq m

/-- `send_message`: the model's new state, or `ReliableChannelMaxMemoryReached` together with the untouched state -/
theorem send_rel_send_message (s : SendRel) (m : Bytes) (h : s.mem + m.length < 2 ^ 64) (hid : s.nextId + 1 < 2 ^ 64) :
    SendChannelReliable.send_message (reprSR s) (toNats m) =
      match s.sendMessage m with
      | .ok s' => .ok (reprSR s', ())
      | .error e => .err (reprCE e, reprSR s) :=
  sr_send_message_eq s m h hid

/-- `get_packets_to_send`: new channel state, `*packet_sequence`, `*available_bytes` and the packets of the model -/
theorem send_rel_get_packets_to_send {ε : Type} (s : SendRel) (seq avail now : Nat)
    (hwf : ∀ p ∈ s.unacked, UWf now p) (hseq : seq + needR s.unacked + 1 < 2 ^ 64) :
    (SendChannelReliable.get_packets_to_send (reprSR s) seq avail now : Res ε _) =
      .ok (reprSR (s.getPackets seq avail now).1, (s.getPackets seq avail now).2.2.1,
           (s.getPackets seq avail now).2.2.2, (s.getPackets seq avail now).2.1.map reprPacket) :=
  sr_get_packets_eq s seq avail now hwf hseq

/-- what `send_message` stores for a long message satisfies the hypothesis of `send_rel_get_packets_to_send` -/
theorem send_rel_uwf_new_sliced (now id : Nat) (m : Bytes) (hm : m.length > C.SLICE_SIZE)
    (h64 : m.length + C.SLICE_SIZE < 2 ^ 64) : UWf now (id, Unacked.newSliced m) :=
  uwf_newSliced now id m hm h64

/-- `process_message_ack`: removes the entry and releases its bytes; panics exactly when the model does -/
theorem send_rel_process_message_ack {ε : Type} (s : SendRel) (id : Nat) :
    SameOutcome (SendChannelReliable.process_message_ack (reprSR s) id : Res ε _)
      (mapRes (fun s' => (reprSR s', ())) (fun e => nomatch e) (s.processMessageAck id)) :=
  sr_process_message_ack_eq s id

/-- `process_slice_message_ack` on a sorted table whose acked-slices counter cannot overflow -/
theorem send_rel_process_slice_message_ack {ε : Type} (s : SendRel) (id idx : Nat) (hs : MSorted s.unacked)
    (hna : ∀ m n a nx acked ls, SMap.find? s.unacked id = some (.sliced m n a nx acked ls) → a + 1 < 2 ^ 64) :
    SameOutcome (SendChannelReliable.process_slice_message_ack (reprSR s) id idx : Res ε _)
      (mapRes (fun s' => (reprSR s', ())) (fun e => nomatch e) (s.processSliceAck id idx)) :=
  sr_process_slice_ack_eq s id idx hs hna

/-- memory limit: `Err` with the unchanged channel -/
example : SendChannelReliable.send_message ⟨0, [], 5, 100, 2, 0⟩ [1, 2, 3] =
    .err (.ReliableChannelMaxMemoryReached, ⟨0, [], 5, 100, 2, 0⟩) := by decide +kernel
example : SendChannelReliable.send_message ⟨0, [], 5, 100, 10, 0⟩ [1, 2, 3] =
    .ok (⟨0, [(5, .Small [1, 2, 3] none)], 6, 100, 10, 3⟩, ()) := by decide +kernel
/-- two small messages, the second one sent 40 ns ago with a resend time of 100 ns: only the first is packed -/
example : (SendChannelReliable.get_packets_to_send
      ⟨3, [(5, .Small [1, 2, 3] none), (6, .Small [4] (some 960))], 7, 100, 10, 4⟩ 20 5000 1000 : Res Empty _) =
    .ok (⟨3, [(5, .Small [1, 2, 3] (some 1000)), (6, .Small [4] (some 960))], 7, 100, 10, 4⟩, 21, 4997,
         [.SmallReliable 20 3 [(5, [1, 2, 3])]]) := by decide +kernel
/-- a two-slice message whose slice 0 is acked, starting at `next_slice_to_send = 1`: slice 1 is sent once, and
    `*next_slice_to_send = i + 1 % *num_slices` stores `1 + (1 % 2) = 2` (not `(1 + 1) % 2 = 0`) -/
example : (SendChannelReliable.get_packets_to_send
      ⟨3, [(9, .Sliced (List.replicate 1201 7) 2 1 1 [true, false] [some 0, none])], 10, 100, 5000, 1201⟩ 20 5000 1000
        : Res Empty _) =
    .ok (⟨3, [(9, .Sliced (List.replicate 1201 7) 2 1 2 [true, false] [some 0, some 1000])], 10, 100, 5000, 1201⟩,
         21, 4999, [.ReliableSlice 20 3 ⟨9, 1, 2, [7]⟩]) := by decide +kernel
/-- budget below one slice: `continue 'messages` leaves the sliced entry untouched, the small one behind it is sent -/
example : (SendChannelReliable.get_packets_to_send
      ⟨3, [(9, .Sliced (List.replicate 1201 7) 2 0 0 [false, false] [none, none]), (10, .Small [4] none)], 11, 100, 5000, 1202⟩
        20 1199 1000 : Res Empty _) =
    .ok (⟨3, [(9, .Sliced (List.replicate 1201 7) 2 0 0 [false, false] [none, none]), (10, .Small [4] (some 1000))],
           11, 100, 5000, 1202⟩, 21, 1198, [.SmallReliable 20 3 [(10, [4])]]) := by decide +kernel
example : (SendChannelReliable.process_message_ack ⟨0, [(5, .Small [1, 2, 3] none)], 6, 100, 10, 3⟩ 5 : Res Empty _) =
    .ok (⟨0, [], 6, 100, 10, 0⟩, ()) := by decide +kernel
/-- the last missing slice is acked: the entry is removed and its bytes released -/
example : (SendChannelReliable.process_slice_message_ack
      ⟨0, [(9, .Sliced (List.replicate 1201 7) 2 1 0 [true, false] [none, none])], 10, 100, 5000, 1201⟩ 9 1 : Res Empty _) =
    .ok (⟨0, [], 10, 100, 5000, 0⟩, ()) := by decide +kernel

end RenetVerif.SrcTie
