/-
  C17 — AEAD discipline of renetcode: sealed data is tamper-evident, no nonce is reused under a key.

  Statements are about the executable model `RenetVerif.Netcode` (validated against the Rust crate by differential
  testing), parametric in the AEAD.  Proofs: Lemmas/NcAead.lean, parts D–F.

  PART 1  binding.  `decode` (packets), `PrivateConnectToken::decode`, `ChallengeToken::decode` surface content only
          through ONE successful `open` whose inputs — key, nonce, AAD, ciphertext ‖ tag — together cover every bit
          of the datagram / token, the key, the protocol id and (tokens) the expiry.  Hence (no assumption on the
          AEAD): if ANY modification of datagram, key or protocol id is accepted, the AEAD opened a tuple
          different from the sealed one (`tamper_is_forgery`): tamper-evidence of the protocol reduces to
          ciphertext integrity of the AEAD.  Truncation below prefix + sequence bytes + tag is rejected before
          the AEAD is consulted.
          HONEST REMARKS, all machine-checked below:
            * `Auth` (range authenticity, a hypothesis on the instance) is satisfiable together with `Laws`:
              `AEAD.toy` satisfies it (`toy_auth`) — contrary to what one might expect, because `Auth` only says
              "what opens is in the range of `seal` under the same (k, n, ad)", and the toy's range does not
              depend on them.  So `decode_authentic` is not vacuous, but `Auth` is weak.
            * the strong notion, "only the logged tuples open" (`NoForgery`), contradicts `Laws` for every finite log
              (`laws_not_noForgery`); therefore NO theorem here assumes it, and "a flipped bit yields an error" is
              stated per datagram (`decode_rejects_of_open_none`: if `open` refuses the tuple, `decode` refuses
              the datagram) and as the reduction `tamper_is_forgery`.
            * that a wrong key / protocol id is *rejected* is a property of the AEAD, not of the packet code:
              with `AEAD.toy` the datagram opens under any key and protocol id (`toy_opens_under_other_key`).
            * the high nibble of a ConnectionRequest's prefix byte is not looked at (`request_prefix_nibble_free`);
              the request is not sealed as a whole — its sealed part and bound fields are covered by PART 1b.
  PART 2  nonces.  Ghost seal logs (pure functions next to the model: `cstep`/`clog` for the client,
          `sstep`/`strace`/`sessLog` for the server; every emitted datagram is tied to its record by
          `…_sound`).  Client: sequence numbers under the client-to-server key strictly increase, the only
          repetition is the identical `Disconnect` datagram of repeated `disconnect` calls.  Server: per session
          0, 1, 2, … without gap from the handshake-completing keep-alive to the final `Disconnect`; handshake
          replies use global_sequence, global_sequence + 1, … ≥ 2^63; so within one attempt + session no two seals
          share a nonce as long as the session has sent fewer than 2^63 datagrams (repaired defect D9).
  NOT covered: two *different* sessions that reuse one connect token (same keys, both counters from 0) — outside
          the scope "one connection attempt and the session that follows" of C17; it is the known finding K1 of C04.
          The session theorems are per slot: that two simultaneously living sessions have different send keys rests on
          tokens carrying independently drawn keys (and on the server refusing a second connection of one client id),
          which is not a statement about this code.  Handshake replies need no such proviso: their sequence numbers
          are unique server-wide, whatever the key.
-/
import RenetVerif.Lemmas.NcAead
namespace RenetVerif.C17
open RenetVerif RenetVerif.Netcode RenetVerif.NcAead

/-! ## PART 1 : binding -/

/-- **What `decode` passes to `open`.**  If `decode` returns a packet of a sealed kind, the datagram splits as
    prefix ‖ sequence bytes ‖ ciphertext (the number of sequence bytes being the prefix's high nibble), the returned
    sequence is the value of the datagram's own sequence bytes, and
    `open(key, 0⁴ ‖ sequence (LE), version ‖ protocol id ‖ prefix, ciphertext)` succeeded with a body that
    `Packet::read` parsed into the packet.  Every bit of the datagram is an input of that one call. -/
theorem decode_binds (a : AEAD) (buf : Bytes) (proto : Nat) (key : Bytes) (rp rp' : Option RP) (seq : Nat)
    (p : Netcode.Packet) (h : Netcode.Packet.decode a buf proto (some key) rp = (.ok (seq, p), rp'))
    (hp : p.packetType ≠ .connectionRequest) :
    ∃ pfx seqbytes ct body, buf = pfx :: (seqbytes ++ ct) ∧ seqbytes.length = pfx.toNat / 16 ∧ seqbytes.length ≤ 8 ∧
      seq = leVal seqbytes ∧ 16 ≤ ct.length ∧
      a.open key (Netcode.Packet.nonce seq) (Netcode.Packet.additionalData pfx proto) ct = some body ∧
      Netcode.Packet.read p.packetType body = .ok p := by
  obtain ⟨pfx, sb, ct, body, h1, h2, h3, h4, h5, _, _, h6, h7⟩ := Bind.decode_binds h hp
  exact ⟨pfx, sb, ct, body, h1, h2, h3, h4, h5, h6, h7⟩

/-- nonce and AAD are injective in sequence, prefix and protocol id (all u64 / u8) -/
theorem nonce_aad_injective :
    (∀ s s', s < 2 ^ 64 → s' < 2 ^ 64 → Netcode.Packet.nonce s = Netcode.Packet.nonce s' → s = s') ∧
    (∀ pfx pfx' proto proto', proto < 2 ^ 64 → proto' < 2 ^ 64 →
      Netcode.Packet.additionalData pfx proto = Netcode.Packet.additionalData pfx' proto' → pfx = pfx' ∧ proto = proto') :=
  ⟨fun _ _ h1 h2 h => Bind.nonce_inj h1 h2 h, fun _ _ _ _ h1 h2 h => Bind.additionalData_inj h1 h2 h⟩

/-- per datagram: if the AEAD refuses the tuple computed from (datagram, key, protocol id) — `Bind.openInput` is that
    tuple as a function of the datagram — then `decode` returns no packet of a sealed kind, whatever the window -/
theorem decode_rejects_of_open_none (a : AEAD) (buf : Bytes) (proto : Nat) (key : Bytes) (s : Nat) (ad c : Bytes)
    (hi : Bind.openInput buf proto = some (s, ad, c)) (ho : a.open key (Netcode.Packet.nonce s) ad c = none)
    (rp rp' : Option RP) (seq : Nat) (p : Netcode.Packet)
    (h : Netcode.Packet.decode a buf proto (some key) rp = (.ok (seq, p), rp')) :
    p.packetType = .connectionRequest :=
  Bind.decode_rejects_of_open_none hi ho rp rp' seq p h

/-- **Tampering is forgery** (no assumption on the AEAD).  Let `D` be the datagram sealed for packet `p` with sequence
    `seq`, key `key`, protocol id `proto`.  If any triple (datagram, key, protocol id) different from (`D`, `key`,
    `proto`) — one bit flipped anywhere in `D`, `D` truncated or extended, another key, another protocol id — makes
    `decode` return a packet of a sealed kind, then `open` accepted a tuple (key, nonce, AAD, ciphertext ‖ tag)
    different from the one that was sealed. -/
theorem tamper_is_forgery (a : AEAD) (p : Netcode.Packet) (proto seq : Nat) (key : Bytes)
    (hseq : seq < 2 ^ 64) (hproto : proto < 2 ^ 64)
    (buf' key' : Bytes) (proto' : Nat) (hproto' : proto' < 2 ^ 64)
    (hne : (buf', key', proto') ≠ (NcAead.Packet.sealedDatagram a p proto seq key, key, proto))
    (rp rp' : Option RP) (seq' : Nat) (p' : Netcode.Packet)
    (h : Netcode.Packet.decode a buf' proto' (some key') rp = (.ok (seq', p'), rp'))
    (hp' : p'.packetType ≠ .connectionRequest) :
    ∃ n' ad' c' plain', a.open key' n' ad' c' = some plain' ∧
      (key', n', ad', c') ≠ Bind.sealedTuple a p proto seq key :=
  Bind.tamper_is_forgery a p proto seq key hseq hproto hproto' hne h hp'

/-- range authenticity, a HYPOTHESIS on an instance: what opens under (k, n, ad) is a `seal` output under (k, n, ad) -/
abbrev Auth := Bind.Auth

/-- under `Auth`, every datagram that decodes (sealed kind) was produced by `seal` under the same key, the sequence
    its own sequence bytes spell, the protocol id and its own prefix byte -/
theorem decode_authentic (a : AEAD) (hA : Auth a) (buf : Bytes) (proto : Nat) (key : Bytes) (rp rp' : Option RP)
    (seq : Nat) (p : Netcode.Packet) (h : Netcode.Packet.decode a buf proto (some key) rp = (.ok (seq, p), rp'))
    (hp : p.packetType ≠ .connectionRequest) :
    ∃ pfx seqbytes plain, seqbytes.length = pfx.toNat / 16 ∧ seq = leVal seqbytes ∧
      buf = pfx :: (seqbytes ++ a.seal key (Netcode.Packet.nonce seq) (Netcode.Packet.additionalData pfx proto) plain) :=
  Bind.decode_authentic hA h hp

/-- `AEAD.toy` satisfies `Auth` (and `Laws`): the hypothesis is satisfiable, `decode_authentic` is not vacuous.
    (One might expect the toy to fail it; it does not, because `Auth` does not separate keys.) -/
theorem toy_auth : Auth AEAD.toy ∧ AEAD.toy.Laws := ⟨Bind.toy_auth, AEAD.toy_laws⟩

/-- "only logged tuples open" contradicts the functional laws for every finite log — so it is never assumed -/
theorem laws_not_noForgery (a : AEAD) (hl : a.Laws) (L : List (Bytes × Bytes × Bytes × Bytes)) : ¬ Bind.NoForgery a L :=
  Bind.laws_not_noForgery hl L

/-- key / protocol-id separation is the AEAD's job: the toy opens a datagram under another key and protocol id -/
theorem toy_opens_under_other_key :
    Netcode.Packet.decode AEAD.toy (NcAead.Packet.sealedDatagram AEAD.toy (.keepAlive 3 8) 7 5 [1, 2, 3]) 8 (some [9]) none =
      (.ok (5, .keepAlive 3 8), none) := Bind.toy_opens_under_other_key

/-- remark: the sequence-length nibble of a ConnectionRequest's prefix is not looked at (the request is not sealed) -/
theorem request_prefix_nibble_free :
    Netcode.Packet.decode AEAD.toy (0xF0 :: NcAead.Packet.body
        (.connectionRequest C.NETCODE_VERSION_INFO 7 9 (List.replicate 24 1) (List.replicate 1024 2))) 7 none none =
      (.ok (0, .connectionRequest C.NETCODE_VERSION_INFO 7 9 (List.replicate 24 1) (List.replicate 1024 2)), none) := by
  decide +kernel

/-! ### truncation -/

/-- fewer than 18 bytes: `PacketTooSmall`, for every kind and key -/
theorem decode_short (a : AEAD) (buf : Bytes) (proto : Nat) (key : Option Bytes) (rp : Option RP) (h : buf.length < 18) :
    Netcode.Packet.decode a buf proto key rp = (.err .packetTooSmall, rp) := Bind.decode_short a buf proto key rp h

/-- A datagram of a sealed kind shorter than prefix + announced sequence bytes + 16-byte tag is rejected before the
    AEAD is consulted (the right-hand side does not mention `a`; the window is untouched): `PacketTooSmall`, or
    `IoError` when the prefix announces more than 8 sequence bytes. -/
theorem decode_truncated (a : AEAD) (pfx : UInt8) (rest : Bytes) (proto : Nat) (key : Bytes) (rp : Option RP)
    (ty : PacketType) (hty : PacketType.fromU8 (pfx.toNat % 16) = .ok ty) (hreq : ty ≠ .connectionRequest)
    (h : (pfx :: rest).length < 1 + pfx.toNat / 16 + 16) :
    Netcode.Packet.decode a (pfx :: rest) proto (some key) rp =
      (.err (if (pfx :: rest).length < 18 ∨ pfx.toNat / 16 ≤ 8 then .packetTooSmall else .ioError), rp) :=
  Bind.decode_truncated a pfx rest proto key rp ty hty hreq h

/-! ### PART 1b : tokens -/

/-- **Private connect token.**  `decode` surfaces a token only through
    `xopen(connect key, xnonce, version ‖ protocol id ‖ expiry, the whole sealed part)`. -/
theorem private_token_binds (a : AEAD) (buf : Bytes) (proto expire : Nat) (xnonce key : Bytes) (t : PrivateConnectToken)
    (h : PrivateConnectToken.decode a buf proto expire xnonce key = .ok t) :
    16 ≤ buf.length ∧ ∃ plain, a.xopen key xnonce (PrivateConnectToken.additionalData proto expire) buf = some plain ∧
      PrivateConnectToken.read (plain ++ buf.drop plain.length) = some t := Bind.pt_decode_binds h

/-- if `xopen` refuses, `decode` returns `CryptoError` -/
theorem private_token_rejected (a : AEAD) (buf : Bytes) (proto expire : Nat) (xnonce key : Bytes) (hl : 16 ≤ buf.length)
    (ho : a.xopen key xnonce (PrivateConnectToken.additionalData proto expire) buf = none) :
    PrivateConnectToken.decode a buf proto expire xnonce key = .err .cryptoError :=
  Bind.pt_decode_err_of_xopen_none hl ho

/-- **Tampering with a token is forgery**: the token AAD is injective in (protocol id, expiry), so any change of the
    sealed part, the protocol id, the expiry, the xnonce or the key that still decodes means `xopen` accepted a tuple
    different from the sealed one. -/
theorem private_token_tamper_is_forgery (a : AEAD) (plain : Bytes) (proto expire : Nat) (xnonce key : Bytes)
    (hp : proto < 2 ^ 64) (he : expire < 2 ^ 64)
    (buf' xnonce' key' : Bytes) (proto' expire' : Nat) (hp' : proto' < 2 ^ 64) (he' : expire' < 2 ^ 64)
    (hne : (buf', proto', expire', xnonce', key') ≠
      (a.xseal key xnonce (PrivateConnectToken.additionalData proto expire) plain, proto, expire, xnonce, key))
    (t : PrivateConnectToken) (h : PrivateConnectToken.decode a buf' proto' expire' xnonce' key' = .ok t) :
    ∃ ad' plain', a.xopen key' xnonce' ad' buf' = some plain' ∧
      (key', xnonce', ad', buf') ≠ (key, xnonce, PrivateConnectToken.additionalData proto expire,
        a.xseal key xnonce (PrivateConnectToken.additionalData proto expire) plain) :=
  Bind.pt_tamper_is_forgery a plain proto expire xnonce key hp he hp' he' hne h

/-- **The server's use of it.**  `handle_connection_request` does anything (`Ok`) only if the request's version is the
    library's, its protocol id is the server's, its expiry has not passed, and its sealed part opened under
    (connect key, the request's xnonce, version ‖ the server's protocol id ‖ the request's expiry) — the two public
    fields are bound twice, by comparison and as AAD. -/
theorem server_request_binds (a : AEAD) (s s' : NetcodeServer) (addr : Addr) (v : Bytes) (pid e : Nat) (x d : Bytes)
    (res : ServerResult) (h : NetcodeServer.handleConnectionRequest a s addr v pid e x d = .ok (res, s')) :
    v = C.NETCODE_VERSION_INFO ∧ pid = s.protocolId ∧ asSecs s.currentTime < e ∧
      ∃ t, PrivateConnectToken.decode a d s.protocolId e x s.connectKey = .ok t := Bind.hcr_binds h

/-- … and if one of these fails, the call is an `Err` that leaves the server state untouched -/
theorem server_request_rejected (a : AEAD) (s s' : NetcodeServer) (addr : Addr) (v : Bytes) (pid e : Nat) (x d : Bytes)
    (err : NetcodeError)
    (hn : ¬ (v = C.NETCODE_VERSION_INFO ∧ pid = s.protocolId ∧ asSecs s.currentTime < e ∧
      ∃ t, PrivateConnectToken.decode a d s.protocolId e x s.connectKey = .ok t))
    (h : NetcodeServer.handleConnectionRequest a s addr v pid e x d = .err (err, s')) : s' = s := Bind.hcr_rejects hn h

/-- **Challenge token.**  `decode` surfaces a token only through
    `open(challenge key, nonce(token sequence), empty AAD, the whole 300-byte token)`. -/
theorem challenge_token_binds (a : AEAD) (data : Bytes) (tseq : Nat) (ckey : Bytes) (t : ChallengeToken)
    (h : ChallengeToken.decode a data tseq ckey = .ok t) :
    16 ≤ data.length ∧ ∃ plain, a.open ckey (Netcode.Packet.nonce tseq) [] data = some plain ∧
      (do let (cid, r) ← readU64 (plain ++ data.drop plain.length)
          let (ud, _) ← readN C.NETCODE_USER_DATA_BYTES r
          pure (⟨cid, ud⟩ : ChallengeToken)) = some t := Bind.ch_decode_binds h

/-! ## PART 2 : nonces -/

/-- every datagram goes through `Packet::encode`; for a sealed kind, a successful `encode` returns the datagram of
    the ghost record (key, sequence, AAD, plaintext) = `sealOf p proto seq key` -/
theorem encode_is_logged (a : AEAD) (p : Netcode.Packet) (cap proto seq : Nat) (key out : Bytes)
    (hp : p.packetType ≠ .connectionRequest) (h : p.encode a cap proto (some (seq, key)) = .ok out) :
    out = (sealOf p proto seq key).datagram a ∧ (sealOf p proto seq key).key = key ∧ (sealOf p proto seq key).seq = seq ∧
    (sealOf p proto seq key).aad = Netcode.Packet.additionalData (Netcode.Packet.encodePrefix p.id seq) proto ∧
    (sealOf p proto seq key).plain = NcAead.Packet.body p :=
  ⟨encode_sealOf hp h, rfl, rfl, rfl, rfl⟩

/-! ### client -/

/-- soundness of the client instrumentation: each datagram a run emits is the datagram of its ghost record, or (no
    record) a ConnectionRequest in the clear -/
theorem client_log_sound (a : AEAD) (c : NetcodeClient) (ops : List Cl.COp) :
    ∀ x ∈ Cl.ctrace a c ops, Cl.Sound a x.1 x.2 := Cl.ctrace_sound a ops c

/-- **Client nonce discipline.**  Along any sequence of `update` / `generate_payload_packet` / `disconnect` /
    `process_packet` calls (until one unwinds), from any client state:
    every seal is under the client-to-server key of the client's connect token with a sequence number at least the
    client's counter at the start; sequence numbers strictly increase along the log, except that a later record may
    be identical to an earlier one — and once the client is disconnected every further record is the same
    `Disconnect` record; hence two records with the same sequence number are the same record (same key, AAD,
    plaintext — the same datagram). -/
theorem client_nonces_strict (a : AEAD) (c : NetcodeClient) (ops : List Cl.COp) :
    (∀ r ∈ Cl.clog a c ops, r.key = c.connectToken.clientToServerKey ∧ c.sequence ≤ r.seq) ∧
    (Cl.clog a c ops).Pairwise (fun r r' => r.seq < r'.seq ∨ r' = r) ∧
    (Cl.isDisc c → ∀ r ∈ Cl.clog a c ops, r = Cl.discRec c) ∧
    (∀ r ∈ Cl.clog a c ops, ∀ r' ∈ Cl.clog a c ops, r.seq = r'.seq → r = r') :=
  ⟨Cl.clog_key_ge a ops c, Cl.clog_strict a ops c, Cl.clog_disc a ops c, Cl.clog_nonce_unique a c ops⟩

/-- a fresh client starts its counter at 0 (the first ConnectionRequest, sent in the clear, consumes 0) -/
theorem client_new_sequence (now : Nat) (t : ConnectToken) (c : NetcodeClient) (h : NetcodeClient.new now t = .ok c) :
    c.sequence = 0 ∧ c.connectToken = t ∧ c.state = .sendingConnectionRequest := Cl.new_sequence h

/-! ### server -/

/-- soundness of the server instrumentation -/
theorem server_log_sound (a : AEAD) (s : NetcodeServer) (ops : List Sv.SOp) :
    ∀ ev ∈ Sv.strace a s ops, Sv.EvSound a ev := Sv.strace_sound a ops s

/-- completeness of the server instrumentation: the ghost events of a step are, in order, exactly the datagrams the
    model's own result of that call carries (`Sv.sout` reads them off `process_packet` / `update_client` /
    `generate_payload_packet` / `disconnect`); for the client this holds by construction of `Cl.cstep` -/
theorem server_log_complete (a : AEAD) (s s' : NetcodeServer) (op : Sv.SOp) (evs : List Sv.SEv)
    (h : Sv.sstep a s op = some (s', evs)) : evs.map Sv.SEv.out = Sv.sout a s op := Sv.sstep_complete h

/-- **Session nonces.**  While the connection in slot `i` lives (send key `k`, counter `n`), the datagrams sealed for
    it — keep-alives, payloads, the final `Disconnect` on `disconnect` or time-out — are all under `k` and carry
    exactly `n, n+1, n+2, …`. -/
theorem server_session_nonces_strict (a : AEAD) (i : Nat) (s : NetcodeServer) (k : Bytes) (n : Nat)
    (h : Sv.sv s i = some (k, n)) (ops : List Sv.SOp) :
    (∀ r ∈ Sv.sessLog a i s ops, r.key = k) ∧
    (Sv.sessLog a i s ops).map (·.seq) = List.range' n (Sv.sessLog a i s ops).length :=
  Sv.sess_consecutive a i ops s k n h

/-- the state `NetcodeServer::new` builds: no session, no pending connection, global sequence 2^63 -/
theorem server_new_inv (now maxc proto : Nat) (addrs : List Addr) (secure : Bool) (pk ck : Bytes) (s : NetcodeServer)
    (h : NetcodeServer.new now maxc proto addrs secure pk ck = .ok s) :
    Sv.PendInv s ∧ s.globalSequence = 2 ^ 63 ∧ ∀ i, Sv.sv s i = none := Sv.new_inv h

/-- **Handshake replies and the session that follows never share a nonce.**  Take any run `pre` from a state `s0`
    with global sequence ≥ 2^63 and pending counters 0 (e.g. a fresh server), then a step that opens a session in the
    free slot `i`, then any further run `ops`.  Then
      (1) the handshake replies (Challenge, Denied) of the whole run carry `g, g+1, g+2, …` with `g` the global
          sequence of `s0`: all ≥ 2^63, strictly increasing;
      (2) the records of the session — the handshake-completing keep-alive included — are under the session's send
          key and carry 0, 1, 2, … (so a session counter reaches 2^63 only after 2^63 datagrams);
      (3) hence none of the first 2^63 datagrams of the session shares its sequence number with any handshake reply,
          whichever key that reply was sealed under — in particular not under the session's own server-to-client
          key, which the Challenge of the same attempt used.  (Before the repair of D9 both counters started at 0.) -/
theorem handshake_nonces_disjoint (a : AEAD) (s0 : NetcodeServer) (hg : 2 ^ 63 ≤ s0.globalSequence) (hp0 : Sv.PendInv s0)
    (pre : List Sv.SOp) (s : NetcodeServer) (hrun : Sv.srun a s0 pre = some s)
    (op : Sv.SOp) (s' : NetcodeServer) (evs : List Sv.SEv) (hstep : Sv.sstep a s op = some (s', evs))
    (i : Nat) (k : Bytes) (n : Nat) (hfree : Sv.sv s i = none) (hocc : Sv.sv s' i = some (k, n)) (ops : List Sv.SOp) :
    let sess := Sv.sessRecs i evs ++ Sv.sessLog a i s' ops
    let hs := Sv.hsSeqs (Sv.strace a s0 (pre ++ op :: ops))
    hs = List.range' s0.globalSequence hs.length ∧ (∀ q ∈ hs, 2 ^ 63 ≤ q) ∧ hs.Pairwise (· < ·) ∧
    (∀ r ∈ sess, r.key = k) ∧ sess.map (·.seq) = List.range' 0 sess.length ∧
    (∀ r ∈ sess.take (2 ^ 63), ∀ q ∈ hs, r.seq ≠ q) := by
  intro sess hs
  have hp : Sv.PendInv s := (Sv.run_inv a pre s0 s hrun).1 hp0
  obtain ⟨h1, h2⟩ := Sv.attempt_consecutive hstep hfree hocc hp ops
  have hge := Sv.hs_ge a (pre ++ op :: ops) s0 hg
  refine ⟨Sv.hs_consecutive a _ s0, hge, Sv.hs_strict a _ s0, h1, h2, ?_⟩
  intro r hr q hq
  have hq' := hge q hq
  -- r sits at some index m < 2^63 of `sess`, and the m-th sequence number is m
  obtain ⟨m, hm, hrm⟩ := List.getElem_of_mem hr
  have hm1 : m < 2 ^ 63 := by
    have := List.length_take_le (2 ^ 63) sess
    omega
  have hm2 : m < sess.length := by
    have : (sess.take (2 ^ 63)).length ≤ sess.length := by simp [List.length_take]; omega
    omega
  have hseq : (sess.map (·.seq))[m]'(by rw [List.length_map]; exact hm2) = m := by
    rw [List.getElem_of_eq h2 (by rw [List.length_map]; exact hm2), List.getElem_range']
    omega
  have hrm' : sess[m] = r := by
    rw [← hrm, List.getElem_take]
  rw [List.getElem_map, hrm'] at hseq
  omega

/-! ### the hypotheses are met by concrete, non-trivial values (`AEAD.toy`) -/

section Examples
def c2s : Bytes := List.replicate 32 1
def s2c : Bytes := List.replicate 32 2
def connectKey : Bytes := List.replicate 32 3
def chKey : Bytes := List.replicate 32 4
def userData : Bytes := List.replicate 256 5
def xnonce : Bytes := List.replicate 24 6
def srvAddr : Addr := .v4 [127, 0, 0, 1] 5000
def cliAddr : Addr := .v4 [10, 0, 0, 2] 40000

/-- a connect token for client 5, protocol 77, expiring after 30 s, time-out 15 s -/
def exToken : Res TokenGenErr ConnectToken :=
  ConnectToken.generate AEAD.toy 0 77 30 5 15 [srvAddr] userData c2s s2c xnonce connectKey

/-- the challenge token the server issues first (challenge sequence 1) -/
def exChallengeData : Bytes := AEAD.toy.seal chKey (Netcode.Packet.nonce 1) [] (NcAead.Token.chPlain 5 userData)

/-- datagrams the server would send: a Challenge under global sequence 2^63, the connect keep-alive under 0 -/
def exChallenge : Bytes := NcAead.Packet.sealedDatagram AEAD.toy (.challenge 1 exChallengeData) 77 (2 ^ 63) s2c
def exKeepAlive : Bytes := NcAead.Packet.sealedDatagram AEAD.toy (.keepAlive 0 2) 77 0 s2c

/-- a client run: request (clear), challenge in, response (sealed), keep-alive in → connected, payload, keep-alive,
    disconnect twice, then attempts that emit nothing -/
def exClientOps : List Cl.COp :=
  [.update 0, .recv exChallenge, .update 250000000, .recv exKeepAlive, .send [1, 2, 3], .update 250000000,
   .disconnect, .disconnect, .send [9], .update 250000000]

def exClientSeqs : List Nat :=
  match exToken with
  | .ok t =>
    match NetcodeClient.new 0 t with
    | .ok c => (Cl.clog AEAD.toy c exClientOps).map (·.seq)
    | _ => []
  | _ => []

-- sealed: response 1, payload 2, keep-alive 3, disconnect 4, the same disconnect 4 again (sequence 0 went to the request)
example : exClientSeqs = [1, 2, 3, 4, 4] := by decide +kernel

/-- the datagrams of the client, computed by the model -/
def exRequest : Bytes :=
  match exToken with
  | .ok t => 0 :: NcAead.Packet.body (.connectionRequest C.NETCODE_VERSION_INFO 77 t.expireTimestamp t.xnonce t.privateData)
  | _ => []
def exResponse : Bytes := NcAead.Packet.sealedDatagram AEAD.toy (.response 1 exChallengeData) 77 1 c2s

/-- a server run: the request twice (two Challenges), the response (session opens in slot 0, keep-alive), a payload,
    a tick, a keep-alive, the disconnect; then the limit is lowered to 0 and the same request is answered by Denied -/
def exServerOps : List Sv.SOp :=
  [.recv cliAddr exRequest, .recv cliAddr exRequest, .recv cliAddr exResponse, .send 5 [7, 7], .tick 250000000,
   .updateClient 5, .disconnect 5, .setMax 0, .recv cliAddr exRequest]

/-- the state `NetcodeServer::new 0 1 77 [srvAddr] true connectKey chKey` builds, except that the connect-token-entry
    table has 4 instead of 2048 slots (the kernel evaluator's recursion depth does not reach 2048; the theorems above
    hold for every state, this one included) -/
def exServer : Option NetcodeServer :=
  some { clients := [none], pendingClients := [], connectTokenEntries := List.replicate 4 none, protocolId := 77,
         connectKey := connectKey, maxClients := 1, challengeSequence := 0, challengeKey := chKey,
         publicAddresses := [srvAddr], currentTime := 0, globalSequence := C.NETCODE_GLOBAL_SEQUENCE_START, secure := true }

def exServerHs : List Nat := match exServer with
  | some s => Sv.hsSeqs (Sv.strace AEAD.toy s exServerOps)
  | none => []
def exServerSess : List Nat := match exServer with
  | some s => (Sv.sessRecs 0 (Sv.strace AEAD.toy s exServerOps)).map (·.seq)
  | none => []

example : exServerHs = [2 ^ 63, 2 ^ 63 + 1, 2 ^ 63 + 2] := by decide +kernel
-- the hypotheses of `handshake_nonces_disjoint`: after two steps slot 0 is free, the third step occupies it
example : (match exServer with
    | some s0 =>
      match Sv.srun AEAD.toy s0 (exServerOps.take 2) with
      | some s =>
        match Sv.sstep AEAD.toy s (.recv cliAddr exResponse) with
        | some (s', _) => decide (2 ^ 63 ≤ s0.globalSequence ∧ Sv.sv s 0 = none ∧ Sv.sv s' 0 = some (s2c, 1))
        | none => false
      | none => false
    | none => false) = true := by decide +kernel
-- binding: a tampered datagram (one plaintext byte changed: the toy authenticates nothing) is accepted — the
-- hypotheses of `tamper_is_forgery` are satisfiable, its conclusion exhibits the forged tuple
example : Netcode.Packet.decode AEAD.toy ([0x14, 5] ++ ([2, 0, 0, 0] ++ [8, 0, 0, 0]) ++ List.replicate 16 0) 7 (some [1, 2, 3]) none =
      (.ok (5, .keepAlive 2 8), none) ∧
    ([0x14, 5] ++ ([2, 0, 0, 0] ++ [8, 0, 0, 0]) ++ List.replicate 16 0, [1, 2, 3], 7) ≠
      (NcAead.Packet.sealedDatagram AEAD.toy (.keepAlive 3 8) 7 5 [1, 2, 3], ([1, 2, 3] : Bytes), 7) := by
  decide +kernel
-- truncation: 19 bytes announcing 8 sequence bytes
example : PacketType.fromU8 ((0x84 : UInt8).toNat % 16) = .ok .keepAlive ∧
    ((0x84 : UInt8) :: List.replicate 18 0).length < 1 + (0x84 : UInt8).toNat / 16 + 16 := by decide
-- tokens: the private part of the example token opens on the server side, and a server acts on the request
example : (match exToken with
    | .ok t =>
      match PrivateConnectToken.decode AEAD.toy t.privateData 77 t.expireTimestamp t.xnonce connectKey with
      | .ok pt => decide (pt.clientId = 5 ∧ pt.serverToClientKey = s2c ∧ t.privateData.length = 1024)
      | _ => false
    | _ => false) = true := by decide +kernel
example : (ChallengeToken.decode AEAD.toy exChallengeData 1 chKey) = .ok ⟨5, userData⟩ := by decide +kernel
example : exServerSess = [0, 1, 2, 3] := by decide +kernel
end Examples

end RenetVerif.C17
