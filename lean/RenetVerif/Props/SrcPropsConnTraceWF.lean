/-
  "EVERY PACKET OF EVERY FLUSH IS WELL-FORMED" — ON API TRACES OF THE GENERATED `RenetClient`, datagrams written by the
  GENERATED `Packet::to_bytes` and read back by the GENERATED `Packet::from_bytes`.

  `GConn` (`Lemmas/SrcEquiv/SrcConnSystem.lean`): one generated `RenetClient` from the generated `from_channels`, driven by ANY
  list of public operations `COp` (`process` with ARBITRARY bytes); `g.flushes` logs what every generated
  `get_packets_to_send` RETURNED.  `GDecodes b gp`: the generated `from_bytes` on a fresh cursor over `b` returns `gp`.
  `GSerialises gp b`: the generated `to_bytes` of `gp` into a zeroed scratch buffer of `SER_BUFFER` bytes (what
  `get_packets_to_send` uses) writes exactly `b`.

    * `src_emitted_roundtrip`      (C16 on traces)  every datagram of every flush of a trace is what the generated `to_bytes`
                                   writes for a packet `gp`, and the generated `from_bytes` reads back from it exactly `gp`;
    * `src_flush_budget_decoded`   (C14 through the generated decoder; closes `src_flush_budget_decoded_partial`)  the
                                   generated decoder ACCEPTS every datagram of a flush (`DecAll bs gps`), the packets it reads are
                                   the ones that were serialised, numbered consecutively from `packet_sequence`, and their
                                   payload sums to at most `available_bytes_per_tick`;
    * `src_flush_all_accepted`     … in the form "no datagram of any flush of the trace is rejected by the generated decoder".

  Side conditions: `CRunInRange` (range condition of the source tie), `ChanBytes cfg` (the configured send channel ids are
  bytes — `u8` in the Rust source, one byte on the wire) and `MsgLenOK ops`: every submitted message is at most
  `MAX_NUM_SLICES * SLICE_SIZE` bytes long.  The last one cannot be dropped: `send_message` refuses no message by size (only by
  the channel's memory budget), a longer message is announced with `num_slices > MAX_NUM_SLICES`, and the decoder rejects
  such a packet — `oversized_message_rejected` (from `FlushWF.oversized_slice_rejected`), stated for the generated decoder.

  NOT done here: the un-partial form of `SrcPropsConnTraceC08.src_recorded_packet_was_emitted_partial` (reading the datagram
  behind a `sent_packets` record with the generated decoder).  What is missing for it: `SrcConnC08.SentEmitted` names, per
  record, SOME packet `p` with `p.enc = b`; to read `b` back as that `p` the invariant has to carry `p.WF` too (i.e.
  `sentEmitted_step` redone with `FlushWF.flush_step_wf` in its flush case), or the encoder has to be shown injective.

  Proofs: `SrcConnSystem.crun_sim_conv` + `Lemmas/FlushWF.lean` (`WireInv` along `MTr` runs, `flush_step_wf`,
  `flush_packets_wf`) + the round trip `Packet.fromBytes_enc` (C16) + the ties `SrcTie.packet_to_bytes`,
  `gdecodes_of_fromBytes`.
-/
import RenetVerif.Lemmas.FlushWF
import RenetVerif.Props.SrcPropsPacket
import RenetVerif.Props.SrcPropsConnTraceC08
import RenetVerif.Props.SrcPropsConnTraceC15
set_option maxRecDepth 100000
set_option linter.unusedVariables false
set_option linter.unusedSimpArgs false
namespace RenetVerif.SrcPropsConnTraceWF
open RenetVerif RenetVerif.RustSem RenetVerif.C RenetVerif.System RenetVerif.SrcEquiv RenetVerif.SrcSystem RenetVerif.SrcConnSystem
open RenetVerif.SrcConnC15 RenetVerif.SrcPropsConnTrace RenetVerif.FlushWF RenetVerif.SrcPropsConnTraceC15
open Src.renet.remote_connection

abbrev GPacket := Src.renet.packet.Packet

/-- the GENERATED `Packet::to_bytes` of `gp`, on a fresh zeroed scratch buffer of `SER_BUFFER` bytes, returns normally, reports
    `b.length` bytes written, and the first `b.length` bytes of the buffer are `b` -/
def GSerialises (gp : GPacket) (b : GBytes) : Prop :=
  ∃ b' : OctetsMut, Src.renet.packet.Packet.to_bytes gp (OctetsMut.with_slice (List.replicate SER_BUFFER 0)) = .ok (b', b.length) ∧
    b'.buf.take b.length = b

/-! ## auxiliary -/

/-- two lists related element by element -/
inductive All2 {α β : Type} (R : α → β → Prop) : List α → List β → Prop
  | nil : All2 R [] []
  | cons {a : α} {b : β} {l1 : List α} {l2 : List β} : R a b → All2 R l1 l2 → All2 R (a :: l1) (b :: l2)

theorem serialiseAll_forall2 : ∀ (pk : List Packet) (bs : List Bytes), Conn.serialiseAll pk = .ok bs →
    All2 (fun p b => p.enc = .ok b ∧ b.length ≤ SER_BUFFER) pk bs
  | [], bs, h => by
    simp only [Conn.serialiseAll, Res.ok.injEq] at h; subst h; exact All2.nil
  | p :: rest, bs, h => by
    simp only [Conn.serialiseAll] at h
    cases h1 : p.toBytes SER_BUFFER with
    | ok b =>
      rw [h1] at h; simp only [Res.bind_ok] at h
      cases h2 : Conn.serialiseAll rest with
      | ok bs' =>
        rw [h2] at h; simp only [Res.bind_ok, Res.pure_eq, Res.ok.injEq] at h
        subst h
        refine All2.cons ?_ (serialiseAll_forall2 rest bs' h2)
        unfold Packet.toBytes at h1
        cases h3 : p.enc with
        | ok b' =>
          rw [h3] at h1; simp only [Res.bind_ok] at h1
          split at h1
          · rename_i hfit
            simp only [Res.pure_eq, Res.ok.injEq] at h1; subst h1; exact ⟨rfl, hfit⟩
          · cases h1
        | err e => rw [h3] at h1; cases h1
        | panic m => rw [h3] at h1; cases h1
      | err e => rw [h2] at h; cases h
      | panic m => rw [h2] at h; cases h
    | err e => rw [h1] at h; cases h
    | panic m => rw [h1] at h; cases h

/-- a well-formed model packet and its serialisation: the generated `to_bytes` writes it, the generated `from_bytes` reads
    it back -/
theorem emitted_of {p : Packet} {b : Bytes} (hwf : p.WF) (he : p.enc = .ok b) (hl : b.length ≤ SER_BUFFER) :
    GSerialises (reprPacket p) (toNats b) ∧ GDecodes (toNats b) (reprPacket p) := by
  refine ⟨?_, ?_⟩
  · have ht := SrcTie.packet_to_bytes p (OctetsMut.with_slice (List.replicate SER_BUFFER 0)) (Nat.zero_le _) b he
    simp only [OctetsMut.with_slice, Nat.zero_add, List.take_zero, List.nil_append, List.length_replicate] at ht
    rw [if_pos hl] at ht
    have hk := SrcCor.forget_eq_ok ht
    refine ⟨_, by rw [toNats_length]; exact hk, ?_⟩
    rw [List.take_left']
    rfl
  · obtain ⟨b1, hb1, hd⟩ := Packet.fromBytes_enc p hwf
    rw [he] at hb1; cases hb1
    exact gdecodes_of_fromBytes hd

theorem forall2_decAll : ∀ (pk : List Packet) (bs : List Bytes),
    All2 (fun p b => p.enc = .ok b ∧ b.length ≤ SER_BUFFER) pk bs → (∀ p ∈ pk, p.WF) →
    DecAll (bs.map toNats) (pk.map reprPacket) ∧
      All2 (fun gp b => GSerialises gp b ∧ GDecodes b gp) (pk.map reprPacket) (bs.map toNats)
  | [], [], _, _ => ⟨trivial, All2.nil⟩
  | p :: pk, b :: bs, h, hw => by
    cases h with
    | cons h1 h2 =>
      obtain ⟨a1, a2⟩ := forall2_decAll pk bs h2 (fun q hq => hw q (List.mem_cons_of_mem _ hq))
      obtain ⟨e1, e2⟩ := emitted_of (hw p (List.mem_cons_self ..)) h1.1 h1.2
      exact ⟨⟨e2, a1⟩, All2.cons ⟨e1, e2⟩ a2⟩
  | [], _ :: _, h, _ => by cases h
  | _ :: _, [], h, _ => by cases h

theorem forall2_mem_right {α β : Type} {R : α → β → Prop} : ∀ {l1 : List α} {l2 : List β}, All2 R l1 l2 →
    ∀ b ∈ l2, ∃ a ∈ l1, R a b
  | _, _, All2.nil, b, hb => by cases hb
  | _, _, All2.cons h1 h2, b, hb => by
    rcases List.mem_cons.mp hb with rfl | hb
    · exact ⟨_, List.mem_cons_self .., h1⟩
    · obtain ⟨a, ha, r⟩ := forall2_mem_right h2 b hb
      exact ⟨a, List.mem_cons_of_mem _ ha, r⟩

/-! ## C16 on traces -/

/-- **C16 over all traces of the generated code: every emitted datagram round-trips.**  In the generated state after ANY run
    (configured send channel ids bytes, in range, submitted messages at most `MAX_NUM_SLICES * SLICE_SIZE` bytes), every
    datagram `b` of every `get_packets_to_send` of the run is what the GENERATED `to_bytes` writes for some packet `gp`, and the
    GENERATED `from_bytes` reads from `b` exactly that `gp`. -/
theorem src_emitted_roundtrip (cfg : Cfg) (ops : List COp) (g : GConn) (hg : GConn.exec cfg ops = some g)
    (hrg : CRunInRange cfg ops) (hcb : ChanBytes cfg) (hl : MsgLenOK ops) :
    ∀ bs ∈ g.flushes, ∀ b ∈ bs, ∃ gp : GPacket, GSerialises gp b ∧ GDecodes b gp := by
  obtain ⟨t, ht, sim⟩ := crun_sim_conv cfg ops g hrg hg
  obtain ⟨-, hf⟩ := flush_packets_wf cfg ops t hcb hrg.2 hl ht
  intro bs hbs b hb
  rw [sim.flushes] at hbs
  obtain ⟨bs0, hbs0, rfl⟩ := List.mem_map.mp hbs
  obtain ⟨pk, hser, hwf⟩ := hf bs0 hbs0
  obtain ⟨-, hall⟩ := forall2_decAll pk bs0 (serialiseAll_forall2 pk bs0 hser) hwf
  obtain ⟨gp, -, r⟩ := forall2_mem_right hall b hb
  exact ⟨gp, r⟩

/-- … in particular the generated decoder rejects no datagram of any flush of the trace -/
theorem src_flush_all_accepted (cfg : Cfg) (ops : List COp) (g : GConn) (hg : GConn.exec cfg ops = some g)
    (hrg : CRunInRange cfg ops) (hcb : ChanBytes cfg) (hl : MsgLenOK ops) :
    ∀ bs ∈ g.flushes, ∀ b ∈ bs, ∃ gp : GPacket, GDecodes b gp := by
  intro bs hbs b hb
  obtain ⟨gp, -, h⟩ := src_emitted_roundtrip cfg ops g hg hrg hcb hl bs hbs b hb
  exact ⟨gp, h⟩

/-! ## C14 through the generated decoder, with acceptance -/

/-- **C14 on the generated code, datagrams read by the generated decoder** (the un-partial form of
    `SrcPropsConnTraceC15.src_flush_budget_decoded_partial`).  In every generated state `g` reached by ANY run, the next
    `get_packets_to_send` returns datagrams `bs` EVERY ONE of which the generated `from_bytes` accepts: it reads the packets
    `gps`, one for one (`DecAll bs gps`); each is the packet the generated `to_bytes` wrote that datagram for; their generated
    `Packet::sequence` numbers are consecutive from the generated `packet_sequence`; and their message payload
    (`gPayloadBytes`) sums to at most `available_bytes_per_tick`. -/
theorem src_flush_budget_decoded (cfg : Cfg) (ops : List COp) (g : GConn) (hg : GConn.exec cfg ops = some g)
    (hrg : CRunInRange cfg (ops ++ [.flush])) (hcb : ChanBytes cfg) (hl : MsgLenOK ops) :
    ∃ g' bs gps, GConn.exec cfg (ops ++ [.flush]) = some g' ∧ g'.flushes = g.flushes ++ [bs] ∧ DecAll bs gps ∧
      All2 (fun gp b => GSerialises gp b ∧ GDecodes b gp) gps bs ∧
      (gps.map gPayloadBytes).sum ≤ g.cl.available_bytes_per_tick := by
  have hrg0 := crunInRange_prefix cfg ops _ hrg
  obtain ⟨t, ht, sim⟩ := crun_sim_conv cfg ops g hrg0 hg
  have hgood := epGood_run ops _ t (epGood_init cfg) ht
  have hr : ConnInRange t.c := inRange_last ops .flush _ t ht hrg.2
  have hc := SrcPropsConnTrace.countersOK_of_inRange hr
  have hfi := CI.flushInv_of hgood.sinv hc
  obtain ⟨hw, -⟩ := flush_packets_wf cfg ops t hcb hrg0.2 hl ht
  obtain ⟨c1, bs1, e1, -, -, -⟩ := Conn.getPacketsToSend_fits t.c hfi hc.seq
  have hs : t.step .flush = some { t with c := c1, flushes := t.flushes ++ [bs1] } := by simp only [MTr.step, e1]
  have hrun : (MTr.init cfg).run (ops ++ [.flush]) = some { t with c := c1, flushes := t.flushes ++ [bs1] } := by
    rw [MTr.run_append, ht]; simp only [Option.bind_some, MTr.run, hs]
  obtain ⟨g', e', sim'⟩ := crun_sim cfg _ _ hrg hrun
  obtain ⟨mrs, hC⟩ := sim.cl
  have hfl : g'.flushes = g.flushes ++ [bs1.map toNats] := by
    rw [sim'.flushes, sim.flushes]; simp only [List.map_append, List.map_cons, List.map_nil]
  cases hd : t.c.isDisconnected with
  | true =>
    unfold Conn.getPacketsToSend at e1
    simp only [hd, ↓reduceIte, Res.ok.injEq, Prod.mk.injEq] at e1
    obtain ⟨-, rfl⟩ := e1
    exact ⟨g', [], [], e', hfl, trivial, All2.nil, Nat.zero_le _⟩
  | false =>
    obtain ⟨pk, -, hser, hwf, hb, -⟩ := flush_step_wf hgood hr hw hd e1
    obtain ⟨d1, d2⟩ := forall2_decAll pk bs1 (serialiseAll_forall2 pk bs1 hser) hwf
    refine ⟨g', bs1.map toNats, pk.map reprPacket, e', hfl, d1, d2, ?_⟩
    have e : (pk.map reprPacket).map gPayloadBytes = pk.map payloadBytes := by
      rw [List.map_map]; apply List.map_congr_left; intro p _; exact gPayloadBytes_repr p
    rw [e, hC]
    exact hb

/-! ## the length hypothesis cannot be dropped -/

/-- **what a message longer than `MAX_NUM_SLICES * SLICE_SIZE` bytes is turned into is rejected by the generated decoder.**
    `send_message` stores a message of ANY length that fits the channel budget (`SendRel.sendMessage`: the only refusal is
    `ReliableChannelMaxMemoryReached`) and announces it with `num_slices = div_ceil(len, SLICE_SIZE)`
    (`Unacked.newSliced`); for `len > MAX_NUM_SLICES * SLICE_SIZE` every slice packet `get_packets_to_send` builds for it
    (`slicedLoop`: `ReliableSlice seq ch ⟨id, i, num_slices, payload⟩`) serialises without error, and the GENERATED
    `from_bytes` does NOT accept the datagram (the model decoder answers `InvalidNumSlices`; the peer disconnects with
    `PacketDeserialization`). -/
theorem oversized_message_rejected (m : Bytes) (hm : WIRE_MSG_MAX < m.length) (hm' : m.length ≤ Varint.MAX)
    (seq ch id i : Nat) (h1 : seq ≤ Varint.MAX) (h2 : ch < 256) (h3 : id ≤ Varint.MAX)
    (hi : i < divCeil m.length SLICE_SIZE) :
    ∃ b, (Packet.reliableSlice seq ch ⟨id, i, divCeil m.length SLICE_SIZE, sliceBytes m (divCeil m.length SLICE_SIZE) i⟩).enc = .ok b ∧
      ∀ gp, ¬ GDecodes (toNats b) gp := by
  have hn : divCeil m.length SLICE_SIZE ≤ m.length := divCeil_le _
  have hp : (sliceBytes m (divCeil m.length SLICE_SIZE) i).length ≤ SLICE_SIZE :=
    sliceBytes_length_le m _ i (divCeil_mul_ge _)
  obtain ⟨b, hb, hd⟩ := oversized_slice_rejected seq ch
    ⟨id, i, divCeil m.length SLICE_SIZE, sliceBytes m (divCeil m.length SLICE_SIZE) i⟩ h1 h2 h3 (by dsimp only; omega)
    (by dsimp only; omega) (by dsimp only; have hS : SLICE_SIZE = 1200 := rfl; unfold Varint.MAX; omega) (divCeil_gt_max hm)
  refine ⟨b, hb, fun gp hg => ?_⟩
  obtain ⟨p, hp', -⟩ := gdecodes_inv hg
  rw [hd] at hp'; cases hp'

/-- the hypotheses of `oversized_message_rejected` are satisfiable by a message `send_message` ACCEPTS: a channel with a
    2 GB budget stores a message of `WIRE_MSG_MAX + 1` bytes (stated on lengths; the byte list itself is not built) -/
example (m : Bytes) (hm : m.length = WIRE_MSG_MAX + 1) :
    (∃ s', (SendRel.new 0 100 2000000000).sendMessage m = .ok s') ∧ divCeil m.length SLICE_SIZE = MAX_NUM_SLICES + 1 := by
  constructor
  · unfold SendRel.sendMessage
    have : ¬ ((SendRel.new 0 100 2000000000).mem + m.length > (SendRel.new 0 100 2000000000).maxMem) := by
      rw [hm]; decide
    rw [if_neg this]
    exact ⟨_, rfl⟩
  · rw [hm]; decide

/-! ## non-vacuity: traces executed by the kernel ON THE GENERATED CODE

  Channel 0 ReliableOrdered, channel 1 Unreliable (the configuration of `C08.Ex`).  `opsW`: a small and a sliced (1201 bytes,
  two slices) reliable message, a small and a sliced (1300 bytes) unreliable message, a flush — small, packed and slice packets
  of both kinds —; then a received packet and another flush, which carries the connection's Ack packet. -/
namespace Ex
abbrev cfg : Cfg := ⟨60000, C08.Ex.cfg, C08.Ex.cfg⟩
abbrev bigU : Bytes := List.replicate 1300 7
abbrev opsW : List COp :=
  [.setConnected, .send 0 [1, 2, 3], .send 0 C08.Ex.big, .send 0 [4], .send 1 [5, 5], .send 1 bigU, .send 1 [], .flush,
   .process SrcPropsConnTraceC08.Ex.nonAck, .flush]
def gV : GConn := (GConn.exec cfg (opsW.take 7)).getD SrcPropsConnTraceC08.Ex.gzero
def gW : GConn := (GConn.exec cfg opsW).getD SrcPropsConnTraceC08.Ex.gzero

theorem inRange : CRunInRange cfg opsW := by decide +kernel
theorem chanBytes : ChanBytes cfg := by decide +kernel
theorem lenOK : MsgLenOK opsW := by decide +kernel
theorem runV : GConn.exec cfg (opsW.take 7) = some gV := some_getD (by decide +kernel) _
theorem runW : GConn.exec cfg opsW = some gW := some_getD (by decide +kernel) _

/-- kind tag, sequence number and payload of what the generated decoder reads -/
def look (b : GBytes) : Option (Nat × Nat × Nat) :=
  match SrcPropsConnTraceC15.Ex.gdec b with
  | some (.SmallReliable sq _ m) => some (0, sq, gPayloadBytes (.SmallReliable sq 0 m))
  | some (.SmallUnreliable sq _ m) => some (1, sq, gPayloadBytes (.SmallUnreliable sq 0 m))
  | some (.ReliableSlice sq _ sl) => some (2, sq, sl.payload.length)
  | some (.UnreliableSlice sq _ sl) => some (3, sq, sl.payload.length)
  | some (.Ack sq _) => some (4, sq, 0)
  | none => none

/-- **the trace as the kernel computes it on the generated code, read by the generated decoder** (kind, sequence number,
    payload bytes): flush 1 = the two `ReliableSlice` packets of the 1201-byte message (1200 + 1 bytes), one `SmallReliable`
    packet PACKING the messages `[1, 2, 3]` and `[4]`, the two `UnreliableSlice` packets of the 1300-byte message, one
    `SmallUnreliable` packet packing `[5, 5]` and the empty message; flush 2 = the connection's `Ack` packet.  No datagram is
    rejected. -/
theorem wfacts : gW.flushes.map (·.map look) =
    [[some (2, 0, 1200), some (2, 1, 1), some (0, 2, 4), some (3, 3, 1200), some (3, 4, 100), some (1, 5, 2)],
     [some (4, 6, 0)]] := by decide +kernel

/-- **`src_emitted_roundtrip` applied** to the whole trace -/
example : ∀ bs ∈ gW.flushes, ∀ b ∈ bs, ∃ gp : GPacket, GSerialises gp b ∧ GDecodes b gp :=
  src_emitted_roundtrip cfg opsW gW runW inRange chanBytes lenOK

/-- **`src_flush_budget_decoded` applied** to the first flush of the trace -/
example : ∃ g' bs gps, GConn.exec cfg (opsW.take 7 ++ [.flush]) = some g' ∧ g'.flushes = gV.flushes ++ [bs] ∧ DecAll bs gps ∧
    All2 (fun gp b => GSerialises gp b ∧ GDecodes b gp) gps bs ∧
    (gps.map gPayloadBytes).sum ≤ gV.cl.available_bytes_per_tick :=
  src_flush_budget_decoded cfg (opsW.take 7) gV runV (by decide +kernel) chanBytes (by decide +kernel)

end Ex

end RenetVerif.SrcPropsConnTraceWF
