/-
  C20F — the full stack, composed: channel guarantees (C01S) ∘ netcode authenticity (C04) ∘ transport glue routing (C20).

  C20's level text admitted: "the cross-network composition of both glues with the channel theorems (C01S) is structural
  (routing + authenticity lemmas) and exercised end to end, not one Lean theorem."  Here it is one Lean theorem per
  guarantee, proved in `Lemmas/FullStack.lean` by simulation.

  THE SYSTEM (`FullStack.FS`, one session, client id `cid`).  State: the client's `NetcodeClientTransport` + `RenetClient`
  (`ClientGlue`), the server's `NetcodeServerTransport` + `RenetServer` (`ServerGlue`, possibly holding other clients),
  and ghost histories: every datagram either side's `send_packets` emitted (`emC`, `emS`), one record per successful
  `generate_payload_packet` of the session (`sealedC`, `sealedS`: key, protocol id, renet packet, datagram), the messages
  each application submitted / obtained per channel in each direction (`subC`, `subCU`, `obtS`; `subS`, `subSU`, `obtC`).
  Operations (`FSOp`), each calling exactly one model function:
      cliSend ch m | cliRecv ch | cliTick dt | cliDisconnect            RenetClient::{send_message, receive_message, update, disconnect}
      cliUpdate d inbox | cliSendPackets | cliTransportDisconnect        NetcodeClientTransport::{update, send_packets, disconnect}
      srvSend ch m | srvRecv ch | srvTick dt | srvDisconnect             RenetServer::{send_message(cid,…), receive_message(cid,…), update, disconnect(cid)}
      srvUpdate d inbox | srvSendPackets | srvDisconnectAll              NetcodeServerTransport::{update, send_packets, disconnect_all}
  `inbox : List (Addr × Bytes)` is chosen by the ADVERSARY, freely: arbitrary bytes from arbitrary source addresses —
  in particular copies of anything either side ever emitted, in any order, any number of times, truncated or with bits
  flipped.  Loss = a datagram never put into an inbox.

  START.  `Established cfg cid fs0` (`FullStack.Established`): both `RenetClient`s of the session fresh from one
  `ConnectionConfig` (`cfg.send` = client → server channels, `cfg.recv` = server → client channels), the server's in its
  table under `cid`; the netcode client `Connected`; the server's netcode table holds a connected slot for `cid`, and
  every slot for `cid` mirrors the keys of the client's connect token (slot receive key = client-to-server key, slot send
  key = server-to-client key); same protocol id; nothing emitted yet.  `Ex.fs0` below is such a state, obtained by running
  the handshake in the model.

  HYPOTHESES on the run (Bool-valued functions of the run, checked by evaluation for concrete runs):
    * `NoForgeryRunD`     whenever `process_packet` of either netcode endpoint surfaces a payload for this session in this
                          run, the datagram it was given is byte-identical to one the PEER's `generate_payload_packet`
                          returned earlier in this run (a ghost record; `records_are_emitted`: such a datagram was handed to
                          the socket by `send_packets`).  This is ciphertext integrity relative to the run; it is where key
                          secrecy enters (a third party knowing a session key could seal under it — `Ex.no_forgery_needed`),
                          and it is never an AEAD law (`Bind.laws_not_noForgery`: `Laws` and perfect authenticity exclude
                          each other).  Replays satisfy it by definition; truncated, bit-flipped, fabricated or foreign
                          datagrams satisfy it when they do not open.
                          The composition itself (`FullStack.full_stack`) is proved from the keyed form `NoForgeryRun`
                          ("… sealed under the key and protocol id the receiver opened it with"), which needs no key
                          agreement at the start; `noForgery_of_D` derives the keyed form from the datagram form: from an
                          established session and under `SingleSessionRun`, "the client keeps its connect token, every
                          server slot for `cid` carries the token's keys, every record was sealed under them" is an
                          invariant of every run (`FullStack.KeyInv`, `step_keyInv`, through `process_packet`,
                          `update_client`, `disconnect`, `generate_payload_packet` and both glues).
    * `SingleSessionRun`  `NetcodeServer::process_packet` never returns `ClientConnected{cid}` in this run: the session is
                          not re-opened.  Needed because of known finding K1 (replaying the handshake after the server
                          dropped the session re-opens it with the same keys, a fresh replay window and a FRESH
                          `RenetClient`: old datagrams are surfaced into fresh channels and the prefix property, counted
                          across both incarnations, fails — `Ex.single_session_needed` is that run).  Vacuous while the
                          session is in the netcode table.
    * `a.Laws`            the functional AEAD laws (`open (seal p) = p`); proved for ChaCha20-Poly1305 in C17R.
    * `CountersUp` / `CountersDown`   C01S's `CountersOK` for the respective direction, on the FINAL state.
    * `fs0.run a cid ops = some fs`   no model function panicked (absence of unwinding: C06, C12, C13, C20T).

  NOT COVERED: application calls on the server for OTHER client ids (`broadcast_message`, `send_message(id', …)`; they
  leave this client's connection alone or act on it like `srvSend`); different `available_bytes_per_tick` on the two
  sides (`System.Cfg` has one budget); datagrams emitted by `update` (keep-alives, handshake, disconnect) are not
  recorded — the adversary may inject anything anyway; datagrams an early-returning client `update` leaves in the socket
  are dropped — the adversary may re-inject them.

  METHOD.  Simulation into the two-endpoint system of `Lemmas/System.lean`.  Because `Sys` carries application traffic in
  one direction only and has no transport-driven status changes, it is first extended (`FullStack.xstep`) by
  B-side `send`, A-side `receive` and the status-only calls `disconnect_with / set_connected / set_connecting`, all of
  which preserve the four invariant layers of `system_inv` (`frame_inv`).  `FullStack.Duo` (two `Conn`s, ghost logs for
  both directions) has two views that are such systems.  Every `FS` step is matched by a `Duo` run (`step_sim`):
  application calls one-to-one; `send_packets` = flush (`clientSendPackets_sim`, `serverSendLoop_sim`); a transport
  `update` = status mirror / `disconnect_due_to_transport`, then one `deliver k` of an EMITTED packet per surfaced
  payload (`clientRecvLoop_sim`, `handleLoop_sim`: routing by `GI.handle_renet`, authenticity by `NoForgeryRun` +
  `decode_sealed_plain`: what opens under the key a record was sealed with is that record's renet packet), removal of
  the server's table entry ends the server side of the simulation.
-/
import RenetVerif.Lemmas.FullStack
import RenetVerif.Props.C20
namespace RenetVerif.C20F
open RenetVerif C RenetVerif.System RenetVerif.Netcode RenetVerif.Transport RenetVerif.FullStack

/-- **C01 over the full stack.**  After EVERY finite run of the full stack from an established session, under
    `NoForgeryRunD` and `SingleSessionRun`: on every ReliableOrdered client → server channel the messages the server's
    application obtained from this client are a prefix of what the client's application submitted — byte identical, no
    gaps, no duplicates, no reordering — and the same for every ReliableOrdered server → client channel; whatever the
    adversary puts into the sockets. -/
theorem full_stack_ordered_prefix (a : AEAD) (hl : a.Laws) (cfg : Cfg) (cid : Nat) (fs0 fs : FS) (ops : List FSOp)
    (he : Established cfg cid fs0) (hr : fs0.run a cid ops = some fs)
    (hnf : NoForgeryRunD a cid fs0 ops) (hss : SingleSessionRun a cid fs0 ops) :
    (CountersUp cfg fs → ∀ ch, cfg.Ordered ch → fs.obtS ch <+: fs.subC ch) ∧
    (CountersDown cfg fs → ∀ ch, (Cfg.swap cfg).Ordered ch → fs.obtC ch <+: fs.subS ch) :=
  let h := full_stack hl he.toRenetFresh hr (runOK_of (noForgery_of_D he hss hnf) hss)
  ⟨fun hc => (h.1 hc).1, fun hc => (h.2 hc).1⟩

/-- **C02 over the full stack.**  On every ReliableUnordered channel, in either direction, the obtained messages are the
    submitted messages at pairwise distinct positions of the submission log: each at most once, intact. -/
theorem full_stack_unordered_once (a : AEAD) (hl : a.Laws) (cfg : Cfg) (cid : Nat) (fs0 fs : FS) (ops : List FSOp)
    (he : Established cfg cid fs0) (hr : fs0.run a cid ops = some fs)
    (hnf : NoForgeryRunD a cid fs0 ops) (hss : SingleSessionRun a cid fs0 ops) :
    (CountersUp cfg fs → ∀ ch, cfg.Unordered ch →
      ∃ ids : List Nat, ids.Nodup ∧ (fs.obtS ch).map some = ids.map (fun id => (fs.subC ch)[id]?)) ∧
    (CountersDown cfg fs → ∀ ch, (Cfg.swap cfg).Unordered ch →
      ∃ ids : List Nat, ids.Nodup ∧ (fs.obtC ch).map some = ids.map (fun id => (fs.subS ch)[id]?)) :=
  let h := full_stack hl he.toRenetFresh hr (runOK_of (noForgery_of_D he hss hnf) hss)
  ⟨fun hc => (h.1 hc).2.1, fun hc => (h.2 hc).2.1⟩

theorem mem_of_once {sub obt : List Bytes} (h : ∃ ids : List Nat, ids.Nodup ∧ obt.map some = ids.map (fun id => sub[id]?)) :
    ∀ x ∈ obt, x ∈ sub := by
  intro x hx
  obtain ⟨ids, -, h⟩ := h
  have : some x ∈ obt.map some := List.mem_map.mpr ⟨x, hx, rfl⟩
  rw [h] at this
  obtain ⟨id, -, hid⟩ := List.mem_map.mp this
  exact List.mem_of_getElem? hid

/-- **C03 over the full stack.**  Every message either application obtains was submitted by the peer's application on
    that channel, byte for byte: on the reliable kinds it is in `subC` / `subS` (accepted by the channel), on the
    Unreliable kind in `subCU` / `subSU` (passed to `send_message`); nothing is fabricated by the adversary, nothing is
    assembled from slices of different messages. -/
theorem full_stack_integrity (a : AEAD) (hl : a.Laws) (cfg : Cfg) (cid : Nat) (fs0 fs : FS) (ops : List FSOp)
    (he : Established cfg cid fs0) (hr : fs0.run a cid ops = some fs)
    (hnf : NoForgeryRunD a cid fs0 ops) (hss : SingleSessionRun a cid fs0 ops) :
    (CountersUp cfg fs →
      (∀ ch, cfg.Ordered ch ∨ cfg.Unordered ch → ∀ x ∈ fs.obtS ch, x ∈ fs.subC ch) ∧
      (∀ ch, cfg.Unreliable ch → ∀ x ∈ fs.obtS ch, x ∈ fs.subCU ch)) ∧
    (CountersDown cfg fs →
      (∀ ch, (Cfg.swap cfg).Ordered ch ∨ (Cfg.swap cfg).Unordered ch → ∀ x ∈ fs.obtC ch, x ∈ fs.subS ch) ∧
      (∀ ch, (Cfg.swap cfg).Unreliable ch → ∀ x ∈ fs.obtC ch, x ∈ fs.subSU ch)) := by
  have h := full_stack hl he.toRenetFresh hr (runOK_of (noForgery_of_D he hss hnf) hss)
  constructor
  · intro hc
    obtain ⟨h1, h2, h3⟩ := h.1 hc
    refine ⟨fun ch hk => ?_, h3⟩
    rcases hk with ho | hu
    · exact (h1 ch ho).subset
    · exact mem_of_once (h2 ch hu)
  · intro hc
    obtain ⟨h1, h2, h3⟩ := h.2 hc
    refine ⟨fun ch hk => ?_, h3⟩
    rcases hk with ho | hu
    · exact (h1 ch ho).subset
    · exact mem_of_once (h2 ch hu)

/-- the ghost records `NoForgeryRunD` speaks about are records of EMITTED datagrams: after every run from an established
    session, the datagram of every record of `sealedC` (`sealedS`) is in the history `emC` (`emS`) of datagrams the
    client's (server's) `send_packets` handed to the socket -/
theorem records_are_emitted (a : AEAD) (cfg : Cfg) (cid : Nat) (fs0 fs : FS) (ops : List FSOp)
    (he : Established cfg cid fs0) (hr : fs0.run a cid ops = some fs) :
    (∀ e ∈ fs.sealedC, e.dgram ∈ fs.emC.map (·.2)) ∧ (∀ e ∈ fs.sealedS, e.dgram ∈ fs.emS.map (·.2)) :=
  run_emitted ops fs0 fs (emitted_of_fresh he.toRenetFresh) hr

/-- the same at every intermediate moment of a longer run: the run hypotheses are those of the whole run (they
    restrict to every prefix), the counter conditions those of the moment considered -/
theorem full_stack_ordered_prefix_always (a : AEAD) (hl : a.Laws) (cfg : Cfg) (cid : Nat) (fs0 fs1 : FS)
    (ops1 ops2 : List FSOp) (he : Established cfg cid fs0) (hr1 : fs0.run a cid ops1 = some fs1)
    (hnf : NoForgeryRunD a cid fs0 (ops1 ++ ops2)) (hss : SingleSessionRun a cid fs0 (ops1 ++ ops2)) :
    (CountersUp cfg fs1 → ∀ ch, cfg.Ordered ch → fs1.obtS ch <+: fs1.subC ch) ∧
    (CountersDown cfg fs1 → ∀ ch, (Cfg.swap cfg).Ordered ch → fs1.obtC ch <+: fs1.subS ch) :=
  full_stack_ordered_prefix a hl cfg cid fs0 fs1 ops1 he hr1 (runNFD_prefix a cid ops1 ops2 fs0 hnf)
    (runSS_prefix a cid ops1 ops2 fs0 hss)

/-! ## non-vacuity: concrete sessions evaluated by the kernel

  The netcode handshake is RUN in the model (`Props/C20.lean`, toy AEAD with a keyed hash tag, two-slot server, connect
  token for client 7 under the server's private key): `c1` request → `s1` challenge → `c2` response → `s2` server
  connected + keep-alive → `c3` client connected; one more client `update` (`c4`) lets its `RenetClient` learn
  `Connected`.  `fs0` = that client glue + that server glue, nothing emitted yet. -/
namespace Ex
open RenetVerif.C20

def cfg : Cfg := ⟨60000, exChans, exChans⟩

def c4 : ClientGlue := (cstep c3.1 1000 []).1

def fs0 : FS := FS.start c4 s2.1

/-- what the handshake left behind, evaluated once: both `RenetClient`s fresh and `Connected`, the netcode client
    connected with id 7, the server's slot 0 connected for id 7 with the mirrored keys (32 bytes of 4 / of 5), same
    protocol id -/
theorem fs0_facts :
    (c4.renet = (Conn.fromChannels cfg.budget cfg.send cfg.recv).setConnected ∧
      s2.1.renet.conns = [(7, (Conn.fromChannels cfg.budget cfg.recv cfg.send).setConnected)] ∧
      c4.netcode.state = .connected ∧ c4.netcode.connectToken.clientId = 7 ∧
      (s2.1.netcode.clients[0]?).map (fun o => o.map fun x => (x.clientId, x.state, x.receiveKey, x.sendKey)) =
        some (some (7, .connected, c4.netcode.connectToken.clientToServerKey,
          c4.netcode.connectToken.serverToClientKey)) ∧
      s2.1.netcode.protocolId = c4.netcode.connectToken.protocolId ∧
      s2.1.netcode.clients.all (fun o => match o with
        | some x => x.clientId != 7 || (x.receiveKey == c4.netcode.connectToken.clientToServerKey &&
            x.sendKey == c4.netcode.connectToken.serverToClientKey)
        | none => true) = true) ∧
    c4.netcode.connectToken.clientToServerKey = List.replicate 32 4 ∧
    c4.netcode.connectToken.serverToClientKey = List.replicate 32 5 := by
  decide +kernel

theorem fs0_established : Established cfg 7 fs0 := established_of fs0_facts.1

/-! `Ex` — channel 1 ReliableOrdered, channel 0 Unreliable, both ways.

  1. The client submits `[1,2,3]` on channel 1 and `[7,7]` on channel 0; `send_packets` emits two datagrams `up`.
  2. The adversary hands the server: both datagrams, both again (replay), both with byte 5 incremented (corruption),
     three junk bytes from the SERVER's own address, and the first datagram cut to 10 bytes.  The server's application
     obtains `[1,2,3]` and `[7,7]` once each; it submits `[9,9]` on channel 1; `send_packets` emits `down`
     (the message and an ack).
  3. The adversary hands the client: `down`, `down` again, `down` corrupted, the first of them from a wrong source
     address, junk.  The client's application obtains `[9,9]` once.  The client flushes (an ack), and the adversary
     replays the two old client datagrams to the server once more: nothing further is obtained. -/

def flipB (b : Bytes) : Bytes := b.set 5 (b.getD 5 0 + 1)

def ops1 : List FSOp := [.cliSend 1 [1, 2, 3], .cliSend 0 [7, 7], .cliSendPackets]
def st1 : FS := (fs0.run toyAead 7 ops1).getD fs0
def up : List Bytes := st1.emC.map (·.2)
def inboxS : List Dgram :=
  (up.map fun b => (hsCliAddr, b)) ++ (up.map fun b => (hsCliAddr, b)) ++ (up.map fun b => (hsCliAddr, flipB b)) ++
    [(exSrvAddr, [1, 2, 3]), (hsCliAddr, (up.getD 0 []).take 10)]
def ops2 : List FSOp := [.srvUpdate 1000 inboxS, .srvRecv 1, .srvRecv 0, .srvRecv 1, .srvSend 1 [9, 9], .srvSendPackets]
def st2 : FS := (st1.run toyAead 7 ops2).getD fs0
def down : List Bytes := st2.emS.map (·.2)
def inboxC : List Dgram :=
  (down.map fun b => (exSrvAddr, b)) ++ (down.map fun b => (exSrvAddr, b)) ++ (down.map fun b => (exSrvAddr, flipB b)) ++
    [(hsCliAddr, down.getD 0 []), (exSrvAddr, [1, 2, 3])]
def ops3 : List FSOp :=
  [.cliUpdate 1000 inboxC, .cliRecv 1, .cliRecv 1, .cliSendPackets, .srvUpdate 1000 (up.map fun b => (hsCliAddr, b)), .srvRecv 1]
def ops : List FSOp := (ops1 ++ ops2) ++ ops3
def fin : FS := (fs0.run toyAead 7 ops).getD fs0
/-- the moment after step 2 -/
def mid : FS := (fs0.run toyAead 7 (ops1 ++ ops2)).getD fs0

/-- everything the examples below need, in ONE kernel evaluation: the run returns normally; the run hypotheses hold
    (every surfaced payload came from a recorded datagram — replays were stopped by the replay window,
    corrupted / truncated / foreign datagrams did not open — and no `ClientConnected 7`); counters; what was observed -/
theorem all :
    (fs0.run toyAead 7 ops).isSome = true ∧ (runNFD toyAead 7 fs0 ops && runSS toyAead 7 fs0 ops) = true ∧
    (fin.c.renet.packetSeq ≤ Varint.MAX + 1 ∧ fin.ySeq ≤ Varint.MAX + 1 ∧
      (∀ c ∈ cfg.send, c.id < 256 ∧ (fin.subC c.id).length ≤ Varint.MAX + 1 ∧ (fin.subS c.id).length ≤ Varint.MAX + 1) ∧
      (∀ c ∈ cfg.send, ∀ m ∈ fin.subC c.id ++ fin.subCU c.id ++ fin.subS c.id ++ fin.subSU c.id,
        m.length ≤ MAX_NUM_SLICES * SLICE_SIZE)) ∧
    (up.length = 2 ∧ down.length = 2 ∧ inboxS.length = 8 ∧ inboxC.length = 8) ∧
    (fin.subC 1 = [[1, 2, 3]] ∧ fin.obtS 1 = [[1, 2, 3]] ∧ fin.subCU 0 = [[7, 7]] ∧ fin.obtS 0 = [[7, 7]] ∧
      fin.subS 1 = [[9, 9]] ∧ fin.obtC 1 = [[9, 9]] ∧ fin.sealedC.length = 3 ∧ fin.sealedS.length = 2 ∧
      fin.emC.length = 3 ∧ fin.emS.length = 2) := by
  decide +kernel

theorem run : fs0.run toyAead 7 ops = some fin := some_getD all.1 _
theorem noForgery : NoForgeryRunD toyAead 7 fs0 ops := (Bool.and_eq_true _ _ ▸ all.2.1 : _ ∧ _).1
theorem singleSession : SingleSessionRun toyAead 7 fs0 ops := (Bool.and_eq_true _ _ ▸ all.2.1 : _ ∧ _).2

theorem countersUp : CountersUp cfg fin := by
  obtain ⟨⟨h1, -, h3, h4⟩, -⟩ := all.2.2
  refine ⟨fun c hc => (h3 c hc).1, h1, fun c hc => (h3 c hc).2.1, fun c hc m hm => h4 c hc m ?_, fun c hc m hm => h4 c hc m ?_⟩
  · simp only [List.mem_append]; exact Or.inl (Or.inl (Or.inl hm))
  · simp only [List.mem_append]; exact Or.inl (Or.inl (Or.inr hm))

theorem countersDown : CountersDown cfg fin := by
  obtain ⟨⟨-, h2, h3, h4⟩, -⟩ := all.2.2
  refine ⟨fun c hc => (h3 c hc).1, h2, fun c hc => (h3 c hc).2.2, fun c hc m hm => h4 c hc m ?_, fun c hc m hm => h4 c hc m ?_⟩
  · simp only [List.mem_append]; exact Or.inl (Or.inr hm)
  · simp only [List.mem_append]; exact Or.inr hm

theorem ordered1 : cfg.Ordered 1 := by unfold Cfg.Ordered; decide
theorem ordered1' : (Cfg.swap cfg).Ordered 1 := ordered1
theorem unreliable0 : cfg.Unreliable 0 := by unfold Cfg.Unreliable; decide

/-- `full_stack_ordered_prefix` on this run, both directions … -/
example : fin.obtS 1 <+: fin.subC 1 :=
  (full_stack_ordered_prefix toyAead toyAead_laws cfg 7 fs0 fin ops fs0_established run noForgery singleSession).1
    countersUp 1 ordered1
example : fin.obtC 1 <+: fin.subS 1 :=
  (full_stack_ordered_prefix toyAead toyAead_laws cfg 7 fs0 fin ops fs0_established run noForgery singleSession).2
    countersDown 1 ordered1'
/-- … `full_stack_integrity` on the Unreliable channel … -/
example : ∀ x ∈ fin.obtS 0, x ∈ fin.subCU 0 :=
  ((full_stack_integrity toyAead toyAead_laws cfg 7 fs0 fin ops fs0_established run noForgery singleSession).1
    countersUp).2 0 unreliable0
/-- … and what actually happened: everything arrived, exactly once, in spite of 2 replayed, 2 corrupted, 1 truncated and
    1 foreign datagram at the server and 2 replayed, 2 corrupted, 1 mis-addressed and 1 foreign datagram at the client,
    and a late second replay of the client's datagrams -/
example : fin.subC 1 = [[1, 2, 3]] ∧ fin.obtS 1 = [[1, 2, 3]] ∧ fin.subCU 0 = [[7, 7]] ∧ fin.obtS 0 = [[7, 7]] ∧
    fin.subS 1 = [[9, 9]] ∧ fin.obtC 1 = [[9, 9]] ∧ fin.sealedC.length = 3 ∧ fin.sealedS.length = 2 ∧
    fin.emC.length = 3 ∧ fin.emS.length = 2 := all.2.2.2.2

/-- `full_stack_ordered_prefix_always` at the moment after step 2 (the server has obtained `[1,2,3]`; its own `[9,9]` is
    submitted and on the wire, not yet obtained by the client) -/
theorem mid_facts :
    (fs0.run toyAead 7 (ops1 ++ ops2)).isSome = true ∧
    (mid.c.renet.packetSeq ≤ Varint.MAX + 1 ∧ mid.ySeq ≤ Varint.MAX + 1 ∧
      (∀ c ∈ cfg.send, c.id < 256 ∧ (mid.subC c.id).length ≤ Varint.MAX + 1 ∧ (mid.subS c.id).length ≤ Varint.MAX + 1) ∧
      (∀ c ∈ cfg.send, ∀ m ∈ mid.subC c.id ++ mid.subCU c.id ++ mid.subS c.id ++ mid.subSU c.id,
        m.length ≤ MAX_NUM_SLICES * SLICE_SIZE)) ∧
    (mid.subC 1 = [[1, 2, 3]] ∧ mid.obtS 1 = [[1, 2, 3]] ∧ mid.subS 1 = [[9, 9]] ∧ mid.obtC 1 = []) := by
  decide +kernel

example : mid.obtS 1 <+: mid.subC 1 ∧ mid.obtC 1 <+: mid.subS 1 := by
  obtain ⟨hr, ⟨h1, h2, h3, h4⟩, -⟩ := mid_facts
  have h := full_stack_ordered_prefix_always toyAead toyAead_laws cfg 7 fs0 mid (ops1 ++ ops2) ops3 fs0_established
    (some_getD hr _) noForgery singleSession
  refine ⟨h.1 ⟨fun c hc => (h3 c hc).1, h1, fun c hc => (h3 c hc).2.1, fun c hc m hm => h4 c hc m ?_,
      fun c hc m hm => h4 c hc m ?_⟩ 1 ordered1,
    h.2 ⟨fun c hc => (h3 c hc).1, h2, fun c hc => (h3 c hc).2.2, fun c hc m hm => h4 c hc m ?_,
      fun c hc m hm => h4 c hc m ?_⟩ 1 ordered1'⟩
  · simp only [List.mem_append]; exact Or.inl (Or.inl (Or.inl hm))
  · simp only [List.mem_append]; exact Or.inl (Or.inl (Or.inr hm))
  · simp only [List.mem_append]; exact Or.inl (Or.inr hm)
  · simp only [List.mem_append]; exact Or.inr hm
example : mid.subC 1 = [[1, 2, 3]] ∧ mid.obtS 1 = [[1, 2, 3]] ∧ mid.subS 1 = [[9, 9]] ∧ mid.obtC 1 = [] := mid_facts.2.2

/-! ### the two run hypotheses are needed — machine-checked witnesses on the same established state -/

/-- **`SingleSessionRun` is needed (known finding K1 at full-stack level).**  The client submits `[1,2,3]`; the server
    obtains it; the server's application disconnects the client and the next `update` drops the session; the adversary
    replays the handshake's request and response datagrams (`C20.c1`, `C20.c2`) — the server re-opens the session for
    client 7 with a fresh `RenetClient` — and then replays the client's old payload datagram: the server's application
    obtains `[1,2,3]` a second time.  Every surfaced payload was a genuine recorded datagram (`NoForgeryRun` holds),
    yet what the server obtained across the two incarnations is not a prefix of what the client submitted. -/
def k1 : List FSOp := [.cliSend 1 [1, 2, 3], .cliSendPackets]
def kst : FS := (fs0.run toyAead 7 k1).getD fs0
def kup : List Dgram := kst.emC.map fun x => (hsCliAddr, x.2)
def k2 : List FSOp :=
  [.srvUpdate 1000 kup, .srvRecv 1, .srvDisconnect, .srvUpdate 1000 [], .srvUpdate 1000 (C20.up c1.2),
   .srvUpdate 1000 (C20.up c2.2), .srvUpdate 1000 kup, .srvRecv 1]
def kfin : FS := (fs0.run toyAead 7 (k1 ++ k2)).getD fs0

theorem single_session_needed :
    fs0.run toyAead 7 (k1 ++ k2) = some kfin ∧ NoForgeryRunD toyAead 7 fs0 (k1 ++ k2) ∧
    NoForgeryRun toyAead 7 fs0 (k1 ++ k2) ∧ ¬ SingleSessionRun toyAead 7 fs0 (k1 ++ k2) ∧ CountersUp cfg kfin ∧
    kfin.subC 1 = [[1, 2, 3]] ∧ kfin.obtS 1 = [[1, 2, 3], [1, 2, 3]] ∧ ¬ kfin.obtS 1 <+: kfin.subC 1 := by
  have hf : (fs0.run toyAead 7 (k1 ++ k2)).isSome = true ∧
      (runNFD toyAead 7 fs0 (k1 ++ k2), runNF toyAead 7 fs0 (k1 ++ k2), runSS toyAead 7 fs0 (k1 ++ k2)) = (true, true, false) ∧
      (kfin.c.renet.packetSeq ≤ Varint.MAX + 1 ∧
      (∀ c ∈ cfg.send, c.id < 256 ∧ (kfin.subC c.id).length ≤ Varint.MAX + 1) ∧
      (∀ c ∈ cfg.send, ∀ m ∈ kfin.subC c.id ++ kfin.subCU c.id, m.length ≤ MAX_NUM_SLICES * SLICE_SIZE)) ∧
      kfin.subC 1 = [[1, 2, 3]] ∧ kfin.obtS 1 = [[1, 2, 3], [1, 2, 3]] := by decide +kernel
  obtain ⟨hr, hh, ⟨h1, h3, h4⟩, h5, h6⟩ := hf
  simp only [Prod.mk.injEq] at hh
  refine ⟨some_getD hr _, hh.1, hh.2.1, ?_, ?_, h5, h6, ?_⟩
  · intro h
    have : runSS toyAead 7 fs0 (k1 ++ k2) = true := h
    rw [hh.2.2] at this
    cases this
  · refine ⟨fun c hc => (h3 c hc).1, h1, fun c hc => (h3 c hc).2, fun c hc m hm => h4 c hc m ?_, fun c hc m hm => h4 c hc m ?_⟩
    · exact List.mem_append_left _ hm
    · exact List.mem_append_right _ hm
  · rw [h5, h6]; decide

/-- **`NoForgeryRun` is needed (key secrecy).**  A party that knows the client-to-server key (32 bytes of 4) seals a
    renet packet of its own — message 0 of channel 1 = `[6,6,6]` — with sequence number 100; the server's application
    obtains a message nobody submitted.  No `ClientConnected` occurs (`SingleSessionRun` holds). -/
def forgedPlain : Bytes :=
  match (RenetVerif.Packet.smallReliable 0 1 [(0, [6, 6, 6])]).toBytes SER_BUFFER with
  | .ok b => b
  | _ => []
def forged : Bytes :=
  match (Netcode.Packet.payload forgedPlain).encode toyAead C.NETCODE_MAX_PACKET_BYTES 7 (some (100, List.replicate 32 4)) with
  | .ok b => b
  | _ => []
def f2 : List FSOp := [.srvUpdate 1000 [(hsCliAddr, forged)], .srvRecv 1]
def ffin : FS := (fs0.run toyAead 7 f2).getD fs0

theorem no_forgery_needed :
    fs0.run toyAead 7 f2 = some ffin ∧ ¬ NoForgeryRunD toyAead 7 fs0 f2 ∧ SingleSessionRun toyAead 7 fs0 f2 ∧
    ffin.subC 1 = [] ∧ ffin.obtS 1 = [[6, 6, 6]] := by
  have hh : (fs0.run toyAead 7 f2).isSome = true ∧
      (runNFD toyAead 7 fs0 f2, runSS toyAead 7 fs0 f2, ffin.subC 1, ffin.obtS 1) = (false, true, [], [[6, 6, 6]]) := by
    decide +kernel
  obtain ⟨hr, hh⟩ := hh
  simp only [Prod.mk.injEq] at hh
  refine ⟨some_getD hr _, ?_, hh.2.1, hh.2.2.1, hh.2.2.2⟩
  intro h
  have : runNFD toyAead 7 fs0 f2 = true := h
  rw [hh.1] at this
  cases this

end Ex

/-! `ExU` — the same netcode session (handshake run in the model), the message layer configured with one
    ReliableUnordered channel (id 2) each way.  The client submits `[1]` and `[2]` in two flushes (`dU 0`, `dU 1`), the
    server `[8]` and `[9]` (`dD 0`, `dD 1`).  The adversary delivers the LATER datagram first, together with a
    corrupted copy of the earlier one; the application reads; then the earlier one with replays of both. -/
namespace ExU
open RenetVerif.C20 Ex

def chans : List ChanCfg := [{ id := 2, kind := .unordered, maxMem := 4096, resend := 300000000 }]
def cfg : Cfg := ⟨60000, chans, chans⟩

def fs0 : FS :=
  FS.start ⟨c4.netcode, (Conn.fromChannels 60000 chans chans).setConnected⟩
    ⟨s2.1.netcode, (Server.new 60000 chans chans).addConnection 7⟩

theorem fs0_established : Established cfg 7 fs0 :=
  established_of (c := ⟨c4.netcode, (Conn.fromChannels 60000 chans chans).setConnected⟩)
    (s := ⟨s2.1.netcode, (Server.new 60000 chans chans).addConnection 7⟩) (by decide +kernel)

def ops1 : List FSOp :=
  [.cliSend 2 [1], .cliSendPackets, .cliSend 2 [2], .cliSendPackets, .srvSend 2 [8], .srvSendPackets, .srvSend 2 [9],
   .srvSendPackets]
def st1 : FS := (fs0.run toyAead 7 ops1).getD fs0
def dU (i : Nat) : Dgram := (hsCliAddr, (st1.emC.map (·.2)).getD i [])
def dD (i : Nat) : Dgram := (exSrvAddr, (st1.emS.map (·.2)).getD i [])
def ops2 : List FSOp :=
  [.srvUpdate 1000 [dU 1, (hsCliAddr, flipB (dU 0).2)], .srvRecv 2, .srvUpdate 1000 [dU 1, dU 0, dU 1], .srvRecv 2, .srvRecv 2,
   .cliUpdate 1000 [dD 1, (exSrvAddr, flipB (dD 1).2)], .cliRecv 2, .cliUpdate 1000 [dD 0, dD 0, dD 1], .cliRecv 2, .cliRecv 2]
def ops : List FSOp := ops1 ++ ops2
def fin : FS := (fs0.run toyAead 7 ops).getD fs0

theorem all :
    (fs0.run toyAead 7 ops).isSome = true ∧ (runNFD toyAead 7 fs0 ops && runSS toyAead 7 fs0 ops) = true ∧
    (fin.c.renet.packetSeq ≤ Varint.MAX + 1 ∧ fin.ySeq ≤ Varint.MAX + 1 ∧
      (∀ c ∈ cfg.send, c.id < 256 ∧ (fin.subC c.id).length ≤ Varint.MAX + 1 ∧ (fin.subS c.id).length ≤ Varint.MAX + 1) ∧
      (∀ c ∈ cfg.send, ∀ m ∈ fin.subC c.id ++ fin.subCU c.id ++ fin.subS c.id ++ fin.subSU c.id,
        m.length ≤ MAX_NUM_SLICES * SLICE_SIZE)) ∧
    (fin.subC 2 = [[1], [2]] ∧ fin.obtS 2 = [[2], [1]] ∧ fin.subS 2 = [[8], [9]] ∧ fin.obtC 2 = [[9], [8]]) := by
  decide +kernel

theorem run : fs0.run toyAead 7 ops = some fin := some_getD all.1 _
theorem noForgery : NoForgeryRunD toyAead 7 fs0 ops := (Bool.and_eq_true _ _ ▸ all.2.1 : _ ∧ _).1
theorem singleSession : SingleSessionRun toyAead 7 fs0 ops := (Bool.and_eq_true _ _ ▸ all.2.1 : _ ∧ _).2

theorem countersUp : CountersUp cfg fin := by
  obtain ⟨⟨h1, -, h3, h4⟩, -⟩ := all.2.2
  refine ⟨fun c hc => (h3 c hc).1, h1, fun c hc => (h3 c hc).2.1, fun c hc m hm => h4 c hc m ?_, fun c hc m hm => h4 c hc m ?_⟩
  · simp only [List.mem_append]; exact Or.inl (Or.inl (Or.inl hm))
  · simp only [List.mem_append]; exact Or.inl (Or.inl (Or.inr hm))

theorem countersDown : CountersDown cfg fin := by
  obtain ⟨⟨-, h2, h3, h4⟩, -⟩ := all.2.2
  refine ⟨fun c hc => (h3 c hc).1, h2, fun c hc => (h3 c hc).2.2, fun c hc m hm => h4 c hc m ?_, fun c hc m hm => h4 c hc m ?_⟩
  · simp only [List.mem_append]; exact Or.inl (Or.inr hm)
  · simp only [List.mem_append]; exact Or.inr hm

theorem unordered2 : cfg.Unordered 2 := by unfold Cfg.Unordered; decide

/-- `full_stack_unordered_once` on this run, both directions … -/
example : ∃ ids : List Nat, ids.Nodup ∧ (fin.obtS 2).map some = ids.map (fun id => (fin.subC 2)[id]?) :=
  (full_stack_unordered_once toyAead toyAead_laws cfg 7 fs0 fin ops fs0_established run noForgery singleSession).1
    countersUp 2 unordered2
example : ∃ ids : List Nat, ids.Nodup ∧ (fin.obtC 2).map some = ids.map (fun id => (fin.subS 2)[id]?) :=
  (full_stack_unordered_once toyAead toyAead_laws cfg 7 fs0 fin ops fs0_established run noForgery singleSession).2
    countersDown 2 unordered2
/-- … `full_stack_integrity` on the reliable kind … -/
example : ∀ x ∈ fin.obtS 2, x ∈ fin.subC 2 :=
  ((full_stack_integrity toyAead toyAead_laws cfg 7 fs0 fin ops fs0_established run noForgery singleSession).1
    countersUp).1 2 (Or.inr unordered2)
/-- … and what actually happened: out of order, each exactly once (witness `ids = [1, 0]`), both ways -/
example : fin.subC 2 = [[1], [2]] ∧ fin.obtS 2 = [[2], [1]] ∧ fin.subS 2 = [[8], [9]] ∧ fin.obtC 2 = [[9], [8]] := all.2.2.2

end ExU

end RenetVerif.C20F
