/-
  C13 / C06 / C12 — THE REMAINING API-TRACE STATEMENTS ABOUT THE GENERATED `RenetClient`.

  Setting as in `Props/SrcPropsConnTrace.lean`: `GConn.exec cfg ops = some g` — the GENERATED `from_channels` and every
  generated call of the API trace `ops` (`send_message`, `receive_message`, `update`, `get_packets_to_send`, `process_packet`
  with ARBITRARY bytes, `set_connected`, `set_connecting`, `disconnect`, `disconnect_due_to_transport`, in any order) returned
  normally and ended in `g`; `CRunInRange cfg ops` is the decidable range side condition of the source tie.

    (a) `src_flush_never_changes_status`   along a WHOLE trace, no `get_packets_to_send` step changes `connection_status` /
                                           `disconnect_reason`, and all its datagrams are ≤ 1300 bytes;
        `src_step_status`                  one step from any reachable state: which operation can change the status, to what;
        `src_cause_sufficient`             the converse for the four causes that do not depend on a channel's content;
        `src_disconnect_has_cause`         whole trace: a `Disconnected r` status was produced by ONE identifiable step of the
                                           trace from a live state, and that step is `process_packet` (3 reasons),
                                           `send_message` (1 reason), `disconnect` or `disconnect_due_to_transport` — `GCause`;
        `src_never_self_disconnects`       hence never `PacketSerialization`, never `DisconnectedByServer`, and a trace without
                                           those four operations never disconnects (`src_quiet_trace_stays_live`);
    (b) `src_step_panics_iff`              one generated call from any reachable state panics IFF the connection is not
                                           disconnected and the call names a channel id that is not configured (for its
                                           direction); per function: `src_send_message_panics_iff`,
                                           `src_receive_message_panics_iff`, `src_other_calls_never_panic`.

  Proofs: `Lemmas/SrcEquiv/SrcConnMore.lean` (model side) + the two-way simulation `crun_sim` / `crun_sim_conv`.
-/
import RenetVerif.Lemmas.SrcEquiv.SrcConnMore
import RenetVerif.Props.SrcPropsConnTrace
set_option maxRecDepth 100000
set_option linter.unusedVariables false
set_option linter.unusedSimpArgs false
namespace RenetVerif.SrcPropsConnTraceMore
open RenetVerif RenetVerif.RustSem RenetVerif.C RenetVerif.System RenetVerif.SrcEquiv RenetVerif.SrcSystem RenetVerif.SrcConnSystem
open RenetVerif.SrcConnMore RenetVerif.SrcPropsConnTrace
open Src.renet.remote_connection

/-! ## the causes of a disconnect, on the generated types -/

/-- **why operation `op`, called on the live generated client `cl` (created from `cfg`), can leave it `Disconnected r`.**
    * `process_packet bytes`:
        `PacketDeserialization e`      — the generated `Packet::from_bytes` on a fresh cursor over `bytes` returns `Err(e)`;
        `ReceivedInvalidChannelId ch`  — `bytes` decode (generated decoder) and `ch` is missing in one of the two generated
                                          receive tables;
        `ReceiveChannelError ch e`     — `bytes` decode and `ch` is a configured receive channel (the channel refused the content);
    * `send_message ch m`: `SendChannelError ch ReliableChannelMaxMemoryReached` — `ch` is in the generated reliable send table
      and `memory_usage_bytes + m.len() > max_memory_usage_bytes`;
    * `disconnect`: `DisconnectedByClient`;  `disconnect_due_to_transport`: `Transport`;
    * every other operation (`receive_message`, `update`, `get_packets_to_send`, `set_connected`, `set_connecting`): none. -/
def GCause (cfg : Cfg) (cl : RenetClient) : COp → SReason → Prop
  | .process b, r =>
      (∃ e st, r = .PacketDeserialization e ∧
        Src.renet.packet.Packet.from_bytes (RustSem.Octets.with_slice (toNats b)) = .err (e, st)) ∨
      (∃ ch p, r = .ReceivedInvalidChannelId ch ∧ GDecodes (toNats b) p ∧
        (RustSem.Map.find? cl.receive_reliable_channels ch = none ∨ RustSem.Map.find? cl.receive_unreliable_channels ch = none)) ∨
      (∃ ch e p, r = .ReceiveChannelError ch e ∧ GDecodes (toNats b) p ∧ ch ∈ cfg.recv.map (·.id))
  | .send ch m, r =>
      r = .SendChannelError ch .ReliableChannelMaxMemoryReached ∧
      ∃ s, RustSem.Map.find? cl.send_reliable_channels ch = some s ∧ s.memory_usage_bytes + m.length > s.max_memory_usage_bytes
  | .disconnect, r => r = .DisconnectedByClient
  | .disconnectTransport, r => r = .Transport
  | _, _ => False

/-- the operations that can disconnect at all -/
def COp.canDisconnect : COp → Bool
  | .process _ | .send _ _ | .disconnect | .disconnectTransport => true
  | _ => false

theorem GCause.canDisconnect {cfg : Cfg} {cl : RenetClient} {op : COp} {r : SReason} (h : GCause cfg cl op r) :
    COp.canDisconnect op = true := by
  cases op <;> first | rfl | exact h.elim

/-- no cause produces `PacketSerialization` or `DisconnectedByServer` -/
theorem GCause.not_self {cfg : Cfg} {cl : RenetClient} {op : COp} {r : SReason} (h : GCause cfg cl op r) :
    (∀ e, r ≠ .PacketSerialization e) ∧ r ≠ .DisconnectedByServer := by
  cases op with
  | process b =>
    rcases h with ⟨e, st, rfl, -⟩ | ⟨ch, p, rfl, -⟩ | ⟨ch, e, p, rfl, -⟩ <;> exact ⟨fun _ hx => (nomatch hx), fun hx => (nomatch hx)⟩
  | send ch m => obtain ⟨rfl, -⟩ := h; exact ⟨fun _ hx => (nomatch hx), fun hx => (nomatch hx)⟩
  | disconnect => cases h; exact ⟨fun _ hx => (nomatch hx), fun hx => (nomatch hx)⟩
  | disconnectTransport => cases h; exact ⟨fun _ hx => (nomatch hx), fun hx => (nomatch hx)⟩
  | recv ch => exact h.elim
  | update dt => exact h.elim
  | flush => exact h.elim
  | setConnected => exact h.elim
  | setConnecting => exact h.elim

/-- the generated decoder rejects what the model decoder rejects, with the same error -/
theorem from_bytes_err {b : Bytes} {e : SerErr} (h : Packet.fromBytes b = .error e) :
    ∃ st, Src.renet.packet.Packet.from_bytes (RustSem.Octets.with_slice (toNats b)) = .err (reprSerErr e, st) := by
  have := SrcTie.packet_from_bytes_fresh b
  rw [h] at this
  cases hx : Src.renet.packet.Packet.from_bytes (RustSem.Octets.with_slice (toNats b)) with
  | ok v => rw [hx] at this; simp [Res.forget, mapRes] at this
  | err e' =>
    obtain ⟨e1, st⟩ := e'
    rw [hx] at this
    simp only [Res.forget, mapRes, Res.err.injEq, id] at this
    exact ⟨st, by rw [this]⟩
  | panic m => rw [hx] at this; simp [Res.forget, mapRes] at this

/-- model cause ⇒ generated cause -/
theorem gcause_of_mcause (cfg : Cfg) (mrs : Nat → Nat) {pre : List COp} {t : MTr} (ht : (MTr.init cfg).run pre = some t)
    {op : COp} {r : Reason} (h : MCause t.c op r) : GCause cfg (reprConn mrs t.c) op (reprReason r) := by
  cases h with
  | deser hp =>
    obtain ⟨st, e⟩ := from_bytes_err hp
    exact Or.inl ⟨_, st, rfl, e⟩
  | invalidChannel hp hch hf =>
    refine Or.inr (Or.inl ⟨_, _, rfl, gdecodes_of_fromBytes hp, ?_⟩)
    rcases hf with hf | hf
    · left; simp only [reprConn, find_reprRecvRel, hf, Option.map_none]
    · right; simp only [reprConn, find_mapVals, hf, Option.map_none]
  | recvChan e hp hch hr =>
    exact Or.inr (Or.inr ⟨_, _, _, rfl, gdecodes_of_fromBytes hp, (hasRecv_run_iff cfg pre t ht _).mp hr⟩)
  | @sendChan ch m s hf hmem =>
    refine ⟨rfl, reprSR s, ?_, ?_⟩
    · simp only [reprConn, find_mapVals, hf, Option.map_some]
    · exact hmem
  | byClient => rfl
  | transport => rfl

/-! ## reading the status of the generated struct through the simulation -/

theorem status_of_sim {t : MTr} {g : GConn} (sim : SimConn t g) : g.cl.connection_status = reprStatus t.c.status := by
  obtain ⟨mrs, hC⟩ := sim.cl
  rw [hC]; rfl

theorem isDisc_of_sim {t : MTr} {g : GConn} (sim : SimConn t g) :
    (RenetClient.is_disconnected g.cl : Res Empty Bool) = .ok t.c.isDisconnected := by
  obtain ⟨mrs, hC⟩ := sim.cl
  rw [hC, SrcTie.conn_is_disconnected]

theorem reason_of_sim {t : MTr} {g : GConn} (sim : SimConn t g) :
    (RenetClient.disconnect_reason g.cl : Res Empty _) = .ok (t.c.disconnectReason.map reprReason) := by
  obtain ⟨mrs, hC⟩ := sim.cl
  rw [hC, SrcTie.conn_disconnect_reason]

theorem reprStatus_disc {s : Status} {r : SReason} (h : reprStatus s = .Disconnected r) :
    ∃ r0, s = .disconnected r0 ∧ reprReason r0 = r := by
  cases s with
  | connected => cases h
  | connecting => cases h
  | disconnected r0 => exact ⟨r0, rfl, by cases h; rfl⟩

/-- the model run of a prefix followed by one step -/
theorem run_snoc {t0 t1 t2 : MTr} {pre : List COp} {op : COp} (h1 : t0.run pre = some t1) (h2 : t1.step op = some t2) :
    t0.run (pre ++ [op]) = some t2 := by
  rw [MTr.run_append, h1]; simp only [Option.bind_some, MTr.run, h2]

theorem range_split {cfg : Cfg} {ops pre post : List COp} {op : COp} (e : ops = pre ++ op :: post) (h : CRunInRange cfg ops) :
    CRunInRange cfg pre ∧ CRunInRange cfg (pre ++ [op]) := by
  subst e
  refine ⟨crunInRange_prefix cfg pre _ h, crunInRange_prefix cfg (pre ++ [op]) post ?_⟩
  rw [List.append_assoc]; exact h

/-! ## (a) C13, whole trace: a flush never changes the status -/

/-- **C13 on the generated code, whole trace: no flush changes the status.**  Along ANY API trace `ops` of the generated
    `RenetClient` (in range), for EVERY `get_packets_to_send` step of it (`ops = pre ++ flush :: post`): with `g1` / `g2` the
    generated states before / after that call, `connection_status` is unchanged, the generated `disconnect_reason` returns the
    same, the call appended exactly its returned datagrams `bs` to the log, and every datagram is at most 1300 bytes long.  In
    particular no flush ever disconnects the connection with `PacketSerialization`. -/
theorem src_flush_never_changes_status (cfg : Cfg) (ops : List COp) (g : GConn) (hg : GConn.exec cfg ops = some g)
    (hrg : CRunInRange cfg ops) (pre post : List COp) (hsplit : ops = pre ++ .flush :: post) :
    ∃ g1 g2 bs, GConn.exec cfg pre = some g1 ∧ GConn.exec cfg (pre ++ [.flush]) = some g2 ∧
      g2.cl.connection_status = g1.cl.connection_status ∧
      (RenetClient.disconnect_reason g2.cl : Res Empty _) = RenetClient.disconnect_reason g1.cl ∧
      g2.flushes = g1.flushes ++ [bs] ∧ (∀ b ∈ bs, b.length ≤ 1300) ∧ g2.run post = some g := by
  obtain ⟨t, ht, sim⟩ := crun_sim_conv cfg ops g hrg hg
  obtain ⟨hr1, hr2⟩ := range_split hsplit hrg
  subst hsplit
  obtain ⟨t1, t2, bs, a1, a2, a3, a4, a5, a6⟩ := mtr_flush_steps pre post (MTr.init cfg) t (epGood_init cfg) hrg.2 ht
  obtain ⟨g1, e1, sim1⟩ := crun_sim cfg pre t1 hr1 a1
  obtain ⟨g2, e2, sim2⟩ := crun_sim cfg _ t2 hr2 (run_snoc a1 a2)
  refine ⟨g1, g2, bs.map toNats, e1, e2, ?_, ?_, ?_, ?_, ?_⟩
  · rw [status_of_sim sim1, status_of_sim sim2, a3]
  · rw [reason_of_sim sim1, reason_of_sim sim2]
    unfold Conn.disconnectReason; rw [a3]
  · rw [sim2.flushes, sim1.flushes, a4]; simp only [List.map_append, List.map_cons, List.map_nil]
  · intro b hb
    obtain ⟨b0, hb0, rfl⟩ := List.mem_map.mp hb
    rw [toNats_length]; exact a5 b0 hb0
  · have : GConn.exec cfg ((pre ++ [.flush]) ++ post) = some g := by rw [List.append_assoc]; exact hg
    rw [GConn.exec_append, e2] at this
    exact this

/-! ## (a) C06 / C12: a status change has a cause -/

/-- **one step from any reachable state: which generated call can change `connection_status`, and to what.**  `g` reached by
    ANY run, `g'` after one more operation `op` (any operation, any bytes).  Then `connection_status` is unchanged — or `g` was not
    disconnected and: `op = set_connected` and the status is `Connected`; or `op = set_connecting` and it is `Connecting`; or it
    is `Disconnected r` with a cause `GCause cfg g.cl op r` (so `op` is `process_packet`, `send_message`, `disconnect` or
    `disconnect_due_to_transport`).  `receive_message`, `update`, `get_packets_to_send` NEVER change the status. -/
theorem src_step_status (cfg : Cfg) (ops : List COp) (op : COp) (g g' : GConn) (hg : GConn.exec cfg ops = some g)
    (hg' : GConn.exec cfg (ops ++ [op]) = some g') (hrg : CRunInRange cfg (ops ++ [op])) :
    g'.cl.connection_status = g.cl.connection_status ∨
    ((RenetClient.is_disconnected g.cl : Res Empty Bool) = .ok false ∧
      ((op = .setConnected ∧ g'.cl.connection_status = .Connected) ∨
       (op = .setConnecting ∧ g'.cl.connection_status = .Connecting) ∨
       ∃ r, g'.cl.connection_status = .Disconnected r ∧ GCause cfg g.cl op r)) := by
  obtain ⟨t, t', ht, ht', sim, sim', hgood⟩ := crun_split cfg ops [op] g g' hrg hg hg'
  have hr := (SrcConnMore.inRange_last ops op _ t ht hrg.2).1
  have hs : t.step op = some t' := by
    simp only [MTr.run] at ht'
    cases hs : t.step op with
    | none => rw [hs] at ht'; cases ht'
    | some t1 => rw [hs] at ht'; cases ht'; rfl
  obtain ⟨mrs, hC⟩ := sim.cl
  rcases mtr_step_cause hgood hr hs with e | ⟨hd, hcase⟩
  · left; rw [status_of_sim sim, status_of_sim sim', e]
  · right
    refine ⟨by rw [isDisc_of_sim sim, hd], ?_⟩
    rcases hcase with ⟨e1, e2⟩ | ⟨e1, e2⟩ | ⟨r, e1, e2⟩
    · exact Or.inl ⟨e1, by rw [status_of_sim sim', e2]; rfl⟩
    · exact Or.inr (Or.inl ⟨e1, by rw [status_of_sim sim', e2]; rfl⟩)
    · refine Or.inr (Or.inr ⟨reprReason r, by rw [status_of_sim sim', e1]; rfl, ?_⟩)
      rw [hC]; exact gcause_of_mcause cfg mrs ht e2

/-- the generated decoder's error is the model decoder's error -/
theorem fromBytes_of_err {b : Bytes} {e : SSerErr} {st : RustSem.Octets}
    (h : Src.renet.packet.Packet.from_bytes (RustSem.Octets.with_slice (toNats b)) = .err (e, st)) :
    ∃ e0, Packet.fromBytes b = .error e0 ∧ reprSerErr e0 = e := by
  have := SrcTie.packet_from_bytes_fresh b
  rw [h] at this
  cases hp : Packet.fromBytes b with
  | ok p => rw [hp] at this; simp [Res.forget, mapRes] at this
  | error e0 =>
    rw [hp] at this
    simp only [Res.forget, mapRes, Res.err.injEq, id] at this
    exact ⟨e0, rfl, this.symm⟩

/-- **the four content-independent causes are also SUFFICIENT** (so for them `GCause` is an exact characterisation): from a
    reachable state `g` whose generated `is_disconnected` returns `false`, after one more operation `op`:
    `disconnect` ⇒ `Disconnected(DisconnectedByClient)`; `disconnect_due_to_transport` ⇒ `Disconnected(Transport)`;
    `process_packet bytes` with the generated `Packet::from_bytes` failing with `e` ⇒ `Disconnected(PacketDeserialization(e))`;
    `send_message ch m` with `ch` in the generated reliable send table and `memory_usage_bytes + m.len() > max_memory_usage_bytes`
    ⇒ `Disconnected(SendChannelError(ch, ReliableChannelMaxMemoryReached))`.
    (`ReceivedInvalidChannelId` / `ReceiveChannelError` depend on the decoded packet and the receive channel's content; their
    necessity is `src_step_status`, their occurrence is shown by the kernel-checked `Ex.causes`.) -/
theorem src_cause_sufficient (cfg : Cfg) (ops : List COp) (op : COp) (g g' : GConn) (hg : GConn.exec cfg ops = some g)
    (hg' : GConn.exec cfg (ops ++ [op]) = some g') (hrg : CRunInRange cfg (ops ++ [op]))
    (hlive : (RenetClient.is_disconnected g.cl : Res Empty Bool) = .ok false) :
    (op = .disconnect → g'.cl.connection_status = .Disconnected .DisconnectedByClient) ∧
    (op = .disconnectTransport → g'.cl.connection_status = .Disconnected .Transport) ∧
    (∀ b e st, op = .process b →
      Src.renet.packet.Packet.from_bytes (RustSem.Octets.with_slice (toNats b)) = .err (e, st) →
      g'.cl.connection_status = .Disconnected (.PacketDeserialization e)) ∧
    (∀ ch m s, op = .send ch m → RustSem.Map.find? g.cl.send_reliable_channels ch = some s →
      s.memory_usage_bytes + m.length > s.max_memory_usage_bytes →
      g'.cl.connection_status = .Disconnected (.SendChannelError ch .ReliableChannelMaxMemoryReached)) := by
  obtain ⟨t, t', ht, ht', sim, sim', hgood⟩ := crun_split cfg ops [op] g g' hrg hg hg'
  have hs : t.step op = some t' := by
    simp only [MTr.run] at ht'
    cases hs : t.step op with
    | none => rw [hs] at ht'; cases ht'
    | some t1 => rw [hs] at ht'; cases ht'; rfl
  rw [isDisc_of_sim sim] at hlive
  obtain ⟨c1, c2, c3, c4⟩ := mtr_step_cause_conv (Res.ok.inj hlive) hs
  obtain ⟨mrs, hC⟩ := sim.cl
  refine ⟨fun e => ?_, fun e => ?_, fun b e st eo hx => ?_, fun ch m s eo hf hmem => ?_⟩
  · rw [status_of_sim sim', c1 e]; rfl
  · rw [status_of_sim sim', c2 e]; rfl
  · obtain ⟨e0, hp, rfl⟩ := fromBytes_of_err hx
    rw [status_of_sim sim', c3 b e0 eo hp]; rfl
  · rw [hC] at hf
    simp only [reprConn, find_mapVals] at hf
    cases hm : SMap.find? t.c.sendRel ch with
    | none => rw [hm] at hf; cases hf
    | some s0 =>
      rw [hm] at hf; cases hf
      rw [status_of_sim sim', c4 ch m s0 eo hm hmem]; rfl

/-- **a disconnect has a cause (C06 / C12 on the generated code, whole trace).**  If, after ANY API trace `ops` of the generated
    `RenetClient` from `from_channels`, the generated `connection_status` is `Disconnected r`, then the trace splits at ONE
    operation `op` (`ops = pre ++ op :: post`) such that: before `op` the generated `is_disconnected` returns `false`, right after
    `op` the status is `Disconnected r` — the same `r` as at the end — and `op` has a cause for `r`:
    `process_packet` (`PacketDeserialization` / `ReceivedInvalidChannelId` / `ReceiveChannelError`, each with its witness),
    `send_message` (`SendChannelError(ch, ReliableChannelMaxMemoryReached)`, the budget really exceeded), `disconnect`
    (`DisconnectedByClient`) or `disconnect_due_to_transport` (`Transport`).  No `update`, `receive_message`,
    `get_packets_to_send` or status call is ever the cause. -/
theorem src_disconnect_has_cause (cfg : Cfg) (ops : List COp) (g : GConn) (hg : GConn.exec cfg ops = some g)
    (hrg : CRunInRange cfg ops) (r : SReason) (hd : g.cl.connection_status = .Disconnected r) :
    ∃ pre op post g1 g2, ops = pre ++ op :: post ∧ GConn.exec cfg pre = some g1 ∧ GConn.exec cfg (pre ++ [op]) = some g2 ∧
      (RenetClient.is_disconnected g1.cl : Res Empty Bool) = .ok false ∧
      g2.cl.connection_status = .Disconnected r ∧ GCause cfg g1.cl op r := by
  obtain ⟨t, ht, sim⟩ := crun_sim_conv cfg ops g hrg hg
  rw [status_of_sim sim] at hd
  obtain ⟨r0, hst, rfl⟩ := reprStatus_disc hd
  obtain ⟨pre, op, post, t1, t2, e, h1, h2, h3, h4, h5⟩ :=
    mtr_run_cause r0 ops (MTr.init cfg) t (epGood_init cfg) hrg.2 rfl ht hst
  obtain ⟨hr1, hr2⟩ := range_split e hrg
  obtain ⟨g1, e1, sim1⟩ := crun_sim cfg pre t1 hr1 h1
  obtain ⟨g2, e2, sim2⟩ := crun_sim cfg _ t2 hr2 (run_snoc h1 h2)
  obtain ⟨mrs, hC⟩ := sim1.cl
  refine ⟨pre, op, post, g1, g2, e, e1, e2, by rw [isDisc_of_sim sim1, h3], by rw [status_of_sim sim2, h4]; rfl, ?_⟩
  rw [hC]; exact gcause_of_mcause cfg mrs h1 h5

/-- **the generated client never disconnects itself with `PacketSerialization`, and never reports `DisconnectedByServer`**:
    in NO state reached by ANY API trace (in range). -/
theorem src_never_self_disconnects (cfg : Cfg) (ops : List COp) (g : GConn) (hg : GConn.exec cfg ops = some g)
    (hrg : CRunInRange cfg ops) :
    (∀ e, g.cl.connection_status ≠ .Disconnected (.PacketSerialization e)) ∧
    g.cl.connection_status ≠ .Disconnected .DisconnectedByServer := by
  refine ⟨fun e hd => ?_, fun hd => ?_⟩
  · obtain ⟨pre, op, post, g1, g2, -, -, -, -, -, hc⟩ := src_disconnect_has_cause cfg ops g hg hrg _ hd
    exact hc.not_self.1 e rfl
  · obtain ⟨pre, op, post, g1, g2, -, -, -, -, -, hc⟩ := src_disconnect_has_cause cfg ops g hg hrg _ hd
    exact hc.not_self.2 rfl

/-- **a trace made only of `receive_message`, `update`, `get_packets_to_send`, `set_connected`, `set_connecting` never
    disconnects the generated client** -/
theorem src_quiet_trace_stays_live (cfg : Cfg) (ops : List COp) (g : GConn) (hg : GConn.exec cfg ops = some g)
    (hrg : CRunInRange cfg ops) (hq : ∀ op ∈ ops, COp.canDisconnect op = false) :
    (RenetClient.is_disconnected g.cl : Res Empty Bool) = .ok false := by
  obtain ⟨t, ht, sim⟩ := crun_sim_conv cfg ops g hrg hg
  rw [isDisc_of_sim sim]
  cases hd : t.c.isDisconnected with
  | false => rfl
  | true =>
    obtain ⟨r0, hst⟩ := status_of_isDisc hd
    obtain ⟨pre, op, post, g1, g2, e, -, -, -, -, hc⟩ :=
      src_disconnect_has_cause cfg ops g hg hrg (reprReason r0) (by rw [status_of_sim sim, hst]; rfl)
    have := hq op (by rw [e]; exact List.mem_append_right _ (List.mem_cons_self ..))
    rw [hc.canDisconnect] at this; cases this

/-! ## (b) a call panics iff it names an unconfigured channel on a live connection -/

/-- **panics only on an invalid channel id, as an equivalence.**  `g` reached by ANY run; `op` any operation, in range
    (`CRunInRange cfg (ops ++ [op])`: the connection's counters in range before the call, a submitted message shorter than `2^63`,
    the clock within `Duration::MAX`).  The generated call PANICS (`g.step op = none`) if and only if the generated
    `is_disconnected` returns `false` and `op` is a `send_message` / `receive_message` whose channel id is not among the
    configured send / receive channels (`COpValid`). -/
theorem src_step_panics_iff (cfg : Cfg) (ops : List COp) (g : GConn) (hg : GConn.exec cfg ops = some g) (op : COp)
    (hrg : CRunInRange cfg (ops ++ [op])) :
    g.step op = none ↔ ((RenetClient.is_disconnected g.cl : Res Empty Bool) = .ok false ∧ ¬ COpValid cfg op) := by
  obtain ⟨t, ht, sim⟩ := crun_sim_conv cfg ops g (crunInRange_prefix cfg ops _ hrg) hg
  have hgood := epGood_run ops _ t (epGood_init cfg) ht
  obtain ⟨hr, hop⟩ := SrcConnMore.inRange_last ops op _ t ht hrg.2
  have hstep := cstep_sim hgood sim hr op hop
  have h1 : g.step op = none ↔ t.step op = none := by
    cases hs : t.step op with
    | none => rw [hs] at hstep; simp [hstep]
    | some t' => rw [hs] at hstep; obtain ⟨g', e, -⟩ := hstep; simp [e]
  have h2 : CI.ChanValid t.c op.toConnOp ↔ COpValid cfg op := by
    cases op <;> first | exact Iff.rfl | exact hasSend_run_iff cfg ops t ht _ | exact hasRecv_run_iff cfg ops t ht _
  rw [h1, mtr_step_none_iff hgood hr op, h2, isDisc_of_sim sim]
  constructor
  · rintro ⟨a, b⟩; exact ⟨by rw [a], b⟩
  · rintro ⟨a, b⟩; exact ⟨Res.ok.inj a, b⟩

/-- **`send_message` panics iff the connection is not disconnected and `ch` is not a configured send channel** (any reachable
    state, any message shorter than `2^63` bytes) -/
theorem src_send_message_panics_iff (cfg : Cfg) (ops : List COp) (g : GConn) (hg : GConn.exec cfg ops = some g)
    (ch : Nat) (m : Bytes) (hrg : CRunInRange cfg (ops ++ [.send ch m])) :
    (∃ msg, (RenetClient.send_message g.cl ch (toNats m) : Res Empty _) = .panic msg) ↔
      ((RenetClient.is_disconnected g.cl : Res Empty Bool) = .ok false ∧ ch ∉ cfg.send.map (·.id)) := by
  refine Iff.trans ?_ (src_step_panics_iff cfg ops g hg (.send ch m) hrg)
  simp only [GConn.step]
  cases hm : (RenetClient.send_message g.cl ch (toNats m) : Res Empty _) with
  | ok x => simp
  | err e => exact nomatch e
  | panic s => simp

/-- **`receive_message` panics iff the connection is not disconnected and `ch` is not a configured receive channel** -/
theorem src_receive_message_panics_iff (cfg : Cfg) (ops : List COp) (g : GConn) (hg : GConn.exec cfg ops = some g)
    (ch : Nat) (hrg : CRunInRange cfg (ops ++ [.recv ch])) :
    (∃ msg, (RenetClient.receive_message g.cl ch : Res Empty _) = .panic msg) ↔
      ((RenetClient.is_disconnected g.cl : Res Empty Bool) = .ok false ∧ ch ∉ cfg.recv.map (·.id)) := by
  refine Iff.trans ?_ (src_step_panics_iff cfg ops g hg (.recv ch) hrg)
  simp only [GConn.step]
  cases hm : (RenetClient.receive_message g.cl ch : Res Empty _) with
  | ok x => simp
  | err e => exact nomatch e
  | panic s => simp

/-- **the other seven generated calls never panic** from any reachable state (in range): `update`, `get_packets_to_send`,
    `process_packet` on ANY bytes, `set_connected`, `set_connecting`, `disconnect`, `disconnect_due_to_transport` -/
theorem src_other_calls_never_panic (cfg : Cfg) (ops : List COp) (g : GConn) (hg : GConn.exec cfg ops = some g) (op : COp)
    (hop : (∀ ch m, op ≠ .send ch m) ∧ ∀ ch, op ≠ .recv ch) (hrg : CRunInRange cfg (ops ++ [op])) :
    ∃ g', g.step op = some g' := by
  have hv : COpValid cfg op := by
    cases op <;> first | trivial | exact absurd rfl (hop.1 _ _) | exact absurd rfl (hop.2 _)
  cases hs : g.step op with
  | some g' => exact ⟨g', rfl⟩
  | none => exact absurd hv ((src_step_panics_iff cfg ops g hg op hrg).mp hs).2

/-! ## non-vacuity: executed by the kernel ON THE GENERATED CODE

  Configuration, live phase `ops1` (state `g1`: connected, two flushes done), hostile phase `opsH` (state `gH`: disconnected by
  garbage) and the continuation `ext` of `SrcPropsConnTrace.Ex`. -/
namespace Ex
open RenetVerif.SrcPropsConnTrace.Ex

/-- a data packet for channel 9, which is not configured -/
abbrev strayPkt : Bytes := C06.Ex.bytesOf (.smallReliable 13 9 [(0, [7])])
/-- a message larger than the 10000-byte budget of reliable channel 0 -/
abbrev huge : Bytes := List.replicate 10001 7

/-- the four kinds of cause, computed by the kernel on the generated code after the live phase -/
theorem causes :
    (GConn.exec cfg (ops1 ++ [.process C06.Ex.garbage])).map (·.cl.connection_status) =
      some (.Disconnected (.PacketDeserialization .InvalidPacketType)) ∧
    (GConn.exec cfg (ops1 ++ [.process strayPkt])).map (·.cl.connection_status) =
      some (.Disconnected (.ReceivedInvalidChannelId 9)) ∧
    (GConn.exec cfg (ops1 ++ [.process C06.Ex.hostileSlice])).map (·.cl.connection_status) =
      some (.Disconnected (.ReceiveChannelError 1 .InvalidSliceMessage)) ∧
    (GConn.exec cfg (ops1 ++ [.send 0 huge])).map (·.cl.connection_status) =
      some (.Disconnected (.SendChannelError 0 .ReliableChannelMaxMemoryReached)) ∧
    (GConn.exec cfg (ops1 ++ [.disconnect])).map (·.cl.connection_status) = some (.Disconnected .DisconnectedByClient) ∧
    (GConn.exec cfg (ops1 ++ [.disconnectTransport])).map (·.cl.connection_status) = some (.Disconnected .Transport) := by
  decide +kernel

/-- **`src_flush_never_changes_status` applied** to the second flush of the whole trace `opsH ++ ext` (the last operation of
    `ops1`) and to the first flush of `ext`, on the disconnected connection -/
example : ∃ g1' g2 bs, GConn.exec cfg (ops1.dropLast) = some g1' ∧ GConn.exec cfg (ops1.dropLast ++ [.flush]) = some g2 ∧
    g2.cl.connection_status = g1'.cl.connection_status ∧
    (RenetClient.disconnect_reason g2.cl : Res Empty _) = RenetClient.disconnect_reason g1'.cl ∧
    g2.flushes = g1'.flushes ++ [bs] ∧ (∀ b ∈ bs, b.length ≤ 1300) ∧ g2.run (opsH.drop 13 ++ ext) = some gE :=
  src_flush_never_changes_status cfg (opsH ++ ext) gE grunE inRange ops1.dropLast (opsH.drop 13 ++ ext) (by decide +kernel)
example : ∃ g1' g2 bs, GConn.exec cfg (opsH ++ [.setConnected]) = some g1' ∧
    GConn.exec cfg (opsH ++ [.setConnected] ++ [.flush]) = some g2 ∧
    g2.cl.connection_status = g1'.cl.connection_status ∧
    (RenetClient.disconnect_reason g2.cl : Res Empty _) = RenetClient.disconnect_reason g1'.cl ∧
    g2.flushes = g1'.flushes ++ [bs] ∧ (∀ b ∈ bs, b.length ≤ 1300) ∧ g2.run (ext.drop 2) = some gE :=
  src_flush_never_changes_status cfg (opsH ++ ext) gE grunE inRange (opsH ++ [.setConnected]) (ext.drop 2) (by decide +kernel)

/-- **`src_disconnect_has_cause` applied** to the end of the whole trace: the reason `PacketDeserialization(InvalidPacketType)`
    of `gE` has a cause inside the trace (it is the garbage datagram of `opsH`; everything after it is absorbed) -/
example : ∃ pre op post g1' g2, opsH ++ ext = pre ++ op :: post ∧ GConn.exec cfg pre = some g1' ∧
    GConn.exec cfg (pre ++ [op]) = some g2 ∧ (RenetClient.is_disconnected g1'.cl : Res Empty Bool) = .ok false ∧
    g2.cl.connection_status = .Disconnected (.PacketDeserialization .InvalidPacketType) ∧
    GCause cfg g1'.cl op (.PacketDeserialization .InvalidPacketType) :=
  src_disconnect_has_cause cfg (opsH ++ ext) gE grunE inRange _ gfacts.2.2.2.2.2.1

/-- **`src_step_status` applied** to the over-budget `send_message` and to the stray packet after the live phase: the third
    alternative holds (the first two are excluded by the computed statuses), so the theorem yields the witnesses -/
example : ∃ r, r = Src.renet.error.DisconnectReason.SendChannelError 0 .ReliableChannelMaxMemoryReached ∧ GCause cfg g1.cl (.send 0 huge) r := by
  have hex : GConn.exec cfg (ops1 ++ [.send 0 huge]) =
      some ((GConn.exec cfg (ops1 ++ [.send 0 huge])).getD gzero) := some_getD (by decide +kernel) _
  have hst : ((GConn.exec cfg (ops1 ++ [.send 0 huge])).getD gzero).cl.connection_status =
      .Disconnected (.SendChannelError 0 .ReliableChannelMaxMemoryReached) := by decide +kernel
  rcases src_step_status cfg ops1 (.send 0 huge) g1 _ grun1 hex (by decide +kernel) with h | ⟨-, ⟨h, -⟩ | ⟨h, -⟩ | ⟨r, h1, h2⟩⟩
  · rw [hst, gfacts.2.2.1] at h; cases h
  · cases h
  · cases h
  · rw [hst] at h1; cases h1; exact ⟨_, rfl, h2⟩

/-- **`src_cause_sufficient` applied** after the live phase: the over-budget `send_message` (reliable channel 0 holds 1204 of
    10000 bytes, the message has 10001) must disconnect with `SendChannelError(0, ReliableChannelMaxMemoryReached)` -/
example : ∀ g', GConn.exec cfg (ops1 ++ [.send 0 huge]) = some g' →
    g'.cl.connection_status = .Disconnected (.SendChannelError 0 .ReliableChannelMaxMemoryReached) := by
  intro g' hg'
  have hs : ∃ s, RustSem.Map.find? g1.cl.send_reliable_channels 0 = some s ∧
      s.memory_usage_bytes + huge.length > s.max_memory_usage_bytes := by decide +kernel
  obtain ⟨s, hf, hmem⟩ := hs
  exact (src_cause_sufficient cfg ops1 (.send 0 huge) g1 g' grun1 hg' (by decide +kernel) (by decide +kernel)).2.2.2
    0 huge s rfl hf hmem

/-- **`src_never_self_disconnects` / `src_quiet_trace_stays_live` applied** -/
example : (∀ e, gE.cl.connection_status ≠ .Disconnected (.PacketSerialization e)) ∧
    gE.cl.connection_status ≠ .Disconnected .DisconnectedByServer := src_never_self_disconnects cfg _ gE grunE inRange
abbrev quiet : List COp := [.setConnected, .recv 0, .update 7, .flush, .setConnecting, .flush, .recv 2, .update 1000000, .setConnected]
example : ∃ g, GConn.exec cfg quiet = some g ∧ (RenetClient.is_disconnected g.cl : Res Empty Bool) = .ok false := by
  obtain ⟨g, hg⟩ := src_never_panics cfg quiet (by decide +kernel) (by decide +kernel)
  exact ⟨g, hg, src_quiet_trace_stays_live cfg quiet g hg (by decide +kernel) (by decide +kernel)⟩

/-- **`src_step_panics_iff`, both directions, with the kernel's own evaluation of the generated call next to it.**
    On the live `g1`: `send_message(7, …)` and `receive_message(5)` panic (7, 5 not configured), `send_message(2, …)` does not.
    On the disconnected `gH`: `send_message(7, …)` does NOT panic (early return) — the liveness conjunct is necessary. -/
example : g1.step (.send 7 [1]) = none :=
  (src_step_panics_iff cfg ops1 g1 grun1 (.send 7 [1]) (by decide +kernel)).mpr ⟨by decide +kernel, by decide +kernel⟩
example : g1.step (.send 7 [1]) = none ∧ g1.step (.recv 5) = none ∧ (g1.step (.send 2 [1])).isSome = true ∧
    (gH.step (.send 7 [1])).isSome = true ∧ (gH.step (.recv 5)).isSome = true := by decide +kernel
example : (RenetClient.is_disconnected g1.cl : Res Empty Bool) = .ok false ∧ ¬ COpValid cfg (.recv 5) :=
  (src_step_panics_iff cfg ops1 g1 grun1 (.recv 5) (by decide +kernel)).mp (by decide +kernel)
example : ∃ msg, (RenetClient.send_message g1.cl 7 (toNats [1]) : Res Empty _) = .panic msg :=
  (src_send_message_panics_iff cfg ops1 g1 grun1 7 [1] (by decide +kernel)).mpr ⟨by decide +kernel, by decide +kernel⟩
example : ∃ msg, (RenetClient.receive_message g1.cl 5 : Res Empty _) = .panic msg :=
  (src_receive_message_panics_iff cfg ops1 g1 grun1 5 (by decide +kernel)).mpr ⟨by decide +kernel, by decide +kernel⟩
/-- the disconnected connection does not panic on the unknown id: the right-hand side fails, hence so does the left -/
example : ¬ ∃ msg, (RenetClient.send_message gH.cl 7 (toNats [1]) : Res Empty _) = .panic msg := fun h =>
  absurd ((src_send_message_panics_iff cfg opsH gH grunH 7 [1] (by decide +kernel)).mp h).1 (by decide +kernel)
example : ∃ g', g1.step (.process C06.Ex.hostileSlice) = some g' :=
  src_other_calls_never_panic cfg ops1 g1 grun1 _ ⟨fun _ _ h => (nomatch h), fun _ h => (nomatch h)⟩ (by decide +kernel)

end Ex

end RenetVerif.SrcPropsConnTraceMore
