/-
  Source tie: the Lean definitions that /verif/translator derives from the CURRENT Rust text
  (`RenetVerif/Generated/Src.lean`, namespace `RenetVerif.Src`, regenerated on every check run) compute
  exactly what the hand-written model computes.  If one of these Rust functions is edited, the
  regenerated text changes and these theorems are re-checked against it.

  Conventions: generated integers are `Nat`s (a `uN` argument is assumed `< 2^N` where it matters, stated
  as a hypothesis), arrays/`Vec`s/slices are `List`s.  `absRP`/`absSC`/`absPT`/`absErr` are the abstraction
  functions generated type → model type, `reprRP`/`reprSC`/`toNats` their (right-)inverses on well-formed
  values; `WfRP`, `WfSC`, `BytesOk` are decidable (so is `p.enc = .ok bytes` in part D).  `SameOutcome` compares `ok`/`err` values exactly and
  panics up to the text of the site.
-/
import RenetVerif.Lemmas.SrcEquiv.Replay
namespace RenetVerif.SrcTie
open RenetVerif RenetVerif.SrcEquiv

/-! ## A. `renetcode/src/replay_protection.rs` ↔ `Netcode.RP` -/
section A
open Src.renetcode.replay_protection Netcode

/-- `ReplayProtection::new()` is well-formed and abstracts to `RP.new` -/
theorem replay_new {ε : Type} :
    ∃ st h, (ReplayProtection.new : Res ε ReplayProtection) = .ok st ∧ absRP st h = RP.new :=
  ⟨_, wf_reprRP _, rp_new_eq, absRP_reprRP _ _⟩

/-- `already_received` never panics on a well-formed state and returns the model's verdict -/
theorem replay_already_received {ε : Type} (st : ReplayProtection) (h : WfRP st) (sequence : Nat) (hs : sequence < 2 ^ 64) :
    (ReplayProtection.already_received st sequence : Res ε Bool) = .ok ((absRP st h).alreadyReceived sequence) := by
  have := already_received_eq (ε := ε) (absRP st h) sequence hs
  rwa [reprRP_absRP] at this

/-- `advance_sequence` never panics on a well-formed state; the new state is well-formed and abstracts to
    `RP.advance` -/
theorem replay_advance_sequence {ε : Type} (st : ReplayProtection) (h : WfRP st) (sequence : Nat) (hs : sequence < 2 ^ 64) :
    ∃ st' h', (ReplayProtection.advance_sequence st sequence : Res ε (ReplayProtection × Unit)) = .ok (st', ()) ∧
      absRP st' h' = (absRP st h).advance sequence := by
  have := advance_sequence_eq (ε := ε) (absRP st h) sequence hs
  rw [reprRP_absRP] at this
  exact ⟨_, wf_reprRP _, this, absRP_reprRP _ _⟩

example : (ReplayProtection.already_received (reprRP ((RP.new.advance 300).advance 7)) 44 : Res Empty Bool) = .ok true := by
  decide +kernel
example : (ReplayProtection.already_received (reprRP ((RP.new.advance 300).advance 7)) 301 : Res Empty Bool) = .ok false := by
  decide +kernel
example : (ReplayProtection.advance_sequence (reprRP RP.new) 5 : Res Empty _) = .ok (reprRP (RP.new.advance 5), ()) := by
  decide +kernel
end A

end RenetVerif.SrcTie
