/-
  C14 — the message payload bytes carried by the packets of one `get_packets_to_send` call never exceed
  `available_bytes_per_tick`; channels are served in configuration order, each later channel getting only what the
  earlier ones left.  What does not fit waits on reliable channels (slice by slice) and is dropped whole on
  unreliable ones.

  Proofs: Lemmas/Flush.lean.  `payloadBytes` = sum of the message lengths of a small-message packet, the slice
  payload length of a slice packet, 0 for an ack packet.
-/
import RenetVerif.Lemmas.Flush
namespace RenetVerif.C14
open RenetVerif C

/-- Reliable channel, exact bookkeeping.  For one `get_packets_to_send(seq, avail, now)` of a reliable send channel:
    payload emitted + budget left = budget offered; the packets are numbered `seq, seq+1, …` and `seq'` is the next
    free number; nothing is removed from `unacked` ("what does not fit waits") and the memory accounting is untouched.
    Hypothesis `SlicedFit`: every sliced entry has `len ≤ num_slices * SLICE_SIZE` (true of `div_ceil`; without it the
    model's saturating subtraction would hide a Rust underflow — see `reliable_budget_needs_fit`). -/
theorem reliable_budget {s s' : SendRel} {seq avail now seq' avail' : Nat} {ps : List Packet}
    (h : s.getPackets seq avail now = (s', ps, seq', avail')) (hfit : SlicedFit s.unacked) :
    payloadSum ps + avail' = avail ∧ payloadSum ps ≤ avail ∧ avail' ≤ avail ∧
    seq' = seq + ps.length ∧ ps.map Packet.sequence = List.range' seq ps.length ∧
    SMap.keys s'.unacked = SMap.keys s.unacked ∧ s'.mem = s.mem := by
  have hb := SendRel.getPackets_budget h hfit
  have hq := SendRel.getPackets_seq h
  have hk := SendRel.getPackets_keeps h
  exact ⟨hb, by omega, by omega, hq.2, hq.1, hk.1, hk.2.1⟩

/-- `SlicedFit` follows from the channel invariant that `send_message` establishes and every flush preserves. -/
theorem fit_of_wf {s : SendRel} (h : s.WF) : SlicedFit s.unacked := h.fit

/-- Unreliable channel, exact bookkeeping: payload emitted + budget left = budget offered (dropped messages consume
    nothing); consecutive numbering; the queue is drained completely and, when the memory counter was exact
    (`mem = Σ queued lengths`), it returns to zero. -/
theorem unreliable_budget {s s' : SendUnrel} {seq avail seq' avail' : Nat} {ps : List Packet}
    (h : s.getPackets seq avail = (s', ps, seq', avail')) :
    payloadSum ps + avail' = avail ∧ payloadSum ps ≤ avail ∧ avail' ≤ avail ∧
    seq' = seq + ps.length ∧ ps.map Packet.sequence = List.range' seq ps.length ∧
    s'.queue = [] ∧ (s.mem = unrelSmallSum s.queue → s'.mem = 0) := by
  have hb := SendUnrel.getPackets_budget h
  have hq := SendUnrel.getPackets_seq h
  have hd := SendUnrel.getPackets_drains h
  exact ⟨hb, by omega, by omega, hq.2, hq.1, hd.1, fun e => by rw [hd.2.1, e]; omega⟩

/-- Unreliable channel, "dropped whole".  The messages sent are exactly `unrelTaken queue avail` (scan the queue in
    order; take a message iff the remaining budget covers its whole length): the small ones appear, in queue order,
    as the contents of the small-message packets; every large one appears as the complete set of its
    `div_ceil(len, SLICE_SIZE)` slices; the payload total is exactly the sum of the taken messages' lengths — so a
    message that was not taken contributes no byte, and it is gone from the queue (`unreliable_budget`). -/
theorem unreliable_dropped_whole {s s' : SendUnrel} {seq avail seq' avail' : Nat} {ps : List Packet}
    (h : s.getPackets seq avail = (s', ps, seq', avail')) :
    ps.flatMap Packet.unrelMsgs = (unrelTaken s.queue avail).filter (fun m => decide (m.length ≤ SLICE_SIZE)) ∧
    payloadSum ps = unrelSmallSum (unrelTaken s.queue avail) ∧
    (∀ m ∈ unrelTaken s.queue avail, SLICE_SIZE < m.length →
      ∃ id, ∀ j, j < divCeil m.length SLICE_SIZE →
        ∃ sq, Packet.unreliableSlice sq s.ch ⟨id, j, divCeil m.length SLICE_SIZE, sliceBytes m (divCeil m.length SLICE_SIZE) j⟩ ∈ ps) :=
  SendUnrel.getPackets_exact h

/-- Connection level: the packets of one flush (`Conn.flushPackets`: channel packets in configuration order, then the
    ack packet; `get_packets_to_send` returns their serialisations, `flush_is_serialised`) carry at most
    `available_bytes_per_tick` bytes of message payload and are numbered consecutively from `packet_sequence`. -/
theorem connection_budget (c : Conn) (pk : List Packet) (hfit : RelMapFit c.sendRel) (h : c.flushPackets = .ok pk) :
    payloadSum pk ≤ c.budget ∧ pk.map Packet.sequence = List.range' c.packetSeq pk.length :=
  Conn.flushPackets_budget c pk hfit h

theorem flush_is_serialised (c c' : Conn) (bs : List Bytes) (hd : c.isDisconnected = false)
    (h : c.getPacketsToSend = .ok (c', bs)) :
    ∃ pk, c.flushPackets = .ok pk ∧ (Conn.serialiseAll pk = .ok bs ∨ (bs = [] ∧ ∃ e, Conn.serialiseAll pk = .err e)) :=
  Conn.getPacketsToSend_serialises c c' bs hd h

/-- Serving order: the channel loop threads one budget through the channels in configuration order.  For any split
    `order = pre ++ x :: post`, the channel `x` is offered exactly `budget − payload(packets of pre)`, and the loop
    continues from what `x` leaves (`chanLoop` on `x :: post` unfolds to `x`'s `get_packets_to_send(seq1, avail1)`). -/
theorem served_in_order (now : Nat) (pre post : List (Bool × Nat)) (x : Bool × Nat) (sr : SMap SendRel) (su : SMap SendUnrel)
    (seq budget : Nat) (fin : ChanSt) (hfit : RelMapFit sr)
    (h : Conn.chanLoop now (pre ++ x :: post) (sr, su, [], seq, budget) = .ok fin) :
    ∃ sr1 su1 pk1 seq1 avail1,
      Conn.chanLoop now pre (sr, su, [], seq, budget) = .ok (sr1, su1, pk1, seq1, avail1) ∧
      avail1 = budget - payloadSum pk1 ∧ payloadSum pk1 ≤ budget ∧
      Conn.chanLoop now (x :: post) (sr1, su1, pk1, seq1, avail1) = .ok fin :=
  chanLoop_offered now pre post x sr su seq budget fin hfit h

/-- the whole loop: payload of everything appended + budget left = budget offered -/
theorem channel_loop_budget (now : Nat) (order : List (Bool × Nat)) (sr : SMap SendRel) (su : SMap SendUnrel)
    (pk : List Packet) (seq avail : Nat) (sr' : SMap SendRel) (su' : SMap SendUnrel) (pk' : List Packet) (seq' avail' : Nat)
    (hfit : RelMapFit sr) (h : Conn.chanLoop now order (sr, su, pk, seq, avail) = .ok (sr', su', pk', seq', avail')) :
    ∃ ps, pk' = pk ++ ps ∧ payloadSum ps + avail' = avail ∧ seq' = seq + ps.length ∧
      ps.map Packet.sequence = List.range' seq ps.length ∧ RelMapFit sr' :=
  chanLoop_budget now order sr su pk seq avail sr' su' pk' seq' avail' hfit h

/-! ### non-vacuity and the necessity of `SlicedFit` -/

def mk (n : Nat) (b : UInt8) : Bytes := List.replicate n b
def okOr {ε α : Type} (d : α) : Res ε α → α
  | .ok a => a
  | _ => d

/-- a reliable channel holding a 5-byte, a 2500-byte (3 slices) and a 1199-byte message, built with `send_message` -/
def exRel : SendRel :=
  let s0 := SendRel.new 2 100 100000
  let s1 := (s0.sendMessage (mk 5 1)).toOption.getD s0
  let s2 := (s1.sendMessage (mk 2500 2)).toOption.getD s1
  (s2.sendMessage (mk 1199 3)).toOption.getD s2

set_option maxRecDepth 100000 in
/-- the state is non-trivial (three entries, one sliced) and meets the hypothesis; with a budget of 3000 two slices
    and the 5-byte message go out (2405 bytes), the third slice and the 1199-byte message wait -/
example : exRel.WFd ∧ SMap.keys exRel.unacked = [0, 1, 2] ∧
    payloadSum (exRel.getPackets 7 3000 50).2.1 = 2405 ∧ (exRel.getPackets 7 3000 50).2.2.2 = 595 ∧
    SMap.keys (exRel.getPackets 7 3000 50).1.unacked = [0, 1, 2] := by decide +kernel

example : SlicedFit exRel.unacked := fit_of_wf (SendRel.WFd.wf (by decide +kernel))

/-- an unreliable channel holding a 7-byte, a 1300-byte and a 3000-byte message -/
def exUnrel : SendUnrel :=
  (((SendUnrel.new 1 100000).sendMessage (mk 7 3)).sendMessage (mk 1300 4)).sendMessage (mk 3000 5)

set_option maxRecDepth 100000 in
/-- budget 1500: the 7-byte and the 1300-byte message are sent whole (1307 bytes), the 3000-byte one is dropped
    whole; queue empty and memory back to 0 afterwards -/
example : exUnrel.mem = unrelSmallSum exUnrel.queue ∧
    (unrelTaken exUnrel.queue 1500).map List.length = [7, 1300] ∧
    payloadSum (exUnrel.getPackets 0 1500).2.1 = 1307 ∧ (exUnrel.getPackets 0 1500).2.2.2 = 193 ∧
    (exUnrel.getPackets 0 1500).1.queue = [] ∧ (exUnrel.getPackets 0 1500).1.mem = 0 := by decide +kernel

/-- a connection built by running the model (reliable channel 0: 5 and 2500 bytes; unreliable channel 1: 7, 1300 and
    3000 bytes; budget 4000): the hypothesis of `connection_budget` holds, and the flush carries 3812 ≤ 4000 payload
    bytes — the reliable channel, served first, takes 2505; the unreliable one gets the remaining 1495, sends 7 + 1300
    and drops the 3000-byte message -/
def exConn : Conn :=
  let c := (Conn.fromChannels 4000 [⟨0, .ordered, 100000, 300⟩, ⟨1, .unreliable, 100000, 0⟩] []).setConnected
  let c := okOr c (c.sendMessage 0 (mk 5 1))
  let c := okOr c (c.sendMessage 0 (mk 2500 2))
  let c := okOr c (c.sendMessage 1 (mk 7 3))
  let c := okOr c (c.sendMessage 1 (mk 1300 4))
  okOr c (c.sendMessage 1 (mk 3000 5))

set_option maxRecDepth 100000 in
example : RelMapFit exConn.sendRel := (RelMapOKd.ok (by decide +kernel)).fit

set_option maxRecDepth 100000 in
example : (match exConn.flushPackets with
    | .ok pk => (pk.map payloadBytes, pk.map Packet.sequence)
    | _ => ([], [])) = ([1200, 1200, 100, 5, 1200, 100, 7], [0, 1, 2, 3, 4, 5, 6]) := by decide +kernel

/-- `SlicedFit` cannot be dropped from `reliable_budget`: in a state no execution of `send_message` produces (one
    slice announced for a 3000-byte message) the model emits a 3000-byte "slice" against a budget of 1200 — in Rust
    `available_bytes -= payload.len()` would underflow there. -/
def badRel : SendRel := ⟨2, [(0, .sliced (mk 3000 1) 1 0 0 [false] [none])], 1, 0, 10000, 3000⟩

set_option maxRecDepth 100000 in
theorem reliable_budget_needs_fit :
    payloadSum (badRel.getPackets 0 1200 0).2.1 = 3000 ∧ (badRel.getPackets 0 1200 0).2.2.2 = 0 := by decide +kernel

end RenetVerif.C14
