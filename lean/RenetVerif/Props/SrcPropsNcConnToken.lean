/-
  C07 (hostile input never panics) stated DIRECTLY about the generated `ConnectToken::read` /
  `PrivateConnectToken::read` of `Generated/Src/NcConnToken.lean` (derived from `renetcode/src/token.rs`).
  The model appears only in the proofs: `SrcTieNcConnToken` ∘ `Props/C07.connect_token_read_total`.
-/
import RenetVerif.Props.SrcTieNcConnToken
import RenetVerif.Props.SrcPropsNcAddr
import RenetVerif.Props.C07
namespace RenetVerif.SrcProps
open RenetVerif RenetVerif.SrcEquiv RenetVerif.SrcTie RenetVerif.SrcCor RenetVerif.RustSem

/-- **C07, `ConnectToken::read` never panics**: on EVERY byte list and every cursor position inside it the generated
    reader returns a token, `InvalidVersion` or an `io::Error`. -/
theorem nc_connect_token_read_never_panics (l : List Nat) (hl : BytesOk l) (pos : Nat) (hpos : pos ≤ l.length) :
    NoPanic (Src.renetcode.token.ConnectToken.read ⟨l, pos⟩) := by
  have h := nc_conn_token_read (rest := (ofNats l).drop pos) (buf := ofNats l) (drop_suffix _ _)
  rw [rcur_ofNats l hl pos hpos] at h
  rw [← noPanic_forget, ← noPanic_mapRes (f := fun x => x.2) (g := id), h, noPanic_mapRes]
  exact fun site => C07.connect_token_read_total _ site

/-- **C07, `PrivateConnectToken::read` never panics** (the decrypted private part of a connection request) -/
theorem nc_private_token_read_never_panics (l : List Nat) (hl : BytesOk l) (pos : Nat) (hpos : pos ≤ l.length) :
    NoPanic (Src.renetcode.token.PrivateConnectToken.read ⟨l, pos⟩) := by
  have h := nc_private_token_read (rest := (ofNats l).drop pos) (buf := ofNats l) (drop_suffix _ _)
  rw [rcur_ofNats l hl pos hpos] at h
  rw [← noPanic_forget, ← noPanic_mapRes (f := fun x => x.2) (g := id), h]
  cases Netcode.PrivateConnectToken.read ((ofNats l).drop pos) with
  | none => exact noPanic_err _
  | some x => exact noPanic_ok _

/-- hostile inputs evaluated on the generated text: empty, truncated after the client id, wrong version string -/
example : (Src.renetcode.token.ConnectToken.read ⟨[], 0⟩).forget = .err (.IoError .opaque) := by decide +kernel
example : (Src.renetcode.token.ConnectToken.read ⟨[1, 2, 3, 4, 5, 6, 7, 8, 78], 0⟩).forget = .err (.IoError .opaque) := by
  decide +kernel
example : (Src.renetcode.token.ConnectToken.read ⟨List.replicate 2048 65, 0⟩).forget = .err .InvalidVersion := by
  decide +kernel
example : NoPanic (Src.renetcode.token.ConnectToken.read ⟨List.replicate 2048 65, 7⟩) :=
  nc_connect_token_read_never_panics _ (by decide +kernel) 7 (by rw [List.length_replicate]; decide)
example : (Src.renetcode.token.PrivateConnectToken.read ⟨List.replicate 100 255, 0⟩).forget = .err .opaque := by
  decide +kernel

end RenetVerif.SrcProps
