/-
  Source tie, group ConnRecv: `renet/src/remote_connection.rs` `RenetClient::{update, process_packet}`
  ↔ `Conn.update` / `Conn.processPacket` of `Renet/Conn.lean`.

  `update`: the clock (`self.current_time += duration`, a `Duration` addition that panics on overflow), the loop
  `for ch in self.receive_unreliable_channels.values_mut() { ch.discard_incomplete_old_slices(now) }` — a `HashMap`
  iteration accepted under the manifest entry HASHMAP_VALUES_MUT_OK ("each iteration touches only its own value"; the
  translator checks that the body assigns nothing but through the loop variable and cannot leave early; the generated
  loop visits the key-sorted table front to back) — and the pruning of `sent_packets`: the `BTreeMap::iter()` loop with the
  nested `const DISCARD_AFTER`, the `Duration` subtraction and the `break`, then the `remove` loop.
  `process_packet`: early return when disconnected, `Packet::from_bytes` on an `Octets` cursor (its `Err` disconnects
  with `PacketDeserialization`), `add_pending_ack(packet.sequence())`, and the five arms — the `let Some(channel) =
  ….get_mut(&channel_id) else { disconnect; return }` lookups, the message loops with `if let Err(error) =
  channel.process_message(..)` (disconnect with `ReceiveChannelError`, keeping what the channel did before failing),
  the slice arms, and the `Ack` arm: `sent_packets.range(range)` (panics when `start > end`), the `remove(..).unwrap()`,
  the rtt subtraction `self.current_time - sent_packet.sent_at` (kept for its panic; `rtt` / `stats` are ignored
  fields), `process_message_ack` / `process_slice_message_ack` on `send_reliable_channels.get_mut(..).unwrap()` and
  `acked_largest`.
  `reprConn mrs c` as in `SrcTieConn.lean`; after `process_packet` the never-read `most_recent_message_id`s may have
  changed, hence `∃ mrs'`.
-/
import RenetVerif.Lemmas.SrcEquiv.ConnRecv
namespace RenetVerif.SrcTie
open RenetVerif RenetVerif.SrcEquiv RenetVerif.RustSem
open Src.renet.remote_connection

/-- `update` under `UpdateOk c dt`: the advanced clock is a `Duration` (`c.now + dt ≤ Duration::MAX`); the receive
    times of the unreliable channels' slice constructors and the send times in `sent_packets` are not in its future
    (otherwise a `Duration` subtraction panics); the constructors' sizes fit `usize`.  Panics of
    `discard_incomplete_old_slices` are matched with the model's. -/
theorem conn_update {ε : Type} (mrs : Nat → Nat) (c : Conn) (dt : Nat) (hok : UpdateOk c dt) :
    SameOutcome (RenetClient.update (reprConn mrs c) dt : Res ε _)
      (mapRes (fun c' => (reprConn mrs c', ())) (fun e => nomatch e) (c.update dt)) :=
  conn_update_eq mrs c dt hok

/-- `process_packet` for EVERY byte sequence, under `ProcOk c bytes`: at most 64 pending ack ranges (the cap that
    `add_pending_ack` maintains); and IF the bytes decode to a packet `p`: `p.sequence + 1 < 2^64`, and for the client
    after `add_pending_ack` (`DispatchOk`) —
    * message packets: the addressed table is key-sorted and the channel's memory counter has room for every message
      along the model's loop (`RelMsgsOk` / `UnrelMsgsOk`);
    * slice packets: the hypotheses of the channel theorems (`SrcTieRecvRel` / `SrcTieRecvUnrel`: sorted slice table,
      room for the reservation, a constructor of sane size);
    * ack packets: for every newly acked packet along the model's loop (`AckLoopOk`): its send time is not in the
      future, and the counters its bookkeeping touches have room (`AckOneOk`).
    Unknown channel ids, undecodable bytes and channel errors are NOT excluded: both sides disconnect with the same
    reason; a reversed ack range, a missing send channel or a model panic of a channel make both sides panic. -/
theorem conn_process_packet {ε : Type} (mrs : Nat → Nat) (c : Conn) (bytes : Bytes) (hok : ProcOk c bytes) :
    ∃ mrs', SameOutcome (RenetClient.process_packet (reprConn mrs c) (toNats bytes) : Res ε _)
      (mapRes (fun c' => (reprConn mrs' c', ())) (fun e => nomatch e) (c.processPacket bytes)) :=
  conn_process_packet_eq mrs c bytes hok

/-- a connected client at t = 5 s: packet 5 (reliable message 0 of channel 1, sent at 1 s) and packet 6 (an ack packet,
    sent at 4 s) are in flight; ack range 3..5 pending; receive channels 0 (unreliable) and 1 (reliable ordered) -/
def exRecv : RenetClient :=
  ⟨7, 5000000000, [(5, ⟨1000000000, .ReliableMessages 1 [0]⟩), (6, ⟨4000000000, .Ack 4⟩)], [⟨3, 5⟩], [.Reliable 1],
   [], [(0, ⟨0, [], [], [], 100, 0⟩)], [(1, ⟨1, [(0, .Small [7, 8] (some 1000000000))], 1, 100, 4, 2⟩)],
   [(1, ⟨[], [], 0, .Ordered, 0, 100⟩)], 60000, .Connected⟩

/-- one more second: packet 5 is 5 s old (≥ 3 s) and is forgotten; packet 6 (2 s old) stops the scan -/
example : (RenetClient.update exRecv 1000000000 : Res Empty _) =
    .ok ({ exRecv with current_time := 6000000000, sent_packets := [(6, ⟨4000000000, .Ack 4⟩)] }, ()) := by
  decide +kernel
/-- the clock cannot pass `Duration::MAX` -/
example : (RenetClient.update exRecv Duration.MAX : Res Empty _) =
    .panic "renet/src/remote_connection.rs:RenetClient::update: self.current_time += duration" := by decide +kernel

/-- `Ack { sequence: 9, ranges: [5..6] }`: sequence 9 is queued for acking, packet 5 is acked, so message 0 leaves the
    send channel and its 2 bytes are released -/
example : (RenetClient.process_packet exRecv [4, 9, 5, 0, 0] : Res Empty _) =
    .ok ({ exRecv with
            sent_packets := [(6, ⟨4000000000, .Ack 4⟩)], pending_acks := [⟨3, 5⟩, ⟨9, 10⟩],
            send_reliable_channels := [(1, ⟨1, [], 1, 100, 4, 0⟩)] }, ()) := by decide +kernel
/-- `SmallReliable { sequence: 9, channel_id: 1, messages: [(0, [1, 2])] }` -/
example : (RenetClient.process_packet exRecv [0, 9, 1, 0, 1, 0, 2, 1, 2] : Res Empty _) =
    .ok ({ exRecv with
            pending_acks := [⟨3, 5⟩, ⟨9, 10⟩],
            receive_reliable_channels := [(1, ⟨[], [(0, [1, 2])], 0, .Ordered, 2, 100⟩)] }, ()) := by decide +kernel
/-- `SmallUnreliable` for channel 0 / for the unknown channel 3 (the sequence is acked before the lookup fails) -/
example : (RenetClient.process_packet exRecv [1, 9, 0, 0, 1, 2, 1, 2] : Res Empty _) =
    .ok ({ exRecv with
            pending_acks := [⟨3, 5⟩, ⟨9, 10⟩],
            receive_unreliable_channels := [(0, ⟨0, [[1, 2]], [], [], 100, 2⟩)] }, ()) := by decide +kernel
example : (RenetClient.process_packet exRecv [1, 9, 3, 0, 1, 2, 1, 2] : Res Empty _) =
    .ok ({ exRecv with
            pending_acks := [⟨3, 5⟩, ⟨9, 10⟩],
            connection_status := .Disconnected (.ReceivedInvalidChannelId 3) }, ()) := by decide +kernel
/-- an unknown packet type: disconnected, nothing acked -/
example : (RenetClient.process_packet exRecv [9] : Res Empty _) =
    .ok ({ exRecv with connection_status := .Disconnected (.PacketDeserialization .InvalidPacketType) }, ()) := by
  decide +kernel

end RenetVerif.SrcTie
