/-
  Source tie, group TrClient: `renet_netcode/src/client.rs`
  (`NetcodeClientTransport::{new, client_id, time_since_last_received_packet, disconnect, disconnect_reason, send_packets,
  update}`) ↔ `Transport/Glue.lean` (`clientDisconnect`, `clientSendPackets`, `clientUpdate`).  `addr()` (`local_addr`) is
  not translated.

  * Socket, logs (`*From … out`, the model's definitions are the case `#[]`), fuel and buffers: as in `SrcTieTrServer.lean`.
  * What the methods need from the `RenetClient` is the simulation `RcSim R` (`rc_sim_of_inv` derives it from the theorems
    of `SrcTieConn{,Recv,Send}.lean` for any invariant implying `ProcOk` / `SendOk`); from the `NetcodeClient` the
    invariant `NcCInv a I` (`i32` time-out of the token, `server_addr_index + 1 < 2^64`).
  * `let packet = match self.socket.recv_from(&mut self.buffer) { Ok((len, addr)) => { …; &mut self.buffer[..len] } … }`:
    `packet` is the sub-slice `self.buffer[..len]` (read with `slice`, written back with `splice` after
    `process_packet` decrypted in it); the other arms leave (`break` / `return Err`).
  * `update`'s early returns (`Err(Netcode(Disconnected(reason)))` after `disconnect_due_to_transport`; the renet client
    disconnected: netcode `disconnect`, its packet sent, `Err(Renet(reason))` — or `Err(Netcode(e))` when the encode
    fails) do not read the socket: the queue is left as it is (`rest`).
-/
import RenetVerif.Lemmas.SrcEquiv.TrClient
set_option maxRecDepth 10000
namespace RenetVerif.SrcTie
open RenetVerif RenetVerif.SrcEquiv RenetVerif.RustSem RenetVerif.Netcode RenetVerif.Transport
open Src.renet_netcode.client

/-- `disconnect`: nothing for a disconnected netcode client; else `Disconnected(DisconnectedByClient)` and the `Disconnect`
    packet goes out (a failed encode / send is ignored) -/
theorem ctr_disconnect {ε : Type} (a : AEAD) (hl : a.Laws) (nc : Netcode.NetcodeClient) (rc : Conn) (inbox : List Dgram)
    (out : Array Dgram) (o buf : List Nat) (ho : o.length = C.NETCODE_MAX_PACKET_BYTES) :
    match clientDisconnectFrom a ⟨nc, rc⟩ out with
    | .ok (g', out') => ∃ o', o'.length = C.NETCODE_MAX_PACKET_BYTES ∧ g'.renet = rc ∧
        (@NetcodeClientTransport.disconnect (aeadOf a) ε (ctrR inbox out o nc buf)) = .ok (ctrR inbox out' o' g'.netcode buf, ())
    | .err e => nomatch e
    | .panic _ => ∃ msg, (@NetcodeClientTransport.disconnect (aeadOf a) ε (ctrR inbox out o nc buf)) = .panic msg :=
  ctr_disconnect_eq a hl nc rc inbox out o buf ho
theorem ctr_disconnect_model (a : AEAD) (g : ClientGlue) : clientDisconnect a g = clientDisconnectFrom a g #[] :=
  clientDisconnect_eq_from a g

/-- `send_packets`: `Err(Netcode(Disconnected(reason)))` for a disconnected netcode client; else the renet packets go through
    `generate_payload_packet` and `send_to`; the first netcode error ends the call with `Err(Netcode(e))` (the packets sent
    so far stay sent, the renet client has handed out all its packets) -/
theorem ctr_send_packets (a : AEAD) (hl : a.Laws) {R : Conn → SRenetClient → Prop} (hsim : RcSim R)
    {I : Netcode.NetcodeClient → Prop} (hinv : NcCInv a I) (g : ClientGlue) (gr : SRenetClient) (hi : I g.netcode)
    (hr : R g.renet gr) (inbox : List Dgram) (out : Array Dgram) (o buf : List Nat) (ho : o.length = C.NETCODE_MAX_PACKET_BYTES) :
    match clientSendPacketsFrom a g out with
    | .ok (res, g', out') => CliTrOut R I buf.length res g' out' inbox
        (@NetcodeClientTransport.send_packets (aeadOf a) (ctrR inbox out o g.netcode buf) gr)
    | .err e => nomatch e
    | .panic _ => ∃ msg, @NetcodeClientTransport.send_packets (aeadOf a) (ctrR inbox out o g.netcode buf) gr = .panic msg :=
  ctr_send_packets_eq a hl hsim hinv g gr hi hr inbox out o buf ho
theorem ctr_send_packets_model (a : AEAD) (g : ClientGlue) : clientSendPackets a g = clientSendPacketsFrom a g #[] := rfl

/-- `update`: the two early returns; else the renet status follows the netcode state, every queued datagram from the
    server's address (cut to the buffer) goes through `process_packet` and a payload on to `RenetClient::process_packet`
    (datagrams from other addresses are dropped), then `NetcodeClient::update` and the packet it asks to send -/
theorem ctr_update (a : AEAD) (hl : a.Laws) {R : Conn → SRenetClient → Prop} (hsim : RcSim R)
    {I : Netcode.NetcodeClient → Prop} (hinv : NcCInv a I) (g : ClientGlue) (gr : SRenetClient) (hi : I g.netcode)
    (hr : R g.renet gr) (duration : Nat) (inbox : List Dgram) (hin : inbox.length + 1 < 2 ^ 64) (out : Array Dgram)
    (o buf : List Nat) (ho : o.length = C.NETCODE_MAX_PACKET_BYTES) (hb : buf.length = C.TRANSPORT_CLIENT_BUFFER) :
    match clientUpdateFrom a g duration (inbox.map (recvFrom C.TRANSPORT_CLIENT_BUFFER)) out with
    | .ok r => ∃ rest, rest.map (recvFrom C.TRANSPORT_CLIENT_BUFFER) = r.rest ∧
        CliTrOut R I C.TRANSPORT_CLIENT_BUFFER r.result r.g r.out rest
          (@NetcodeClientTransport.update (aeadOf a) (ctrR inbox out o g.netcode buf) duration gr)
    | .err e => nomatch e
    | .panic _ => ∃ msg, @NetcodeClientTransport.update (aeadOf a) (ctrR inbox out o g.netcode buf) duration gr = .panic msg :=
  ctr_update_eq a hl hsim hinv g gr hi hr duration inbox hin out o buf ho hb
theorem ctr_update_model (a : AEAD) (g : ClientGlue) (duration : Nat) (inbox : List Dgram) :
    clientUpdate a g duration inbox = clientUpdateFrom a g duration inbox #[] := clientUpdate_eq_from a g duration inbox

/-- socket errors in `update`'s receive loop (about the GENERATED loop body): `WouldBlock` / `Interrupted` → `break`,
    anything else (also `ConnectionReset`) → `Err(IO(e))` -/
theorem ctr_recv_error [RustSem.Aead] (e : RustSem.IoError) (evs : List RustSem.RecvEvent)
    (log : List (RustSem.SocketAddr × List Nat)) (nc : SNetcodeClient) (buf : List Nat) (gr : SRenetClient) :
    recvBodyC (gr, (⟨⟨.error e :: evs, log⟩, nc, buf⟩ : SClientTransport)) =
      match e with
      | .wouldBlock => .ret (.brk (gr, ⟨⟨evs, log⟩, nc, buf⟩))
      | .interrupted => .ret (.brk (gr, ⟨⟨evs, log⟩, nc, buf⟩))
      | .connectionReset => .err (.IO .connectionReset, (⟨⟨evs, log⟩, nc, buf⟩, gr))
      | .opaque => .err (.IO .opaque, (⟨⟨evs, log⟩, nc, buf⟩, gr)) := recvBodyC_error e evs log nc buf gr

/-- `new` with a connect token: `set_nonblocking(true)?`, `NetcodeClient::new(..)?`, zeroed receive buffer -/
theorem ctr_new_secure (a : AEAD) (ct : Nat) (tok : Netcode.ConnectToken) (r1 r2 r3 r4 : List Nat) (inbox : List Dgram)
    (out : Array Dgram) :
    SameOutcome (@NetcodeClientTransport.new (aeadOf a) ct (.Secure (reprTok tok)) (sockR inbox out) r1 r2 r3 r4)
      (mapRes (fun c => ctrR inbox out (List.replicate C.NETCODE_MAX_PACKET_BYTES 0) c (List.replicate C.TRANSPORT_CLIENT_BUFFER 0))
        reprNErr (Netcode.NetcodeClient.new ct tok)) := ctr_new_secure_eq a ct tok r1 r2 r3 r4 inbox out
theorem ctr_client_id {ε : Type} (inbox : List Dgram) (out : Array Dgram) (o : List Nat) (c : Netcode.NetcodeClient) (buf : List Nat) :
    (NetcodeClientTransport.client_id (ctrR inbox out o c buf) : Res ε _) = .ok c.clientId := ctr_client_id_eq inbox out o c buf
theorem ctr_disconnect_reason {ε : Type} (inbox : List Dgram) (out : Array Dgram) (o : List Nat) (c : Netcode.NetcodeClient)
    (buf : List Nat) :
    (NetcodeClientTransport.disconnect_reason (ctrR inbox out o c buf) : Res ε _) = .ok (c.disconnectReason.map reprDR) :=
  ctr_disconnect_reason_eq inbox out o c buf
theorem ctr_time_since_last_received_packet {ε : Type} (inbox : List Dgram) (out : Array Dgram) (o : List Nat)
    (c : Netcode.NetcodeClient) (buf : List Nat) :
    SameOutcome (NetcodeClientTransport.time_since_last_received_packet (ctrR inbox out o c buf) : Res ε _)
      (mapRes (fun x => x) (fun e => nomatch e) c.timeSinceLastReceivedPacket) := ctr_time_since_eq inbox out o c buf

/-- the simulation from the `RenetClient` ties, for an invariant implying their hypotheses -/
theorem rc_sim_of_inv (Inv : Conn → Prop) (hproc : ∀ c, Inv c → ∀ bytes, ProcOk c bytes) (hsend : ∀ c, Inv c → SendOk c)
    (hdw : ∀ c, Inv c → ∀ r, Inv (c.disconnectWith r)) (hsc : ∀ c, Inv c → Inv c.setConnected)
    (hsg : ∀ c, Inv c → Inv c.setConnecting) (hpp : ∀ c, Inv c → ∀ bytes c', c.processPacket bytes = .ok c' → Inv c')
    (hgp : ∀ c, Inv c → ∀ c' ps, c.getPacketsToSend = .ok (c', ps) → Inv c') :
    RcSim (fun c g => Inv c ∧ ∃ mrs, g = reprConn mrs c) := rcSim_of_inv Inv hproc hsend hdw hsc hsg hpp hgp

end RenetVerif.SrcTie
