/-
  Source tie, group NcPacket: `renetcode/src/packet.rs` `Packet::{packet_type, id, write, read}` (the netcode
  `Packet<'a>`; it shares its simple name with renet's `Packet`, the translator keys it `renetcode::Packet`)
  ↔ `Netcode.Packet.{packetType, id, write, read}` of `Netcode/Wire.lean`.

  `reprNP` / `reprPT` map model packets / packet types to the generated enums (byte strings via `toNats`).
  `write` is stated over the write-cursor model of group NcSerialize: `wcur w tail` is the `Cursor<&mut [u8]>` after the
  model writer `w` (`WrOk` ties the buffer size to `w.cap`); `WOut` says: the cursor of the model's final writer, or
  some `io::Error` exactly when a `write_all` of the model fails.  `read` (with `Cursor::new(src)` and the array lengths
  of `read_bytes` inferred from the variant fields) returns the model's packet, `io::Error` exactly when the model reader
  hits the end of the input, and reaches `unreachable!()` exactly for the `Payload` type the model also marks unreachable.
-/
import RenetVerif.Lemmas.SrcEquiv.NcPacket
namespace RenetVerif.SrcTie
open RenetVerif RenetVerif.SrcEquiv RenetVerif.RustSem

theorem nc_packet_packet_type {ε : Type} (p : Netcode.Packet) :
    (Src.renetcode.packet.Packet.packet_type (reprNP p) : Res ε _) = .ok (reprPT p.packetType) :=
  np_packet_type_eq p

theorem nc_packet_id {ε : Type} (p : Netcode.Packet) :
    (Src.renetcode.packet.Packet.id (reprNP p) : Res ε Nat) = .ok p.id :=
  np_id_eq p

/-- `Packet::write` into a cursor: the model writer's result -/
theorem nc_packet_write {w : Netcode.Wr} {tail : List Nat} (h : WrOk w tail) (p : Netcode.Packet) :
    WOut w tail (p.write w) (Src.renetcode.packet.Packet.write (reprNP p) (wcur w tail)) :=
  np_write_eq h p

/-- `Packet::read` of a body of the given type -/
theorem nc_packet_read (ty : Netcode.PacketType) (src : Bytes) :
    SameOutcome (Src.renetcode.packet.Packet.read (reprPT ty) (toNats src))
      (mapRes reprNP (fun _ => IoError.opaque) (Netcode.Packet.read ty src)) :=
  np_read_eq ty src

example : Src.renetcode.packet.Packet.write (.KeepAlive 1 258) ⟨List.replicate 10 0, 1⟩ =
    .ok (⟨[0, 1, 0, 0, 0, 2, 1, 0, 0, 0], 9⟩, ()) := by decide +kernel
/-- the second `write_all` does not fit: `Err` with the cursor std leaves behind (buffer filled to its end) -/
example : Src.renetcode.packet.Packet.write (.KeepAlive 1 258) ⟨List.replicate 6 0, 0⟩ =
    .err (.opaque, ⟨[1, 0, 0, 0, 2, 1], 6⟩) := by decide +kernel
/-- the or-pattern `Challenge {..} | Response {..}`: both are written the same way -/
example : Src.renetcode.packet.Packet.write (.Challenge 7 [9, 9]) ⟨List.replicate 10 0, 0⟩ =
    Src.renetcode.packet.Packet.write (.Response 7 [9, 9]) ⟨List.replicate 10 0, 0⟩ := by decide +kernel
example : Src.renetcode.packet.Packet.read .KeepAlive [1, 0, 0, 0, 2, 1, 0, 0, 77] = .ok (.KeepAlive 1 258) := by
  decide +kernel
example : Src.renetcode.packet.Packet.read .KeepAlive [1, 0, 0, 0, 2, 1, 0] = .err .opaque := by decide +kernel
example : Src.renetcode.packet.Packet.read .Payload [1, 2, 3] = .ok (.Payload [1, 2, 3]) := by decide +kernel
/-- a challenge body is the sequence and `NETCODE_CHALLENGE_TOKEN_BYTES` = 300 token bytes (length inferred from the
    variant field) -/
example : Src.renetcode.packet.Packet.read .Challenge ([5, 0, 0, 0, 0, 0, 0, 0] ++ List.replicate 300 7) =
    .ok (.Challenge 5 (List.replicate 300 7)) := by decide +kernel
example : Src.renetcode.packet.Packet.read .Challenge ([5, 0, 0, 0, 0, 0, 0, 0] ++ List.replicate 299 7) = .err .opaque := by
  decide +kernel

end RenetVerif.SrcTie
