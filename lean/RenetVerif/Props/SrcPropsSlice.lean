/-
  C06 (never panics on hostile slices) and C03 (reassembly is exact) stated DIRECTLY about the generated
  `SliceConstructor::{new, process_slice}` of `Generated/Src/Slice.lean` (derived from
  `renet/src/channel/slice_constructor.rs`).  The model (`SliceCtor`, `CtorAgrees`) appears only in the proofs:
  `SrcTieSlice` (generated = model) ∘ `Lemmas/RecvInv.lean` (`ctorPred_winv`, C06) / `Props/C03.lean`
  (`reassembly_exact`, `reassembly_start`, `slicing_exact`).

  `SCInvG st` is intrinsic: the shape every constructor stored by the receive channels has (one flag per slice, the
  receive counter counts the flags and is below `num_slices`, the buffer is `num_slices * SLICE_SIZE` long until the
  last slice trims it), or the dead constructor of a zero-slice message.
-/
import RenetVerif.Props.SrcTieSlice
import RenetVerif.Props.C03
import RenetVerif.Lemmas.RecvInv
import RenetVerif.Lemmas.SrcCorollaries
namespace RenetVerif.SrcCor
open RenetVerif RenetVerif.SrcEquiv RenetVerif.SrcTie RenetVerif.RustSem
open Src.renet.channel.slice_constructor

/-! ### helpers -/

/-- the live part of the invariant (`num_slices ≥ 1`) -/
def SCLiveG (st : SliceConstructor) : Prop :=
  1 ≤ st.num_slices ∧ st.received.length = st.num_slices ∧ st.num_received_slices = st.received.count true ∧
  st.num_received_slices < st.num_slices ∧
  (if st.received[st.num_slices - 1]? = some true
   then (st.num_slices - 1) * C.SLICE_SIZE ≤ st.sliced_data.length ∧ st.sliced_data.length ≤ st.num_slices * C.SLICE_SIZE
   else st.sliced_data.length = st.num_slices * C.SLICE_SIZE)

/-- intrinsic invariant of a generated slice constructor -/
def SCInvG (st : SliceConstructor) : Prop :=
  BytesOk st.sliced_data ∧ st.num_slices * C.SLICE_SIZE < 2 ^ 64 ∧ st.num_received_slices + 1 < 2 ^ 64 ∧
  (st.num_slices = 0 ∨ SCLiveG st)

theorem le_mul_S (n : Nat) : n ≤ n * C.SLICE_SIZE := Nat.le_mul_of_pos_right n Reasm.S_pos

theorem scInvG_wf {st : SliceConstructor} (h : SCInvG st) : WfSC st := ⟨h.1, h.2.1, h.2.2.1⟩

theorem ofNats_length' (l : List Nat) : (ofNats l).length = l.length := by simp [ofNats]

theorem scInvG_winv {st : SliceConstructor} (h : SCInvG st) : (absSC st).WInv := by
  rcases h.2.2.2 with h0 | ⟨h1, h2, h3, h4, h5⟩
  · exact .inl h0
  · right
    refine ⟨h1, h2, h3, h4, ?_⟩
    simpa [absSC, ofNats_length'] using h5

/-- the strict invariant of a model constructor carries over to its representation -/
theorem scInvG_repr (mid : Nat) (c : SliceCtor) (hi : c.Inv) (hn : c.numSlices * C.SLICE_SIZE < 2 ^ 64) :
    SCInvG (reprSC mid c) := by
  have hS := le_mul_S c.numSlices
  obtain ⟨h1, h2, h3, h4, h5⟩ := hi
  refine ⟨bytesOk_toNats _, hn, ?_, .inr ⟨h1, h2, h3, h4, ?_⟩⟩
  · show c.numReceived + 1 < 2 ^ 64
    omega
  · simpa [reprSC, toNats_length] using h5

/-- the sender's slice `i` of `n` of a message, on `List Nat` -/
def sliceG (msg : List Nat) (n i : Nat) : List Nat :=
  (msg.drop (i * C.SLICE_SIZE)).take ((if i = n - 1 then msg.length else (i + 1) * C.SLICE_SIZE) - i * C.SLICE_SIZE)

theorem toNats_sliceBytes (msg : List Nat) (hb : BytesOk msg) (n i : Nat) :
    toNats (sliceBytes (ofNats msg) n i) = sliceG msg n i := by
  unfold sliceBytes sliceG
  simp only [ofNats_length']
  show List.map UInt8.toNat _ = _
  rw [List.map_take, List.map_drop]
  have : List.map UInt8.toNat (ofNats msg) = msg := toNats_ofNats hb
  rw [this]

/-- feed slices to a generated constructor until it hands out a message (the channels then drop the constructor) -/
def reassemble (st : SliceConstructor) :
    List (Nat × List Nat) → Res (SChannelError × SliceConstructor) (SliceConstructor × Option (List Nat))
  | [] => .ok (st, none)
  | (i, b) :: rest =>
    SliceConstructor.process_slice st i b >>= fun r =>
      match r.2 with
      | some p => .ok (r.1, some p)
      | none => reassemble r.1 rest

end RenetVerif.SrcCor

namespace RenetVerif.SrcProps
open RenetVerif RenetVerif.SrcEquiv RenetVerif.SrcTie RenetVerif.SrcCor RenetVerif.RustSem
open Src.renet.channel.slice_constructor

/-! ### headline statements -/

/-- **C06, `process_slice` never panics.**  On a constructor satisfying the intrinsic invariant, for ANY slice index
    and ANY bytes, the generated `process_slice` either rejects the slice (`Err`, constructor unchanged), or stores it
    and keeps the invariant, or hands out a complete message of at most `num_slices * SLICE_SIZE` bytes. -/
theorem slice_process_slice_total (st : SliceConstructor) (h : SCInvG st) (slice_index : Nat) (bytes : List Nat)
    (hb : BytesOk bytes) :
    (∃ e, SliceConstructor.process_slice st slice_index bytes = .err (e, st)) ∨
    (∃ st', SliceConstructor.process_slice st slice_index bytes = .ok (st', none) ∧ SCInvG st' ∧
      st'.num_slices = st.num_slices ∧ st'.message_id = st.message_id) ∨
    (∃ st' p, SliceConstructor.process_slice st slice_index bytes = .ok (st', some p) ∧ BytesOk p ∧
      p.length ≤ st.num_slices * C.SLICE_SIZE) := by
  have htie := slice_constructor_process_slice st (scInvG_wf h) slice_index bytes hb
  have hns : (absSC st).numSlices = st.num_slices := rfl
  rcases ctorPred_winv.step (absSC st) (scInvG_winv h) slice_index (ofNats bytes) with
    ⟨e, he⟩ | ⟨c', he, hw, hn⟩ | ⟨c', m, he, hl, hn⟩
  · rw [he] at htie
    exact .inl ⟨_, sameOutcome_err htie⟩
  · rw [he] at htie
    right; left
    refine ⟨_, sameOutcome_ok htie, ?_, hn, rfl⟩
    have hi : c'.Inv := by
      rcases hw with h0 | hi
      · have hz : (absSC st).numSlices = 0 := by rw [← hn]; exact h0
        rw [SliceCtor.processSlice_zero _ hz] at he
        cases he
      · exact hi
    exact scInvG_repr _ c' hi (by rw [hn, hns]; exact h.2.1)
  · rw [he] at htie
    right; right
    exact ⟨_, _, sameOutcome_ok htie, bytesOk_toNats m, by rw [toNats_length]; exact hl⟩

/-- in particular: no panic -/
theorem slice_process_slice_never_panics (st : SliceConstructor) (h : SCInvG st) (slice_index : Nat)
    (bytes : List Nat) (hb : BytesOk bytes) : NoPanic (SliceConstructor.process_slice st slice_index bytes) := by
  rcases slice_process_slice_total st h slice_index bytes hb with ⟨e, he⟩ | ⟨st', he, _⟩ | ⟨st', p, he, _⟩ <;>
    rw [he] <;> first | exact noPanic_err _ | exact noPanic_ok _

/-- `SliceConstructor::new` establishes the invariant (whenever `num_slices * SLICE_SIZE` fits `usize`) -/
theorem slice_new_inv {ε : Type} (message_id num_slices : Nat) (h : num_slices * C.SLICE_SIZE < 2 ^ 64) :
    ∃ st, (SliceConstructor.new message_id num_slices : Res ε _) = .ok st ∧ SCInvG st ∧
      st.num_slices = num_slices ∧ st.message_id = message_id := by
  refine ⟨_, slice_constructor_new message_id num_slices h, ?_, rfl, rfl⟩
  by_cases h0 : num_slices = 0
  · subst h0
    exact ⟨bytesOk_toNats _, h, by show 0 + 1 < 2 ^ 64; decide, .inl rfl⟩
  · exact scInvG_repr _ _ (SliceCtor.new_inv num_slices (by omega)) h

/-- the sender's slices concatenate to the message (C03 `slicing_exact`, on `List Nat`) -/
theorem slices_concat (msg : List Nat) (hb : BytesOk msg) (hlen : msg.length > C.SLICE_SIZE) :
    (List.range (divCeil msg.length C.SLICE_SIZE)).flatMap (sliceG msg (divCeil msg.length C.SLICE_SIZE)) = msg := by
  have h := (C03.slicing_exact (ofNats msg) (by rw [ofNats_length']; exact hlen)).2.2.2.2
  simp only [ofNats_length'] at h
  have h2 := congrArg toNats h
  rw [toNats_ofNats hb] at h2
  conv => rhs; rw [← h2]
  simp only [toNats, List.map_flatMap]
  congr 1
  funext i
  exact (toNats_sliceBytes msg hb _ i).symm

/-- **C03, reassembly is exact.**  Create a constructor with the generated `new` for a message of more than
    `SLICE_SIZE` bytes and feed it, with the generated `process_slice`, the sender's slices of that message in ANY
    order and with ANY repetitions (`idxs`: the indices presented, each `< n`): no call fails or panics, a message is
    handed out iff every index `0..n-1` has been presented, and then it is the original message byte for byte — i.e.
    the concatenation of its slices (`slices_concat`). -/
theorem slice_reassembly_exact (message_id : Nat) (msg : List Nat) (hb : BytesOk msg) (hlen : msg.length > C.SLICE_SIZE)
    (hn : divCeil msg.length C.SLICE_SIZE * C.SLICE_SIZE < 2 ^ 64) (idxs : List Nat)
    (hidx : ∀ i ∈ idxs, i < divCeil msg.length C.SLICE_SIZE) :
    ∃ st0 st' out,
      (SliceConstructor.new message_id (divCeil msg.length C.SLICE_SIZE) : Res (SChannelError × SliceConstructor) _) = .ok st0 ∧
      reassemble st0 (idxs.map fun i => (i, sliceG msg (divCeil msg.length C.SLICE_SIZE) i)) = .ok (st', out) ∧
      (out = some msg ∨ out = none) ∧
      (out = some msg ↔ ∀ i, i < divCeil msg.length C.SLICE_SIZE → i ∈ idxs) := by
  generalize hnd : divCeil msg.length C.SLICE_SIZE = n at *
  have hml : (ofNats msg).length > C.SLICE_SIZE := by rw [ofNats_length']; exact hlen
  have hnd' : divCeil (ofNats msg).length C.SLICE_SIZE = n := by rw [ofNats_length']; exact hnd
  have hn2 : 2 ≤ n := by rw [← hnd']; exact (C03.slicing_exact (ofNats msg) hml).1
  refine ⟨reprSC message_id (SliceCtor.new n), ?_⟩
  -- the loop, generalised over the model state and the set of indices seen so far
  have loop : ∀ (idxs : List Nat), (∀ i ∈ idxs, i < n) → ∀ (c : SliceCtor) (seen : List Nat),
      Reasm.CtorAgrees (ofNats msg) c → (∀ i, i < n → (c.received[i]? = some true ↔ i ∈ seen)) →
      ¬ (∀ i, i < n → i ∈ seen) →
      ∃ st' out, reassemble (reprSC message_id c) (idxs.map fun i => (i, sliceG msg n i)) = .ok (st', out) ∧
        (out = some msg ∨ out = none) ∧ (out = some msg ↔ ∀ i, i < n → i ∈ seen ∨ i ∈ idxs) := by
    intro idxs
    induction idxs with
    | nil =>
      intro _ c seen _ _ hinc
      refine ⟨_, none, rfl, .inr rfl, ?_⟩
      constructor
      · intro h; cases h
      · intro h; exact absurd (fun i hi => (h i hi).resolve_right (by simp)) hinc
    | cons idx rest ih =>
      intro hid c seen hag hfl hinc
      have hidx : idx < n := hid idx (by simp)
      have hag' : Reasm.AgreesN n (ofNats msg) c := by rw [← hnd']; exact hag
      obtain ⟨c', out1, hstep, hrecv, hnone, hsome, hiff⟩ :=
        C03.reassembly_exact (ofNats msg) hml c hag idx (by rw [hnd']; exact hidx)
      rw [hnd'] at hstep hiff
      -- the generated call
      have hnr : c.numReceived + 1 < 2 ^ 64 := by
        have h1 : c.numReceived ≤ c.received.length := by rw [hag'.count]; exact List.count_le_length
        have h2 := hag'.recvLen
        have h3 : n * 2 ≤ n * C.SLICE_SIZE := Nat.mul_le_mul_left n (by decide)
        omega
      have htie := slice_constructor_process_slice' message_id c idx (sliceBytes (ofNats msg) n idx)
        (by rw [hag'.numSlices]; exact hn) hnr
      rw [hstep, toNats_sliceBytes msg hb n idx] at htie
      have hgen := sameOutcome_ok htie
      -- flags after the step
      have hfl' : ∀ i, i < n → (c'.received[i]? = some true ↔ i ∈ idx :: seen) := by
        intro i hi
        rw [hrecv, List.mem_cons]
        by_cases hie : i = idx
        · subst hie
          rw [List.getElem?_set_self (by rw [hag'.recvLen]; exact hi)]
          simp
        · rw [List.getElem?_set_ne (fun h => hie h.symm)]
          rw [hfl i hi]
          simp [hie]
      simp only [List.map_cons, reassemble, hgen, Res.bind_ok]
      cases out1 with
      | none =>
        obtain ⟨hag1, _⟩ := hnone rfl
        have hinc' : ¬ (∀ i, i < n → i ∈ idx :: seen) := by
          intro hall
          have : (none : Option Bytes) ≠ none := hiff.2 (fun i hi => (hfl' i hi).2 (hall i hi))
          exact this rfl
        obtain ⟨st', out, hr, hcase, hiff2⟩ :=
          ih (fun i hi => hid i (by simp [hi])) c' (idx :: seen) hag1 hfl' hinc'
        refine ⟨st', out, by simpa using hr, hcase, ?_⟩
        rw [hiff2]
        constructor
        · intro h i hi
          rcases h i hi with h | h
          · rcases List.mem_cons.1 h with rfl | h
            · exact .inr (by simp)
            · exact .inl h
          · exact .inr (by simp [h])
        · intro h i hi
          rcases h i hi with h | h
          · exact .inl (by simp [h])
          · rcases List.mem_cons.1 h with rfl | h
            · exact .inl (by simp)
            · exact .inr h
      | some m' =>
        have hm' : m' = ofNats msg := hsome m' rfl
        subst hm'
        have hall : ∀ i, i < n → i ∈ idx :: seen := fun i hi => (hfl' i hi).1 (hiff.1 (by simp) i hi)
        refine ⟨reprSC message_id c', some msg, by simp [toNats_ofNats hb], .inl rfl, ?_⟩
        constructor
        · intro _ i hi
          rcases List.mem_cons.1 (hall i hi) with rfl | h
          · exact .inr (by simp)
          · exact .inl h
        · intro _; rfl
  have hstart : Reasm.CtorAgrees (ofNats msg) (SliceCtor.new n) := by
    have := C03.reassembly_start (ofNats msg)
    rwa [hnd'] at this
  have hfl0 : ∀ i, i < n → ((SliceCtor.new n).received[i]? = some true ↔ i ∈ ([] : List Nat)) := by
    intro i hi
    simp [SliceCtor.new, hi]
  obtain ⟨st', out, hr, hcase, hiff⟩ := loop idxs hidx (SliceCtor.new n) [] hstart hfl0
    (by intro h; have := h 0 (by omega); simp at this)
  refine ⟨st', out, slice_constructor_new message_id n hn, hr, hcase, ?_⟩
  rw [hiff]
  simp

/-! ### examples (evaluated on the generated text) -/

/-- a 2401-byte message: three slices (1200, 1200, 1) -/
def exMsg : List Nat := List.replicate 1200 1 ++ List.replicate 1200 2 ++ [3]

set_option maxRecDepth 100000 in
/-- out of order and with a repetition: complete exactly after the third distinct index, payload = message -/
example : (SliceConstructor.new 9 3 >>= fun st =>
      reassemble st ([2, 0, 2, 1, 0].map fun i => (i, sliceG exMsg 3 i))).forget =
    .ok (⟨9, 3, 3, [true, true, true], []⟩, some exMsg) := by decide +kernel
set_option maxRecDepth 100000 in
example : okSnd ((SliceConstructor.new 9 3 >>= fun st =>
      reassemble st ([2, 0, 2].map fun i => (i, sliceG exMsg 3 i))).forget) = some none := by decide +kernel
/-- hostile slices against a live constructor: index out of range, wrong length, oversized last slice — `Err`, the
    constructor is returned unchanged, no panic -/
example : (SliceConstructor.new 9 2 >>= fun st => SliceConstructor.process_slice st 7 [1, 2, 3]).forget =
    .err .InvalidSliceMessage := by decide +kernel
example : (SliceConstructor.new 9 2 >>= fun st => SliceConstructor.process_slice st 0 [1, 2, 3]).forget =
    .err .InvalidSliceMessage := by decide +kernel
example : (SliceConstructor.new 9 2 >>= fun st => SliceConstructor.process_slice st 1 (List.replicate 1201 0)).forget =
    .err .InvalidSliceMessage := by decide +kernel
/-- a zero-slice constructor is dead: every slice is rejected -/
example : (SliceConstructor.new 9 0 >>= fun st => SliceConstructor.process_slice st 0 []).forget =
    .err .InvalidSliceMessage := by decide +kernel
/-- instance of the totality theorem -/
example : NoPanic (SliceConstructor.process_slice ⟨9, 2, 0, [false, false], List.replicate 2400 0⟩ 5 [1]) :=
  slice_process_slice_never_panics _
    ⟨by decide +kernel, by decide, by decide, .inr ⟨by decide, by decide, by decide, by decide, by decide +kernel⟩⟩ 5 [1]
    (by decide)

end RenetVerif.SrcProps
