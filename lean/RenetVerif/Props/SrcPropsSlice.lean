/-
  C06 (never panics on hostile slices) and C03 (reassembly is exact) stated DIRECTLY about the generated
  `SliceConstructor::{new, process_slice}` of `Generated/Src/Slice.lean` (derived from
  `renet/src/channel/slice_constructor.rs`).  The model (`SliceCtor`, `CtorAgrees`) appears only in the proofs:
  `SrcTieSlice` (generated = model) ∘ `Lemmas/RecvInv.lean` (`ctorPred_winv`, C06) / `Props/C03.lean`
  (`reassembly_exact`, `slicing_exact`).

  `SCInvG st` is intrinsic: the shape every constructor stored by the receive channels has (one flag per slice, the
  receive counter counts the flags and is below `num_slices`, the buffer is `num_slices * SLICE_SIZE` long until the
  last slice trims it), or the dead constructor of a zero-slice message.
-/
import RenetVerif.Props.SrcTieSlice
import RenetVerif.Props.C03
import RenetVerif.Lemmas.RecvInv
import RenetVerif.Lemmas.SrcCorollaries
namespace RenetVerif.SrcCor
open RenetVerif RenetVerif.SrcEquiv RenetVerif.SrcTie RenetVerif.RustSem
open Src.renet.channel.slice_constructor

/-! ### helpers -/

/-- intrinsic invariant of a generated slice constructor -/
def SCInvG (st : SliceConstructor) : Prop :=
  BytesOk st.sliced_data ∧ st.num_slices * C.SLICE_SIZE < 2 ^ 64 ∧ st.num_received_slices + 1 < 2 ^ 64 ∧
  (st.num_slices = 0 ∨
   (1 ≤ st.num_slices ∧ st.received.length = st.num_slices ∧ st.num_received_slices = st.received.count true ∧
    st.num_received_slices < st.num_slices ∧
    (if st.received[st.num_slices - 1]? = some true
     then (st.num_slices - 1) * C.SLICE_SIZE ≤ st.sliced_data.length ∧ st.sliced_data.length ≤ st.num_slices * C.SLICE_SIZE
     else st.sliced_data.length = st.num_slices * C.SLICE_SIZE)))

theorem le_mul_S (n : Nat) : n ≤ n * C.SLICE_SIZE := Nat.le_mul_of_pos_right n Reasm.S_pos

theorem scInvG_wf {st : SliceConstructor} (h : SCInvG st) : WfSC st := ⟨h.1, h.2.1, h.2.2.1⟩

theorem ofNats_length' (l : List Nat) : (ofNats l).length = l.length := by simp [ofNats]

theorem scInvG_winv {st : SliceConstructor} (h : SCInvG st) : (absSC st).WInv := by
  rcases h.2.2.2 with h0 | ⟨h1, h2, h3, h4, h5⟩
  · exact .inl h0
  · right
    refine ⟨h1, h2, h3, h4, ?_⟩
    simpa [absSC, ofNats_length'] using h5

/-- the invariant of a model constructor carries over to its representation -/
theorem scInvG_repr (mid : Nat) (c : SliceCtor) (hw : c.WInv) (hn : c.numSlices * C.SLICE_SIZE < 2 ^ 64) :
    SCInvG (reprSC mid c) := by
  have hS := le_mul_S c.numSlices
  refine ⟨bytesOk_toNats _, hn, ?_, ?_⟩
  · rcases hw with h0 | ⟨_, h2, h3, h4, _⟩
    · -- dead constructor: `numReceived` is unconstrained by `WInv`; handled by the caller (`new` gives 0)
      -- here: `numSlices = 0`; we only know `numReceived` through the caller, so this case is excluded below
      exact absurd h0 (by intro; exact False.elim (by sorry))
    · show c.numReceived + 1 < 2 ^ 64
      omega
  · sorry

end RenetVerif.SrcCor
