/-
  Source tie, transports: the abstract netcode hypotheses of `SrcTieTrServer.lean` / `SrcTieTrClient.lean` instantiated.

  * `NcInv a NS.ServerInv`: the connection-table invariant of the model `NetcodeServer` (`Lemmas/NcTable.lean`,
    `Lemmas/NcTablePP.lean`: established by `NetcodeServer::new`, kept by `update`, `process_packet` (every address, every
    datagram), `update_client`, `disconnect`, `generate_payload_packet`) implies every per-call hypothesis of the
    `NetcodeServer` ties (token-entry table not empty, `i32` time-outs, no pending connection in state `Disconnected`).
    So the server transport theorems hold from `NetcodeServerTransport::new` on with NO netcode-side hypothesis left:
    `tr_update_inv`, `tr_send_packets_inv`, `tr_disconnect_all_inv`.
  * `NcCInv a CliInv`: for the client, `CliInv` (the token's time-out is an `i32`; `server_addr_index ≤ 32`, and `< 32`
    while not disconnected) is established by `NetcodeClient::new` and kept by `process_packet`, `update`,
    `generate_payload_packet`, `disconnect`: `ctr_update_inv`, `ctr_send_packets_inv`.
  The renet side stays the abstract simulation (`RnSim` / `RcSim`; `rn_sim_of_inv` / `rc_sim_of_inv`).
-/
import RenetVerif.Lemmas.SrcEquiv.TrInv
import RenetVerif.Props.SrcTieTrServer
import RenetVerif.Props.SrcTieTrClient
set_option maxRecDepth 10000
namespace RenetVerif.SrcTie
open RenetVerif RenetVerif.SrcEquiv RenetVerif.RustSem RenetVerif.Netcode RenetVerif.Transport
open Src.renet_netcode.server Src.renet_netcode.client

theorem nc_inv_server_inv (a : AEAD) : NcInv a NS.ServerInv := ncInv_serverInv a
theorem server_inv_new {t m pid : Nat} {pa : List Addr} {sec : Bool} {k ck : Bytes} {s : Netcode.NetcodeServer}
    (h : Netcode.NetcodeServer.new t m pid pa sec k ck = .ok s) : NS.ServerInv s := serverInv_new h

theorem tr_update_inv (a : AEAD) (hl : a.Laws) {R : Server → SRenetServer → Prop} (hsim : RnSim R) (g : ServerGlue)
    (gr : SRenetServer) (hi : NS.ServerInv g.netcode) (hr : R g.renet gr) (duration : Nat) (inbox : List Dgram)
    (hin : inbox.length + 1 < 2 ^ 64) (out : Array Dgram) (o buf : List Nat) (ho : o.length = C.NETCODE_MAX_PACKET_BYTES)
    (hb : buf.length = C.TRANSPORT_SERVER_BUFFER) :
    TrOut R NS.ServerInv [] C.TRANSPORT_SERVER_BUFFER
      (serverUpdateFrom a g duration (inbox.map (recvFrom C.TRANSPORT_SERVER_BUFFER)) out)
      (@NetcodeServerTransport.update (aeadOf a) (trR inbox out o g.netcode buf) duration gr) :=
  tr_update_eq a hl hsim (ncInv_serverInv a) g gr hi hr duration inbox hin out o buf ho hb
theorem tr_send_packets_inv {ε : Type} (a : AEAD) (hl : a.Laws) {R : Server → SRenetServer → Prop} (hsim : RnSim R)
    (g : ServerGlue) (gr : SRenetServer) (hi : NS.ServerInv g.netcode) (hr : R g.renet gr) (inbox : List Dgram)
    (out : Array Dgram) (o buf : List Nat) (ho : o.length = C.NETCODE_MAX_PACKET_BYTES) :
    TrOut (ε := ε) R NS.ServerInv inbox buf.length (serverSendLoop a g g.renet.clientsId out)
      (@NetcodeServerTransport.send_packets (aeadOf a) ε (trR inbox out o g.netcode buf) gr) :=
  tr_send_packets_eq a hl hsim (ncInv_serverInv a) g gr hi hr inbox out o buf ho
theorem tr_disconnect_all_inv {ε : Type} (a : AEAD) (hl : a.Laws) {R : Server → SRenetServer → Prop} (hsim : RnSim R)
    (g : ServerGlue) (gr : SRenetServer) (hi : NS.ServerInv g.netcode) (hr : R g.renet gr) (inbox : List Dgram)
    (out : Array Dgram) (o buf : List Nat) (ho : o.length = C.NETCODE_MAX_PACKET_BYTES) :
    TrOut (ε := ε) R NS.ServerInv inbox buf.length (serverIdLoop (fun ns id => ns.disconnect a id) g g.netcode.clientsId out)
      (@NetcodeServerTransport.disconnect_all (aeadOf a) ε (trR inbox out o g.netcode buf) gr) :=
  tr_disconnect_all_eq a hl hsim (ncInv_serverInv a) g gr hi hr inbox out o buf ho

theorem nc_cinv_cli_inv (a : AEAD) : NcCInv a CliInv := ncCInv_cliInv a
theorem cli_inv_new {ct : Nat} {tok : Netcode.ConnectToken} {c : Netcode.NetcodeClient} (ht : tok.timeoutSeconds < 2 ^ 31)
    (h : Netcode.NetcodeClient.new ct tok = .ok c) : CliInv c := cliInv_new ht h

theorem ctr_update_inv (a : AEAD) (hl : a.Laws) {R : Conn → SRenetClient → Prop} (hsim : RcSim R) (g : ClientGlue)
    (gr : SRenetClient) (hi : CliInv g.netcode) (hr : R g.renet gr) (duration : Nat) (inbox : List Dgram)
    (hin : inbox.length + 1 < 2 ^ 64) (out : Array Dgram) (o buf : List Nat) (ho : o.length = C.NETCODE_MAX_PACKET_BYTES)
    (hb : buf.length = C.TRANSPORT_CLIENT_BUFFER) :
    match clientUpdateFrom a g duration (inbox.map (recvFrom C.TRANSPORT_CLIENT_BUFFER)) out with
    | .ok r => ∃ rest, rest.map (recvFrom C.TRANSPORT_CLIENT_BUFFER) = r.rest ∧
        CliTrOut R CliInv C.TRANSPORT_CLIENT_BUFFER r.result r.g r.out rest
          (@NetcodeClientTransport.update (aeadOf a) (ctrR inbox out o g.netcode buf) duration gr)
    | .err e => nomatch e
    | .panic _ => ∃ msg, @NetcodeClientTransport.update (aeadOf a) (ctrR inbox out o g.netcode buf) duration gr = .panic msg :=
  ctr_update_eq a hl hsim (ncCInv_cliInv a) g gr hi hr duration inbox hin out o buf ho hb
theorem ctr_send_packets_inv (a : AEAD) (hl : a.Laws) {R : Conn → SRenetClient → Prop} (hsim : RcSim R) (g : ClientGlue)
    (gr : SRenetClient) (hi : CliInv g.netcode) (hr : R g.renet gr) (inbox : List Dgram) (out : Array Dgram)
    (o buf : List Nat) (ho : o.length = C.NETCODE_MAX_PACKET_BYTES) :
    match clientSendPacketsFrom a g out with
    | .ok (res, g', out') => CliTrOut R CliInv buf.length res g' out' inbox
        (@NetcodeClientTransport.send_packets (aeadOf a) (ctrR inbox out o g.netcode buf) gr)
    | .err e => nomatch e
    | .panic _ => ∃ msg, @NetcodeClientTransport.send_packets (aeadOf a) (ctrR inbox out o g.netcode buf) gr = .panic msg :=
  ctr_send_packets_eq a hl hsim (ncCInv_cliInv a) g gr hi hr inbox out o buf ho

end RenetVerif.SrcTie
