/-
  C09 (memory accounting returns on the receive side) stated DIRECTLY about the generated
  `ReceiveChannelUnreliable::{process_message, receive_message}` of `Generated/Src/RecvUnrel.lean` (derived from
  `renet/src/channel/unreliable.rs`).  The model (`RecvUnrel`) appears only in the proofs:
  `SrcTieRecvUnrel` (generated = model) ∘ `Props/C09` (`unreliable_receive_returns_bytes`,
  `receive_nothing_changes_nothing`).

  `WfRU c` is intrinsic: queued bytes are bytes, and every stored slice constructor carries its map key as `message_id`
  and holds bytes (what `process_slice` inserts).
-/
import RenetVerif.Props.SrcTieRecvUnrel
import RenetVerif.Props.C09
import RenetVerif.Lemmas.SrcCorollaries
namespace RenetVerif.SrcCor
open RenetVerif RenetVerif.SrcEquiv RenetVerif.SrcTie RenetVerif.RustSem
open Src.renet.channel.unreliable

/-! ### helpers -/

def absRU (c : ReceiveChannelUnreliable) : RecvUnrel :=
  ⟨c.channel_id, c.messages.map ofNats, c.slices.map (fun p => (p.1, absSC p.2)), c.slices_last_received,
   c.max_memory_usage_bytes, c.memory_usage_bytes⟩

/-- intrinsic well-formedness of a generated unreliable receive channel -/
def WfRU (c : ReceiveChannelUnreliable) : Prop :=
  (∀ m ∈ c.messages, BytesOk m) ∧ ∀ p ∈ c.slices, p.2.message_id = p.1 ∧ BytesOk p.2.sliced_data

theorem map_toNats_ofNats_ru : ∀ (l : List (List Nat)), (∀ m ∈ l, BytesOk m) → (l.map ofNats).map toNats = l
  | [], _ => rfl
  | x :: r, h => by
    simp only [List.map_cons]
    rw [toNats_ofNats (h x (by simp)), map_toNats_ofNats_ru r (fun y hy => h y (by simp [hy]))]

theorem reprSlices_abs : ∀ (l : RustSem.Map SSliceCtor), (∀ p ∈ l, p.2.message_id = p.1 ∧ BytesOk p.2.sliced_data) →
    reprSlices (l.map fun p => (p.1, absSC p.2)) = l
  | [], _ => rfl
  | p :: r, h => by
    obtain ⟨hk, hb⟩ := h p (by simp)
    have ih := reprSlices_abs r (fun q hq => h q (by simp [hq]))
    simp only [reprSlices, List.map_cons] at ih ⊢
    rw [ih]
    congr 1
    obtain ⟨k, st⟩ := p
    simp only at hk hb ⊢
    rw [← hk, reprSC_absSC st hb]

theorem reprRU_absRU (c : ReceiveChannelUnreliable) (h : WfRU c) : reprRU (absRU c) = c := by
  cases c with
  | mk ch msgs sl lr mx mem =>
    simp only [reprRU, absRU]
    rw [map_toNats_ofNats_ru msgs h.1, reprSlices_abs sl h.2]

end RenetVerif.SrcCor

namespace RenetVerif.SrcProps
open RenetVerif RenetVerif.SrcEquiv RenetVerif.SrcTie RenetVerif.SrcCor RenetVerif.RustSem
open Src.renet.channel.unreliable

/-! ### headline statements -/

/-- **C09, `receive_message` returns exactly the bytes it hands out.**  Whenever the generated `receive_message`
    returns `Some(m)`, `m` was the oldest queued message, it has been removed from the queue, and
    `memory_usage_bytes` has decreased by exactly `m.len()`; the limit and the slice table are untouched.  When it
    returns `None` the queue was empty and the channel is unchanged. -/
theorem recv_unrel_receive_accounting {ε : Type} (c : ReceiveChannelUnreliable) (h : WfRU c)
    (c' : ReceiveChannelUnreliable) (o : Option (List Nat))
    (hr : (ReceiveChannelUnreliable.receive_message c : Res ε _) = .ok (c', o)) :
    (o = none → c' = c ∧ c.messages = []) ∧
    (∀ m, o = some m → c.messages = m :: c'.messages ∧ c.memory_usage_bytes = c'.memory_usage_bytes + m.length ∧
        c'.max_memory_usage_bytes = c.max_memory_usage_bytes ∧ c'.slices = c.slices ∧
        c'.slices_last_received = c.slices_last_received ∧ c'.channel_id = c.channel_id) := by
  have hc := reprRU_absRU c h
  rw [← hc] at hr ⊢
  generalize absRU c = r at hr ⊢
  rw [recv_unrel_receive_message] at hr
  cases hrec : r.receive with
  | err e => exact nomatch e
  | panic s => rw [hrec] at hr; cases hr
  | ok x =>
    obtain ⟨r', o'⟩ := x
    rw [hrec] at hr
    have := Res.ok.inj hr
    obtain ⟨h1, h2⟩ := Prod.mk.inj this
    subst h1; subst h2
    cases o' with
    | none =>
      refine ⟨fun _ => ?_, fun m hm => by cases hm⟩
      have hu := (C09.receive_nothing_changes_nothing (RecvRel.new 0 false) (RecvRel.new 0 false) r r').2 hrec
      subst hu
      refine ⟨rfl, ?_⟩
      unfold RecvUnrel.receive at hrec
      cases hm : r'.messages with
      | nil => simp [reprRU, hm]
      | cons m rest =>
        rw [hm] at hrec
        simp only [Res.csub] at hrec
        split at hrec
        · simp only [Res.bind_ok, Res.pure_eq] at hrec
          exact absurd (Prod.mk.inj (Res.ok.inj hrec)).2 (by simp)
        · cases hrec
    | some m =>
      refine ⟨fun hn => (by cases hn), fun m' hm' => ?_⟩
      simp only [Option.map_some, Option.some.injEq] at hm'
      subst hm'
      obtain ⟨e1, e2, e3, e4⟩ := C09.unreliable_receive_returns_bytes r r' m hrec
      have e5 : r'.lastReceived = r.lastReceived ∧ r'.ch = r.ch := by
        unfold RecvUnrel.receive at hrec
        cases hm : r.messages with
        | nil => rw [hm] at hrec; cases hrec
        | cons m0 rest =>
          rw [hm] at hrec
          simp only [Res.csub] at hrec
          split at hrec
          · simp only [Res.bind_ok, Res.pure_eq] at hrec
            have := (Prod.mk.inj (Res.ok.inj hrec)).1
            rw [← this]
            exact ⟨rfl, rfl⟩
          · cases hrec
      simp only [reprRU, e4, List.map_cons, toNats_length, e1, e2, e3, e5.1, e5.2, and_self]

/-- **C09, `receive_message` never panics while the counter covers the queue** (`Σ queued lengths ≤
    memory_usage_bytes`, which every reachable state satisfies with equality up to the slice reservations) -/
theorem recv_unrel_receive_total {ε : Type} (c : ReceiveChannelUnreliable) (h : WfRU c)
    (hcov : (c.messages.map List.length).sum ≤ c.memory_usage_bytes) :
    ∃ c' o, (ReceiveChannelUnreliable.receive_message c : Res ε _) = .ok (c', o) := by
  have hc := reprRU_absRU c h
  have hcov' : ((absRU c).messages.map List.length).sum ≤ (absRU c).mem := by
    simpa [absRU, Function.comp_def, ofNats] using hcov
  rw [← hc]
  generalize absRU c = r at hcov' ⊢
  rw [recv_unrel_receive_message]
  unfold RecvUnrel.receive
  cases hm : r.messages with
  | nil => exact ⟨_, _, rfl⟩
  | cons m rest =>
    rw [hm] at hcov'
    simp only [List.map_cons, List.sum_cons] at hcov'
    simp only [Res.csub, if_pos (show m.length ≤ r.mem by omega), Res.bind_ok, Res.pure_eq]
    exact ⟨_, _, rfl⟩

/-- **C09, `process_message` keeps the counter exact**: it queues the message and adds its length, or (memory limit)
    leaves the channel unchanged; then `receive_message` gives the bytes back (previous theorem). -/
theorem recv_unrel_process_message_accounting {ε : Type} (c : ReceiveChannelUnreliable) (h : WfRU c) (m : List Nat)
    (hm : BytesOk m) (hfit : c.memory_usage_bytes + m.length < 2 ^ 64) :
    ∃ c1, (ReceiveChannelUnreliable.process_message c m : Res ε _) = .ok (c1, ()) ∧
      (c1 = c ∨ (c1 = { c with messages := c.messages ++ [m], memory_usage_bytes := c.memory_usage_bytes + m.length } ∧
                 c.memory_usage_bytes + m.length ≤ c.max_memory_usage_bytes)) := by
  have he := recv_unrel_process_message (ε := ε) (absRU c) (ofNats m)
    (by simpa [absRU, ofNats] using hfit)
  rw [reprRU_absRU c h, toNats_ofNats hm] at he
  refine ⟨_, he, ?_⟩
  unfold RecvUnrel.processMessage
  have hl : (ofNats m).length = m.length := by simp [ofNats]
  by_cases hlim : (absRU c).mem + (ofNats m).length > (absRU c).maxMem
  · rw [if_pos hlim, reprRU_absRU c h]; exact .inl rfl
  · rw [if_neg hlim]
    right
    simp only [absRU, hl] at hlim
    refine ⟨?_, by omega⟩
    have hc := reprRU_absRU c h
    cases c with
    | mk ch msgs sl lr mx mem =>
      simp only [reprRU, absRU] at hc ⊢
      simp only [ReceiveChannelUnreliable.mk.injEq] at hc
      simp only [List.map_append, List.map_cons, List.map_nil, toNats_ofNats hm, hc.2.1, hc.2.2.1, hl]

/-! ### examples (evaluated on the generated text) -/

example : (ReceiveChannelUnreliable.receive_message ⟨0, [[1], [2, 3]], [], [], 10, 3⟩ : Res Empty _) =
    .ok (⟨0, [[2, 3]], [], [], 10, 2⟩, some [1]) := by decide +kernel
/-- process two messages, receive both: the counter goes 0 → 1 → 3 → 2 → 0 -/
example : ((ReceiveChannelUnreliable.new 0 10 >>= fun c => ReceiveChannelUnreliable.process_message c [1] >>= fun r =>
    ReceiveChannelUnreliable.process_message r.1 [2, 3] >>= fun r =>
    ReceiveChannelUnreliable.receive_message r.1 >>= fun r =>
    ReceiveChannelUnreliable.receive_message r.1 >>= fun r => .ok (r.1.memory_usage_bytes, r.2)) : Res Empty _) =
    .ok (0, some [2, 3]) := by decide +kernel
/-- instance of the accounting theorem -/
example : ([[1], [2, 3]] : List (List Nat)) = [1] :: [[2, 3]] ∧ 3 = 2 + [1].length :=
  have := (recv_unrel_receive_accounting (ε := Empty) ⟨0, [[1], [2, 3]], [], [], 10, 3⟩
    ⟨by decide, by intro p hp; cases hp⟩ ⟨0, [[2, 3]], [], [], 10, 2⟩ (some [1]) (by decide +kernel)).2 [1] rfl
  ⟨this.1, this.2.1⟩

end RenetVerif.SrcProps
