/-
  Source tie, group Server: `renet/src/server.rs` `RenetServer::{new, add_connection, get_event, has_connections,
  disconnect_reason, remove_connection, disconnect, disconnect_all, broadcast_message, broadcast_message_except,
  channel_available_memory, can_send_message, send_message, receive_message, clients_id_iter, clients_id,
  disconnections_id_iter, disconnections_id, connected_clients, is_connected, update, get_packets_to_send,
  process_packet_from, new_local_client, disconnect_local_client, process_local_client}` ↔ `Server` of `Renet/Server.lean`.
  (The statistics accessors `rtt`, `packet_loss`, `bytes_*_per_sec`, `network_info` read ignored fields and stay out.)

  `reprServer mrss s`: `connections: HashMap<ClientId, RenetClient>` is the key-sorted association list of the model with
  every connection mapped by `reprConn (mrss id)` (`mrss id` = the never-read `most_recent_message_id`s of client `id`'s
  receive channels); `connection_config` is `(budget, server channels, client channels)`; `events: VecDeque` is a list.
  `ClientId` is `u64` (a `Nat`), `ClientNotFound` the one-point structure.

  HASHMAP ITERATION.  The iteration order of a `HashMap` is unspecified; the generated code visits the key-sorted table
  front to back.  Two kinds of iteration occur:
  * loops that only mutate (`disconnect_all`, `broadcast_message`, `broadcast_message_except`, `update`): accepted under
    the manifest whitelist HASHMAP_VALUES_MUT_OK, and the translator checks that each round assigns nothing but through
    its own loop variable and cannot leave the loop (a plain `continue` only ends its round) — so the rounds commute and
    the resulting server does not depend on the order (only which of several panicking rounds fires first does; panic
    sites are not compared).  The theorems below show that the result is the model's, connection by connection.
  * read-only chains whose RESULT exposes the order (`clients_id(_iter)`, `disconnections_id(_iter)`): accepted under
    HASHMAP_ITER_ORDER_OK; what is claimed about the Rust function is the returned ids UP TO A PERMUTATION
    (`server_clients_id`, `server_disconnections_id`); the `*_key_order` statements are about the generated (key-order)
    function only.  `connected_clients` (`count()`) does not depend on the order.
  `impl Iterator<Item = ClientId>` return values are the list of their items (the adaptor chain is evaluated eagerly; its
  closures only call the panic-free `is_connected` / `is_disconnected`).
-/
import RenetVerif.Lemmas.SrcEquiv.Server
namespace RenetVerif.SrcTie
open RenetVerif RenetVerif.SrcEquiv RenetVerif.RustSem
open Src.renet.remote_connection Src.renet.server

theorem server_new {ε : Type} (budget : Nat) (serverCh clientCh : List ChanCfg) :
    (RenetServer.new ⟨budget, serverCh.map reprCfg, clientCh.map reprCfg⟩ : Res ε _)
      = .ok (reprServer (fun _ _ => 0) (Server.new budget serverCh clientCh)) := server_new_eq budget serverCh clientCh

/-- `add_connection` (`CfgOk`: no duplicated channel id in the configuration, else `from_channels` asserts; the table is
    key-sorted): nothing happens for a known id; a new connection starts connected with all-zero `mrss` entry -/
theorem server_add_connection {ε : Type} (mrss : Nat → Nat → Nat) (s : Server) (id : Nat) (hc : CfgOk s) (hs : MSorted s.conns) :
    (RenetServer.add_connection (reprServer mrss s) id : Res ε _)
      = .ok (reprServer (if SMap.contains s.conns id then mrss else setMrs mrss id (fun _ => 0)) (s.addConnection id), ()) :=
  server_add_connection_eq mrss s id hc hs

theorem server_get_event {ε : Type} (mrss : Nat → Nat → Nat) (s : Server) :
    (RenetServer.get_event (reprServer mrss s) : Res ε _) = .ok (reprServer mrss s.getEvent.1, s.getEvent.2.map reprEvent) :=
  server_get_event_eq mrss s
theorem server_has_connections {ε : Type} (mrss : Nat → Nat → Nat) (s : Server) :
    (RenetServer.has_connections (reprServer mrss s) : Res ε Bool) = .ok (!s.conns.isEmpty) := server_has_connections_eq mrss s
theorem server_disconnect_reason {ε : Type} (mrss : Nat → Nat → Nat) (s : Server) (id : Nat) :
    (RenetServer.disconnect_reason (reprServer mrss s) id : Res ε _)
      = .ok (((SMap.find? s.conns id).bind (·.disconnectReason)).map reprReason) := server_disconnect_reason_eq mrss s id
theorem server_is_connected {ε : Type} (mrss : Nat → Nat → Nat) (s : Server) (id : Nat) :
    (RenetServer.is_connected (reprServer mrss s) id : Res ε Bool)
      = .ok (match SMap.find? s.conns id with | some c => c.isConnected | none => false) := server_is_connected_eq mrss s id
/-- `remove_connection`: the event carries the connection's own reason, `Transport` if it was not disconnected -/
theorem server_remove_connection {ε : Type} (mrss : Nat → Nat → Nat) (s : Server) (id : Nat) :
    (RenetServer.remove_connection (reprServer mrss s) id : Res ε _) = .ok (reprServer mrss (s.removeConnection id), ()) :=
  server_remove_connection_eq mrss s id
theorem server_disconnect {ε : Type} (mrss : Nat → Nat → Nat) (s : Server) (id : Nat) (hs : MSorted s.conns) :
    (RenetServer.disconnect (reprServer mrss s) id : Res ε _) = .ok (reprServer mrss (s.disconnect id), ()) :=
  server_disconnect_eq mrss s id hs
theorem server_disconnect_all {ε : Type} (mrss : Nat → Nat → Nat) (s : Server) :
    (RenetServer.disconnect_all (reprServer mrss s) : Res ε _) = .ok (reprServer mrss s.disconnectAll, ()) :=
  server_disconnect_all_eq mrss s

/-- `broadcast_message`: every connection gets the message as by its own `send_message` (`SendMsgOk`: the hypotheses
    of `conn_send_message`, for every connection) -/
theorem server_broadcast_message {ε : Type} (mrss : Nat → Nat → Nat) (s : Server) (ch : Nat) (m : Bytes)
    (hc : ∀ p ∈ s.conns, SendMsgOk p.2 ch m) :
    SameOutcome (RenetServer.broadcast_message (reprServer mrss s) ch (toNats m) : Res ε _)
      (mapRes (fun s' => (reprServer mrss s', ())) (fun e => nomatch e) (s.broadcast ch m)) :=
  server_broadcast_eq mrss s ch m hc
theorem server_broadcast_message_except {ε : Type} (mrss : Nat → Nat → Nat) (s : Server) (ex ch : Nat) (m : Bytes)
    (hc : ∀ p ∈ s.conns, p.1 ≠ ex → SendMsgOk p.2 ch m) :
    SameOutcome (RenetServer.broadcast_message_except (reprServer mrss s) ex ch (toNats m) : Res ε _)
      (mapRes (fun s' => (reprServer mrss s', ())) (fun e => nomatch e) (s.broadcastExcept ex ch m)) :=
  server_broadcast_except_eq mrss s ex ch m hc

theorem server_channel_available_memory {ε : Type} (mrss : Nat → Nat → Nat) (s : Server) (id ch : Nat)
    (hr : ∀ c x, SMap.find? s.conns id = some c → SMap.find? c.sendRel ch = some x → x.mem ≤ x.maxMem)
    (hu : ∀ c x, SMap.find? s.conns id = some c → SMap.find? c.sendUnrel ch = some x → x.mem ≤ x.maxMem) :
    SameOutcome (RenetServer.channel_available_memory (reprServer mrss s) id ch : Res ε Nat)
      (match SMap.find? s.conns id with
       | some c => mapRes (fun v => v) (fun e => nomatch e) (c.availableMemory ch)
       | none => .ok 0) := server_available_eq mrss s id ch hr hu
theorem server_can_send_message {ε : Type} (mrss : Nat → Nat → Nat) (s : Server) (id ch n : Nat)
    (hr : ∀ c x, SMap.find? s.conns id = some c → SMap.find? c.sendRel ch = some x → n + x.mem < 2 ^ 64)
    (hu : ∀ c x, SMap.find? s.conns id = some c → SMap.find? c.sendUnrel ch = some x → n + x.mem < 2 ^ 64) :
    SameOutcome (RenetServer.can_send_message (reprServer mrss s) id ch n : Res ε Bool)
      (match SMap.find? s.conns id with
       | some c =>
         match SMap.find? c.sendRel ch with
         | some x => .ok (x.canSend n)
         | none => match SMap.find? c.sendUnrel ch with
           | some x => .ok (x.canSend n)
           | none => .panic "can_send_message: invalid channel"
       | none => .ok false) := server_can_send_eq mrss s id ch n hr hu
/-- `send_message` to an unknown client only logs -/
theorem server_send_message {ε : Type} (mrss : Nat → Nat → Nat) (s : Server) (id ch : Nat) (m : Bytes) (hs : MSorted s.conns)
    (hc : ∀ c, SMap.find? s.conns id = some c → SendMsgOk c ch m) :
    SameOutcome (RenetServer.send_message (reprServer mrss s) id ch (toNats m) : Res ε _)
      (mapRes (fun s' => (reprServer mrss s', ())) (fun e => nomatch e) (s.sendMessage id ch m)) :=
  server_send_message_eq mrss s id ch m hs hc
theorem server_receive_message {ε : Type} (mrss : Nat → Nat → Nat) (s : Server) (id ch : Nat) (hs : MSorted s.conns)
    (hc : ∀ c, SMap.find? s.conns id = some c → MSorted c.recvRel ∧
      (∀ r, SMap.find? c.recvRel ch = some r → r.oldest + r.received.length + 1 < 2 ^ 64 ∧ r.received.Nodup)) :
    SameOutcome (RenetServer.receive_message (reprServer mrss s) id ch : Res ε _)
      (mapRes (fun x => (reprServer mrss x.1, x.2.map toNats)) (fun e => nomatch e) (s.receiveMessage id ch)) :=
  server_receive_message_eq mrss s id ch hs hc

/-- the ids of the connected clients, UP TO A PERMUTATION (HashMap order) -/
theorem server_clients_id {ε : Type} (mrss : Nat → Nat → Nat) (s : Server) :
    ∃ l, (RenetServer.clients_id (reprServer mrss s) : Res ε _) = .ok l ∧ l.Perm s.clientsId :=
  ⟨_, server_clients_id_eq mrss s, List.Perm.refl _⟩
theorem server_clients_id_iter {ε : Type} (mrss : Nat → Nat → Nat) (s : Server) :
    ∃ l, (RenetServer.clients_id_iter (reprServer mrss s) : Res ε _) = .ok l ∧ l.Perm s.clientsId :=
  ⟨_, server_clients_id_iter_eq mrss s, List.Perm.refl _⟩
theorem server_disconnections_id {ε : Type} (mrss : Nat → Nat → Nat) (s : Server) :
    ∃ l, (RenetServer.disconnections_id (reprServer mrss s) : Res ε _) = .ok l ∧ l.Perm s.disconnectionsId :=
  ⟨_, server_disconnections_id_eq mrss s, List.Perm.refl _⟩
theorem server_disconnections_id_iter {ε : Type} (mrss : Nat → Nat → Nat) (s : Server) :
    ∃ l, (RenetServer.disconnections_id_iter (reprServer mrss s) : Res ε _) = .ok l ∧ l.Perm s.disconnectionsId :=
  ⟨_, server_disconnections_id_iter_eq mrss s, List.Perm.refl _⟩
/-- about the GENERATED function only: it lists the ids in key order, as the model does -/
theorem server_clients_id_key_order {ε : Type} (mrss : Nat → Nat → Nat) (s : Server) :
    (RenetServer.clients_id (reprServer mrss s) : Res ε _) = .ok s.clientsId := server_clients_id_eq mrss s
theorem server_disconnections_id_key_order {ε : Type} (mrss : Nat → Nat → Nat) (s : Server) :
    (RenetServer.disconnections_id (reprServer mrss s) : Res ε _) = .ok s.disconnectionsId :=
  server_disconnections_id_eq mrss s
theorem server_connected_clients {ε : Type} (mrss : Nat → Nat → Nat) (s : Server) :
    (RenetServer.connected_clients (reprServer mrss s) : Res ε _) = .ok s.clientsId.length :=
  server_connected_clients_eq mrss s

/-- `update`: every connection is advanced as by its own `update` (`UpdateOk` for every connection) -/
theorem server_update {ε : Type} (mrss : Nat → Nat → Nat) (s : Server) (dt : Nat) (hc : ∀ p ∈ s.conns, UpdateOk p.2 dt) :
    SameOutcome (RenetServer.update (reprServer mrss s) dt : Res ε _)
      (mapRes (fun s' => (reprServer mrss s', ())) (fun e => nomatch e) (s.update dt)) := server_update_eq mrss s dt hc

/-- `get_packets_to_send`: `Err(ClientNotFound)` (with the unchanged server) for an unknown id (`srvOut`), else the
    connection's packets -/
theorem server_get_packets_to_send (mrss : Nat → Nat → Nat) (s : Server) (id : Nat) (hs : MSorted s.conns)
    (hc : ∀ c, SMap.find? s.conns id = some c → SendOk c) :
    SameOutcome (RenetServer.get_packets_to_send (reprServer mrss s) id)
      (srvOut mrss (fun ps : List Bytes => ps.map toNats) (s.getPacketsToSend id)) := server_get_packets_eq mrss s id hs hc
theorem server_process_packet_from (mrss : Nat → Nat → Nat) (s : Server) (bytes : Bytes) (id : Nat) (hs : MSorted s.conns)
    (hc : ∀ c, SMap.find? s.conns id = some c → ProcOk c bytes) :
    ∃ mrss', SameOutcome (RenetServer.process_packet_from (reprServer mrss s) (toNats bytes) id)
      (srvOut mrss' (fun _ : Unit => ())
        (match s.processPacketFrom bytes id with
         | .ok (s', true) => .ok (s', some ())
         | .ok (s', false) => .ok (s', none)
         | .panic m => .panic m
         | .err e => nomatch e)) := server_process_packet_from_eq mrss s bytes id hs hc

theorem server_new_local_client {ε : Type} (mrss : Nat → Nat → Nat) (s : Server) (id : Nat) (hc : CfgOk s) (hs : MSorted s.conns) :
    (RenetServer.new_local_client (reprServer mrss s) id : Res ε _)
      = .ok (reprServer (if SMap.contains s.conns id then mrss else setMrs mrss id (fun _ => 0)) (s.newLocalClient id).1,
             reprConn (fun _ => 0) (s.newLocalClient id).2) := server_new_local_client_eq mrss s id hc hs
/-- `disconnect_local_client(&mut self, id, client: &mut RenetClient)`: the new server AND the new client -/
theorem server_disconnect_local_client {ε : Type} (mrss : Nat → Nat → Nat) (mrs : Nat → Nat) (s : Server) (id : Nat) (cl : Conn) :
    (RenetServer.disconnect_local_client (reprServer mrss s) id (reprConn mrs cl) : Res ε _)
      = .ok (reprServer mrss (s.disconnectLocalClient id cl).1, reprConn mrs (s.disconnectLocalClient id cl).2, ()) :=
  server_disconnect_local_client_eq mrss mrs s id cl
/-- `process_local_client`: the server's packets are fed to the client, the client's packets to the server
    (`LocalOk`: the hypotheses of the four calls involved, along the model's run); `Err(ClientNotFound)` — from the first
    `?` or from inside the second loop — keeps the states reached so far (`localOut`) -/
theorem server_process_local_client (mrss : Nat → Nat → Nat) (mrs : Nat → Nat) (s : Server) (id : Nat) (cl : Conn)
    (hok : LocalOk s id cl) :
    ∃ mrss' mrs', SameOutcome (RenetServer.process_local_client (reprServer mrss s) id (reprConn mrs cl))
      (localOut mrss' mrs' (s.processLocalClient id cl)) := server_process_local_client_eq mrss mrs s id cl hok

/-- one unreliable channel (id 0, 100 bytes) in both directions -/
def exCfg1 : List Src.renet.channel.ChannelConfig := [⟨0, 100, .Unreliable⟩]
def exConn1 : RenetClient :=
  ⟨0, 0, [], [], [.Unreliable 0], [(0, ⟨0, [], 0, 100, 0⟩)], [(0, ⟨0, [], [], [], 100, 0⟩)], [], [], 60000, .Connected⟩
/-- client 3 connected, client 7 disconnected by the transport -/
def exSrv : RenetServer :=
  ⟨[(3, exConn1), (7, { exConn1 with connection_status := .Disconnected .Transport })], ⟨60000, exCfg1, exCfg1⟩,
   [.ClientConnected 3, .ClientConnected 7]⟩

example : (RenetServer.add_connection ⟨[], ⟨60000, exCfg1, exCfg1⟩, []⟩ 7 : Res Empty _) =
    .ok (⟨[(7, exConn1)], ⟨60000, exCfg1, exCfg1⟩, [.ClientConnected 7]⟩, ()) := by decide +kernel
example : (RenetServer.add_connection exSrv 7 : Res Empty _) = .ok (exSrv, ()) := by decide +kernel
example : (RenetServer.clients_id exSrv : Res Empty _) = .ok [3] := by decide +kernel
example : (RenetServer.disconnections_id exSrv : Res Empty _) = .ok [7] := by decide +kernel
example : (RenetServer.connected_clients exSrv : Res Empty _) = .ok 1 := by decide +kernel
example : (RenetServer.get_event exSrv : Res Empty _) = .ok ({ exSrv with events := [.ClientConnected 7] }, some (.ClientConnected 3)) := by
  decide +kernel
/-- the removed connection's own reason is reported -/
example : (RenetServer.remove_connection exSrv 7 : Res Empty _) =
    .ok ({ exSrv with connections := [(3, exConn1)],
                      events := [.ClientConnected 3, .ClientConnected 7, .ClientDisconnected 7 .Transport] }, ()) := by
  decide +kernel
/-- broadcast except 7: only client 3 queues the message -/
example : (RenetServer.broadcast_message_except exSrv 7 0 [1, 2] : Res Empty _) =
    .ok ({ exSrv with connections :=
            [(3, { exConn1 with send_unreliable_channels := [(0, ⟨0, [[1, 2]], 0, 100, 2⟩)] }),
             (7, { exConn1 with connection_status := .Disconnected .Transport })] }, ()) := by decide +kernel
example : RenetServer.get_packets_to_send exSrv 9 = .err ({ }, exSrv) := by decide +kernel
example : RenetServer.process_packet_from exSrv [9] 9 = .err ({ }, exSrv) := by decide +kernel

end RenetVerif.SrcTie
