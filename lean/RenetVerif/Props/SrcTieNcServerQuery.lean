/-
  Source tie, group NcServerQuery (types in group NcServerTypes): `renetcode/src/server.rs`
  `find_client_by_id`, `find_client_slot_by_id`, `NetcodeServer::{addresses, current_time, user_data,
  time_since_last_received_packet, client_addr, clients_slot, clients_id_iter, clients_id, max_clients, set_max_clients,
  connected_clients, is_client_connected, update}` ↔ `NetcodeServer` of `Netcode/Server.lean`.

  `reprNS out s` is the generated server: `clients: Box<[Option<Connection>]>` is the list of slots,
  `pending_clients: HashMap<SocketAddr, Connection>` the association list `RustSem.AMap` (see the header of
  `Base/RustSem.lean`: unspecified iteration order, never exposed), `connect_token_entries` the entry list, and `out` —
  the scratch buffer `[u8; NETCODE_MAX_PACKET_BYTES]`, which the model does not keep — a parameter.
  The methods `current_time` / `max_clients` share their names with fields: their Lean names carry a `'`.
  `update`: `values_mut()` over the `HashMap` under the manifest whitelist (each round touches only its own pending
  connection; checked by the translator), then `retain` with a pure predicate.
-/
import RenetVerif.Lemmas.SrcEquiv.NcServer
namespace RenetVerif.SrcTie
open RenetVerif RenetVerif.SrcEquiv RenetVerif.RustSem RenetVerif.Netcode
open Src.renetcode.server

theorem nc_find_client_by_id {ε : Type} (clients : List (Option Netcode.Connection)) (id : Nat) :
    (find_client_by_id (clients.map (Option.map reprNConn)) id : Res ε _) = .ok ((findClientById clients id).map reprNConn) :=
  find_client_by_id_eq clients id
/-- `find_map` over `iter().enumerate()` with the guarded arm `Some(c) if c.client_id == client_id` -/
theorem nc_find_client_slot_by_id {ε : Type} (clients : List (Option Netcode.Connection)) (id : Nat) :
    (find_client_slot_by_id (clients.map (Option.map reprNConn)) id : Res ε _) = .ok (findClientSlotById clients id) :=
  find_client_slot_by_id_eq clients id

theorem nc_server_addresses {ε : Type} (out : List Nat) (s : Netcode.NetcodeServer) :
    (NetcodeServer.addresses (reprNS out s) : Res ε _) = .ok (s.addresses.map reprAddr) := ns_addresses_eq out s
theorem nc_server_current_time {ε : Type} (out : List Nat) (s : Netcode.NetcodeServer) :
    (NetcodeServer.current_time' (reprNS out s) : Res ε _) = .ok s.currentTime := ns_current_time_eq out s
theorem nc_server_max_clients {ε : Type} (out : List Nat) (s : Netcode.NetcodeServer) :
    (NetcodeServer.max_clients' (reprNS out s) : Res ε _) = .ok s.maxClients := ns_max_clients_eq out s
theorem nc_server_user_data {ε : Type} (out : List Nat) (s : Netcode.NetcodeServer) (id : Nat) :
    (NetcodeServer.user_data (reprNS out s) id : Res ε _) = .ok ((s.userData id).map toNats) := ns_user_data_eq out s id
theorem nc_server_client_addr {ε : Type} (out : List Nat) (s : Netcode.NetcodeServer) (id : Nat) :
    (NetcodeServer.client_addr (reprNS out s) id : Res ε _) = .ok ((s.clientAddr id).map reprAddr) := ns_client_addr_eq out s id
/-- `Duration - Duration` panics when the client's receive time lies in the future of the server clock -/
theorem nc_server_time_since_last_received_packet {ε : Type} (out : List Nat) (s : Netcode.NetcodeServer) (id : Nat) :
    SameOutcome (NetcodeServer.time_since_last_received_packet (reprNS out s) id : Res ε _)
      (mapRes (fun o => o) (fun e => nomatch e) (s.timeSinceLastReceivedPacket id)) := ns_time_since_eq out s id
theorem nc_server_is_client_connected {ε : Type} (out : List Nat) (s : Netcode.NetcodeServer) (id : Nat) :
    (NetcodeServer.is_client_connected (reprNS out s) id : Res ε _) = .ok (s.isClientConnected id) :=
  ns_is_client_connected_eq out s id
theorem nc_server_connected_clients {ε : Type} (out : List Nat) (s : Netcode.NetcodeServer) :
    (NetcodeServer.connected_clients (reprNS out s) : Res ε _) = .ok s.connectedClients := ns_connected_clients_eq out s
/-- slot order (a `Box<[..]>`, not a HashMap: the order is specified) -/
theorem nc_server_clients_id {ε : Type} (out : List Nat) (s : Netcode.NetcodeServer) :
    (NetcodeServer.clients_id (reprNS out s) : Res ε _) = .ok s.clientsId := ns_clients_id_eq out s
theorem nc_server_clients_id_iter {ε : Type} (out : List Nat) (s : Netcode.NetcodeServer) :
    (NetcodeServer.clients_id_iter (reprNS out s) : Res ε _) = .ok s.clientsId := ns_clients_id_iter_eq out s
theorem nc_server_clients_slot {ε : Type} (out : List Nat) (s : Netcode.NetcodeServer) :
    (NetcodeServer.clients_slot (reprNS out s) : Res ε _) = .ok s.clientsSlot := ns_clients_slot_eq out s
/-- `set_max_clients`: capped at `NETCODE_MAX_CLIENTS`; the slot table grows (`mem::take` / `resize`), never shrinks -/
theorem nc_server_set_max_clients {ε : Type} (out : List Nat) (s : Netcode.NetcodeServer) (n : Nat) :
    (NetcodeServer.set_max_clients (reprNS out s) n : Res ε _) = .ok (reprNS out (s.setMaxClients n), ()) :=
  ns_set_max_clients_eq out s n
/-- `update`: the clock (panic on `Duration` overflow) and the expiry of pending connections.  Hypothesis: no pending
    connection is in state `Disconnected` (the Rust code marks the expired ones `Disconnected` and then drops every
    `Disconnected` one; the model drops the expired ones) — an invariant: pending connections are created
    `PendingResponse`. -/
theorem nc_server_update {ε : Type} (out : List Nat) (s : Netcode.NetcodeServer) (dt : Nat)
    (hst : ∀ p ∈ s.pendingClients, p.2.state ≠ .disconnected) :
    SameOutcome (Src.renetcode.server.NetcodeServer.update (reprNS out s) dt : Res ε _)
      (mapRes (fun s' => (reprNS out s', ())) (fun e => nomatch e) (s.update dt)) := ns_update_eq out s dt hst

/-- a pending connection (expires at second 5) and the 3-slot server holding it at t = 4 s, one connected client in slot 1 -/
def exPend : SConnection :=
  ⟨false, 9, .PendingResponse, [1], [2], [3], .v4 [10, 0, 0, 1] 7, 0, 0, 5, 0, 5, ⟨0, []⟩⟩
def exNS : SNetcodeServer :=
  ⟨[none, some { exPend with client_id := 4, state := .Connected }, none], [(.v4 [10, 0, 0, 1] 7, exPend)], [], 1, [], 3, 0, [],
   [], 4000000000, 0, false, []⟩

example : (find_client_slot_by_id exNS.clients 4 : Res Empty _) = .ok (some 1) := by decide +kernel
example : (NetcodeServer.clients_slot exNS : Res Empty _) = .ok [1] := by decide +kernel
example : (NetcodeServer.clients_id exNS : Res Empty _) = .ok [4] := by decide +kernel
/-- 1 s later the clock shows 5 s (not yet `> 5`): the pending connection stays; 2 s later it is dropped -/
example : (Src.renetcode.server.NetcodeServer.update exNS 1000000000 : Res Empty _) =
    .ok ({ exNS with current_time := 5000000000 }, ()) := by decide +kernel
example : (Src.renetcode.server.NetcodeServer.update exNS 2000000000 : Res Empty _) =
    .ok ({ exNS with current_time := 6000000000, pending_clients := [] }, ()) := by decide +kernel
example : (NetcodeServer.set_max_clients exNS 5 : Res Empty _) =
    .ok ({ exNS with clients := exNS.clients ++ [none, none], max_clients := 5 }, ()) := by decide +kernel

end RenetVerif.SrcTie
