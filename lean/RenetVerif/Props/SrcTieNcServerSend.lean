/-
  Source tie, group NcServerSend: `renetcode/src/server.rs` `find_client_mut_by_id`,
  `NetcodeServer::{generate_payload_packet, update_client, disconnect}` ↔ `NetcodeServer.{generatePayloadPacket,
  updateClient, disconnect}` of `Netcode/Server.lean`.  The AEAD is a parameter on both sides (see `SrcTieNcCodec.lean`).

  * `find_client_mut_by_id` returns `Option<&mut Connection>` into `clients`: a FINDER (header of `Base/RustSem.lean`) —
    the generated definition returns the POSITION of the slot (`RustSem.find_some_idx`), and at the call site the
    `&mut Connection` is the place `clients[i]` (read and written through index `i`).
  * The three methods encode into the server's scratch buffer `self.out: [u8; NETCODE_MAX_PACKET_BYTES]` and hand out
    `&self.out[..len]`; the generated definitions return that slice BY VALUE (`ServerResult` / the returned tuple are
    on the manifest lists `BORROWED_FIELDS_OK` / `BORROWED_RETURN_OK`: a shared borrow of a field that nothing writes
    while the result lives).  The model does not keep `out`; the theorems say that SOME buffer of the same length is left
    (`∃ out'`, `out'.length = NETCODE_MAX_PACKET_BYTES`), also after an `Err` and after a failed encode whose error is
    swallowed (`update_client`, `disconnect`).
  * `update_client`: `client.timeout_seconds as u64` on an `i32` is `RustSem.cast_i32 64` (sign extension); it is only
    evaluated for `timeout_seconds > 0`.  Hypothesis: the `timeout_seconds` of the connected clients are `< 2^31`
    (an `i32`; the model keeps an unbounded `Int`).
-/
import RenetVerif.Lemmas.SrcEquiv.NcServerSend
set_option maxRecDepth 10000
namespace RenetVerif.SrcTie
open RenetVerif RenetVerif.SrcEquiv RenetVerif.RustSem RenetVerif.Netcode
open Src.renetcode.server

/-- the finder: the slot of the first connected client with this id -/
theorem nc_find_client_mut_by_id {ε : Type} (clients : List (Option Netcode.Connection)) (id : Nat) :
    (find_client_mut_by_id (clients.map (Option.map reprNConn)) id : Res ε _) = .ok (findClientSlotById clients id) :=
  find_client_mut_by_id_eq clients id

/-- `generate_payload_packet`: `PayloadAboveLimit` / `ClientNotFound` / the encode error, with the server unchanged up to
    the scratch buffer; otherwise the client's address, the encoded packet, `sequence + 1` (overflow panics) and
    `last_packet_send_time := current_time` in the client's slot. -/
theorem nc_server_generate_payload_packet (a : AEAD) (hl : a.Laws) (out : List Nat)
    (hout : out.length = C.NETCODE_MAX_PACKET_BYTES) (s : Netcode.NetcodeServer) (id : Nat) (payload : Bytes) :
    GenOut s (s.generatePayloadPacket a id payload)
      (@NetcodeServer.generate_payload_packet (aeadOf a) (reprNS out s) id (toNats payload)) :=
  ns_generate_payload_packet_eq a hl out hout s id payload

/-- `update_client`: nothing for an unknown id; a timed-out (`last_packet_received_time + timeout < current_time`,
    `Duration` overflow panics) or already `Disconnected` client is dropped from its slot and reported with a
    `Disconnect` packet (or without one when the encode fails); otherwise a `KeepAlive { slot as u32, max_clients as u32 }`
    when `last_packet_send_time + NETCODE_SEND_RATE ≤ current_time` (a failed encode leaves everything as it was and
    returns `None`). -/
theorem nc_server_update_client {ε : Type} (a : AEAD) (hl : a.Laws) (out : List Nat)
    (hout : out.length = C.NETCODE_MAX_PACKET_BYTES) (s : Netcode.NetcodeServer)
    (hto : ∀ c, some c ∈ s.clients → c.timeoutSeconds < 2 ^ 31) (id : Nat) :
    NsOut (s.updateClient a id) (@NetcodeServer.update_client (aeadOf a) ε (reprNS out s) id) :=
  ns_update_client_eq a hl out hout s hto id

/-- `disconnect`: `take()` of the slot, then the `Disconnect` packet (reported without packet when the encode fails) -/
theorem nc_server_disconnect {ε : Type} (a : AEAD) (hl : a.Laws) (out : List Nat)
    (hout : out.length = C.NETCODE_MAX_PACKET_BYTES) (s : Netcode.NetcodeServer) (id : Nat) :
    NsOut (s.disconnect a id) (@Src.renetcode.server.NetcodeServer.disconnect (aeadOf a) ε (reprNS out s) id) :=
  ns_disconnect_eq a hl out hout s id

/-! ### the generated definitions on concrete values (toy AEAD: the tag is 16 zero bytes) -/

/-- client 4 in slot 1 of 3, sequence 6, time-out 5 s, last heard of and last written to at t = 0 -/
def exNcConn : SConnection :=
  ⟨true, 4, .Connected, List.replicate 32 1, List.replicate 32 2, [3], .v4 [10, 0, 0, 1] 7, 0, 0, 5, 6, 0, ⟨0, []⟩⟩
/-- the server at t = 4 s with a scratch buffer `out` -/
def exNcSrv (out : List Nat) : SNetcodeServer :=
  ⟨[none, some exNcConn, none], [], [], 9, [], 3, 0, [], [], 4000000000, 0, false, out⟩

example : (find_client_mut_by_id (exNcSrv []).clients 4 : Res Empty _) = .ok (some 1) := by decide +kernel
/-- t = 4 s: no time-out yet (0 + 5 s is not `< 4 s`), keep-alive due: `KeepAlive { 1, 3 }` with sequence 6 -/
example : @NetcodeServer.update_client (aeadOf AEAD.toy) Empty (exNcSrv (List.replicate 40 7)) 4 =
    .ok ({ exNcSrv ([20, 6, 1, 0, 0, 0, 3, 0, 0, 0] ++ List.replicate 16 0 ++ List.replicate 14 7) with
            clients := [none, some { exNcConn with sequence := 7, last_packet_send_time := 4000000000 }, none] },
         .PacketToSend (.v4 [10, 0, 0, 1] 7) ([20, 6, 1, 0, 0, 0, 3, 0, 0, 0] ++ List.replicate 16 0)) := by decide +kernel
/-- the same with a scratch buffer that is too small: the encode error is swallowed, nothing changes -/
example : @NetcodeServer.update_client (aeadOf AEAD.toy) Empty (exNcSrv []) 4 = .ok (exNcSrv [], .None) := by decide +kernel
/-- t = 6 s: timed out — the slot is emptied, a `Disconnect` packet goes out -/
example : @NetcodeServer.update_client (aeadOf AEAD.toy) Empty { exNcSrv (List.replicate 40 7) with current_time := 6000000000 } 4 =
    .ok ({ exNcSrv ([22, 6] ++ List.replicate 16 0 ++ List.replicate 22 7) with
            clients := [none, none, none], current_time := 6000000000 },
         .ClientDisconnected 4 (.v4 [10, 0, 0, 1] 7) (some ([22, 6] ++ List.replicate 16 0))) := by decide +kernel
example : @Src.renetcode.server.NetcodeServer.disconnect (aeadOf AEAD.toy) Empty (exNcSrv (List.replicate 40 7)) 4 =
    .ok ({ exNcSrv ([22, 6] ++ List.replicate 16 0 ++ List.replicate 22 7) with clients := [none, none, none] },
         .ClientDisconnected 4 (.v4 [10, 0, 0, 1] 7) (some ([22, 6] ++ List.replicate 16 0))) := by decide +kernel
example : @Src.renetcode.server.NetcodeServer.disconnect (aeadOf AEAD.toy) Empty (exNcSrv []) 4 =
    .ok ({ exNcSrv [] with clients := [none, none, none] }, .ClientDisconnected 4 (.v4 [10, 0, 0, 1] 7) none) := by
  decide +kernel
example : @NetcodeServer.generate_payload_packet (aeadOf AEAD.toy) (exNcSrv (List.replicate 40 7)) 4 [9, 8, 7] =
    .ok ({ exNcSrv ([21, 6, 9, 8, 7] ++ List.replicate 16 0 ++ List.replicate 19 7) with
            clients := [none, some { exNcConn with sequence := 7, last_packet_send_time := 4000000000 }, none] },
         (.v4 [10, 0, 0, 1] 7, [21, 6, 9, 8, 7] ++ List.replicate 16 0)) := by decide +kernel
example : @NetcodeServer.generate_payload_packet (aeadOf AEAD.toy) (exNcSrv [7]) 5 [9, 8, 7] =
    .err (.ClientNotFound, exNcSrv [7]) := by decide +kernel
example : @NetcodeServer.generate_payload_packet (aeadOf AEAD.toy) (exNcSrv [7]) 4 (List.replicate 1301 0) =
    .err (.PayloadAboveLimit, exNcSrv [7]) := by decide +kernel

end RenetVerif.SrcTie
