/-
  C16 (netcode half) — the renetcode wire formats round-trip.

  Statements are about the executable model `RenetVerif.Netcode` (validated against the Rust crate by differential
  testing), parametric in the AEAD; `a.Laws` are the functional laws only (open ∘ seal = id, lengths).
  Proofs: Lemmas/NcAead.lean, parts A–C.

  Proven here
    * sequence bytes: every u64, every length class 1..8, decoder also takes 0..8 bytes of any (non-minimal) length
    * all seven packet kinds: whatever `encode` returns, `decode` maps back to (sequence, packet); `encode` is
      characterised exactly (succeeds iff prefix + sequence bytes + body + tag fit), so it always succeeds for
      what the library sends into its 1400-byte buffer
    * decode ∘ encode ∘ decode = decode for packets (decoder outputs are well-formed)
    * `ConnectToken` write/read for 1..32 IPv4/IPv6 addresses, `PrivateConnectToken` encode/decode (seal/open),
      `ChallengeToken` generate/decode; tokens built by `generate` are well-formed
    * every token `ConnectToken::read` accepts has a prefix-compact address array with ≥ 1 address
      (`read_is_prefix_compact`), hence decode ∘ encode ∘ decode = decode for connect tokens without any side
      condition (`token_reencode`), and the same at value level for the private token the server opens
      (`private_token_reencode`)
  History: the model of the code before commit 37089df skipped NETCODE_ADDRESS_NONE entries in
      `read_server_addresses`, so `read` accepted address lists with holes, for which re-encoding gave a different
      token (defect D19; the counter-example was proved here against that model).  Repaired: a NONE entry is an error
      (`read_rejects_hole`).  `token_value_with_hole` stays as the reason why `TokenWF` asks for compactness.
  Not stated: byte-level re-encoding for `PrivateConnectToken::read` / `ChallengeToken::decode` (their readers ignore
      trailing padding, so only value-level round trips are given).
-/
import RenetVerif.Lemmas.NcAead
namespace RenetVerif.C16N
open RenetVerif RenetVerif.Netcode RenetVerif.NcAead

/-! ### sequence numbers -/

/-- `write_sequence` / `read_sequence`: for every u64 the encoder announces 1..8 bytes, writes exactly that many,
    and the decoder reads the value back (whatever follows). -/
theorem sequence_bytes_roundtrip (seq : Nat) (h : seq < 2 ^ 64) (rest : Bytes) :
    1 ≤ Netcode.Packet.sequenceBytesRequired seq ∧ Netcode.Packet.sequenceBytesRequired seq ≤ 8 ∧
    (NcAead.Packet.seqBytes seq).length = Netcode.Packet.sequenceBytesRequired seq ∧
    Netcode.Packet.readSequence (NcAead.Packet.seqBytes seq ++ rest) (Netcode.Packet.sequenceBytesRequired seq) =
      some (seq, rest) :=
  ⟨NcAead.Packet.sbr_pos seq, NcAead.Packet.sbr_le seq, NcAead.Packet.seqBytes_length seq,
    NcAead.Packet.readSequence_seqBytes rest h⟩

/-- the writer appends exactly those bytes when they fit (a short write is the case `encode` turns into `IoError`,
    see `packet_encode_exact`) -/
theorem sequence_bytes_written (w : Wr) (seq : Nat) (hfit : w.out.length + Netcode.Packet.sequenceBytesRequired seq ≤ w.cap) :
    Netcode.Packet.writeSequence w seq =
      ({ w with out := w.out ++ NcAead.Packet.seqBytes seq }, Netcode.Packet.sequenceBytesRequired seq) := by
  have hl : (NcAead.Packet.seqBytes seq).length = Netcode.Packet.sequenceBytesRequired seq :=
    NcAead.Packet.seqBytes_length seq
  have e : Netcode.Packet.writeSequence w seq =
      ((⟨w.cap, w.out ++ List.take (min (NcAead.Packet.seqBytes seq).length (w.cap - w.out.length))
          (NcAead.Packet.seqBytes seq)⟩ : Wr), min (NcAead.Packet.seqBytes seq).length (w.cap - w.out.length)) := rfl
  rw [e, hl, Nat.min_eq_left (by omega), ← hl, List.take_length]

/-- the encoder's length is minimal: k > 1 bytes are announced only for values ≥ 256^(k-1) -/
theorem sequence_bytes_minimal (seq : Nat) (h : 1 < Netcode.Packet.sequenceBytesRequired seq) :
    256 ^ (Netcode.Packet.sequenceBytesRequired seq - 1) ≤ seq := NcAead.Packet.sbr_min h

/-- every length class 1..8 occurs, at both ends of its value range (and 0 is encoded in one byte) -/
theorem sequence_length_classes :
    Netcode.Packet.sequenceBytesRequired 0 = 1 ∧
    ∀ k, k < 8 → Netcode.Packet.sequenceBytesRequired (256 ^ k) = k + 1 ∧
                 Netcode.Packet.sequenceBytesRequired (256 ^ (k + 1) - 1) = k + 1 := by
  decide

/-- the decoder accepts every announced length 0..8 (also non-minimal ones): `k` little-endian bytes give back any
    value below 256^k; in particular length 0 denotes sequence 0 -/
theorem sequence_any_length (k : Nat) (hk : k ≤ 8) (seq : Nat) (h : seq < 256 ^ k) (rest : Bytes) :
    Netcode.Packet.readSequence (leBytes seq k ++ rest) k = some (seq, rest) :=
  NcAead.Packet.readSequence_leBytes rest hk h

theorem sequence_length_zero (rest : Bytes) : Netcode.Packet.readSequence rest 0 = some (0, rest) :=
  NcAead.Packet.readSequence_zero rest

/-! ### packets -/

/-- Exact behaviour of `Packet::encode` for the six sealed kinds (any packet value, any sequence, key, protocol id,
    buffer size): it succeeds iff prefix byte + sequence bytes + body + 16-byte tag fit, and then returns
    prefix ‖ sequence bytes ‖ seal(key, nonce(sequence), version ‖ protocol id ‖ prefix, body); otherwise `IoError`
    (never an unwinding, never a silently truncated sequence). -/
theorem packet_encode_exact (a : AEAD) (p : Netcode.Packet) (hp : p.packetType ≠ .connectionRequest)
    (cap proto seq : Nat) (key : Bytes) :
    p.encode a cap proto (some (seq, key)) =
      if 1 + Netcode.Packet.sequenceBytesRequired seq + (NcAead.Packet.body p).length + 16 ≤ cap
      then .ok (NcAead.Packet.sealedDatagram a p proto seq key) else .err .ioError :=
  NcAead.Packet.encode_eq a p cap proto seq key hp

/-- in particular the library's own sends (1400-byte buffer, payload ≤ 1300 bytes) always encode -/
theorem packet_encode_library (a : AEAD) (p : Netcode.Packet) (hwf : p.WF) (hp : p.packetType ≠ .connectionRequest)
    (hpl : ∀ b, p = .payload b → b.length ≤ C.NETCODE_MAX_PAYLOAD_BYTES) (proto seq : Nat) (key : Bytes) :
    p.encode a C.NETCODE_MAX_PACKET_BYTES proto (some (seq, key)) = .ok (NcAead.Packet.sealedDatagram a p proto seq key) := by
  rw [packet_encode_exact a p hp, if_pos]
  have h8 := NcAead.Packet.sbr_le seq
  have hb : (NcAead.Packet.body p).length ≤ 1300 := by
    cases p with
    | connectionRequest v pid e x d => exact absurd rfl hp
    | connectionDenied => simp [NcAead.Packet.body]
    | disconnect => simp [NcAead.Packet.body]
    | keepAlive i m => simp [NcAead.Packet.body]
    | payload b => exact hpl b rfl
    | challenge s d => obtain ⟨_, h2⟩ := hwf; simp [NcAead.Packet.body, h2, C.NETCODE_CHALLENGE_TOKEN_BYTES, RenetVerif.C.NETCODE_CHALLENGE_TOKEN_BYTES]
    | response s d => obtain ⟨_, h2⟩ := hwf; simp [NcAead.Packet.body, h2, C.NETCODE_CHALLENGE_TOKEN_BYTES, RenetVerif.C.NETCODE_CHALLENGE_TOKEN_BYTES]
  have : C.NETCODE_MAX_PACKET_BYTES = 1400 := rfl
  omega

/-- **Packet round trip, sealed kinds** (Denied, Challenge, Response, KeepAlive, Payload, Disconnect): for every
    well-formed packet, every u64 sequence, every key, protocol id and buffer size, whatever `encode` returns is
    decoded — under the same key and protocol id — to the same sequence and packet. -/
theorem packet_roundtrip (a : AEAD) (hl : a.Laws) (p : Netcode.Packet) (hwf : p.WF)
    (hp : p.packetType ≠ .connectionRequest) (seq : Nat) (hseq : seq < 2 ^ 64) (key : Bytes) (proto cap : Nat)
    (bytes : Bytes) (henc : p.encode a cap proto (some (seq, key)) = .ok bytes) :
    Netcode.Packet.decode a bytes proto (some key) none = (.ok (seq, p), none) := by
  rw [packet_encode_exact a p hp] at henc
  split at henc
  · cases henc
    exact NcAead.Packet.decode_sealedDatagram a hl p proto seq key hp hwf hseq none rfl
  · cases henc

/-- … with a replay window: accepted unless the window reports the sequence as a duplicate, and the window is
    advanced exactly for KeepAlive / Payload / Disconnect. -/
theorem packet_roundtrip_window (a : AEAD) (hl : a.Laws) (p : Netcode.Packet) (hwf : p.WF)
    (hp : p.packetType ≠ .connectionRequest) (seq : Nat) (hseq : seq < 2 ^ 64) (key : Bytes) (proto : Nat) (w : RP)
    (hfresh : p.packetType.applyReplayProtection = true → w.alreadyReceived seq = false) :
    Netcode.Packet.decode a (NcAead.Packet.sealedDatagram a p proto seq key) proto (some key) (some w) =
      (.ok (seq, p), some (if p.packetType.applyReplayProtection then w.advance seq else w)) := by
  have hd : NcAead.Packet.dupCheck (some w) p.packetType seq = false := by
    unfold NcAead.Packet.dupCheck
    cases hap : p.packetType.applyReplayProtection with
    | false => simp
    | true => simp [hfresh hap]
  rw [NcAead.Packet.decode_sealedDatagram a hl p proto seq key hp hwf hseq (some w) hd]
  simp only [NcAead.Packet.rpAfter]
  split <;> rfl

/-- **Packet round trip, ConnectionRequest** (sent in the clear; its prefix byte is the type alone and the decoder
    reports sequence 0): no key is needed on either side. -/
theorem request_roundtrip (a : AEAD) (v : Bytes) (pid e : Nat) (x d : Bytes)
    (hwf : (Netcode.Packet.connectionRequest v pid e x d).WF) (proto cap : Nat) (crypto : Option (Nat × Bytes))
    (key : Option Bytes) (bytes : Bytes)
    (henc : (Netcode.Packet.connectionRequest v pid e x d).encode a cap proto crypto = .ok bytes) :
    bytes = 0 :: NcAead.Packet.body (.connectionRequest v pid e x d) ∧
    Netcode.Packet.decode a bytes proto key none = (.ok (0, .connectionRequest v pid e x d), none) := by
  rw [NcAead.Packet.encode_request_eq] at henc
  split at henc
  · cases henc
    exact ⟨rfl, NcAead.Packet.decode_request a v pid e x d proto key none hwf⟩
  · cases henc

/-- decoder outputs are well-formed: every field has the width of its Rust type, the sequence is a u64 -/
theorem decode_wf (a : AEAD) (buf : Bytes) (proto : Nat) (key : Option Bytes) (rp rp' : Option RP) (seq : Nat)
    (p : Netcode.Packet) (h : Netcode.Packet.decode a buf proto key rp = (.ok (seq, p), rp')) :
    p.WF ∧ seq < 2 ^ 64 := NcAead.Packet.decode_wf h

/-- **decode ∘ encode ∘ decode = decode.**  Any byte string that decodes re-encodes (same sequence, key and protocol
    id; any buffer at least 8 bytes longer than the datagram, since the canonical encoding may spend up to 8
    sequence bytes where the datagram spent fewer, e.g. none) to bytes that decode to the same sequence and packet.
    The re-encoding need not be the original bytes: non-minimal sequence lengths and trailing body bytes that
    `Packet::read` ignores are not reproduced. -/
theorem decode_reencode (a : AEAD) (hl : a.Laws) (buf : Bytes) (proto : Nat) (key : Option Bytes) (rp rp' : Option RP)
    (seq : Nat) (p : Netcode.Packet) (h : Netcode.Packet.decode a buf proto key rp = (.ok (seq, p), rp'))
    (cap : Nat) (hcap : buf.length + 8 ≤ cap) :
    ∃ bytes', p.encode a cap proto (key.map fun k => (seq, k)) = .ok bytes' ∧
      Netcode.Packet.decode a bytes' proto key none = (.ok (seq, p), none) :=
  NcAead.Packet.decode_reencode hl h cap hcap

/-! ### tokens -/

/-- What a connect token must satisfy to survive `write` / `read`:
    `base`    the field widths of the Rust type (`ConnectToken.WF` of the model: u64 ids and timestamps, 13-byte
              version, 24-byte nonce, 32-byte keys, 1024-byte private part, i32 timeout, 32 address slots,
              IPv4 = 4 bytes / IPv6 = 16 bytes, ports < 2^16),
    `version` the library's version string (`read` rejects any other with `InvalidVersion`),
    `compact` a prefix-compact address array: n ≥ 1 hosts in slots 0..n-1, nothing behind them. -/
abbrev TokenWF := NcAead.Token.CTokenWF

/-- **Connect token round trip** for 1..32 IPv4 / IPv6 addresses: `write` succeeds and `read` gives the token back
    (also when more bytes follow). -/
theorem token_roundtrip (t : ConnectToken) (h : TokenWF t) (rest : Bytes) :
    ∃ b, t.write = .ok b ∧ b.length ≤ ConnectToken.MAX_BYTES ∧ ConnectToken.read (b ++ rest) = .ok t :=
  ⟨_, NcAead.Token.ct_write_eq h, NcAead.Token.ctBytes_length h, NcAead.Token.ct_read_bytes h rest⟩

/-- every token `ConnectToken::generate` builds (1..32 well-formed addresses, keys and nonce of the right size,
    256 bytes of user data) is well-formed in that sense -/
theorem generate_wf (a : AEAD) (hl : a.Laws) (now proto expireSecs clientId : Nat) (timeout : Int)
    (addrs : List Addr) (ud c2s s2c xnonce key : Bytes) (t : ConnectToken)
    (hg : ConnectToken.generate a now proto expireSecs clientId timeout addrs ud c2s s2c xnonce key = .ok t)
    (hp : proto < 2 ^ 64) (hc : clientId < 2 ^ 64) (ht1 : -(2 ^ 31 : Int) ≤ timeout) (ht2 : timeout < 2 ^ 31)
    (ha : ∀ x ∈ addrs, x.WF) (hud : ud.length = 256) (hk1 : c2s.length = 32) (hk2 : s2c.length = 32)
    (hx : xnonce.length = 24) : TokenWF t :=
  NcAead.Token.ct_generate_wf a hl hg hp hc ht1 ht2 ha hud hk1 hk2 hx

abbrev PrivateTokenWF := NcAead.Token.PTokenWF

/-- **Private connect token, seal/open round trip**: `encode` succeeds (the serialisation always fits the
    1024-byte buffer) and `decode` under the same key, nonce, protocol id and expiry gives the token back. -/
theorem private_token_roundtrip (a : AEAD) (hl : a.Laws) (t : PrivateConnectToken) (h : PrivateTokenWF t)
    (proto expire : Nat) (xnonce key : Bytes) :
    ∃ sealed, t.encode a proto expire xnonce key = .ok sealed ∧ sealed.length = 1024 ∧
      PrivateConnectToken.decode a sealed proto expire xnonce key = .ok t := by
  refine ⟨_, NcAead.Token.pt_encode_eq a h proto expire xnonce key, ?_, NcAead.Token.pt_decode_encode a hl h proto expire xnonce key⟩
  rw [hl.xseal_length, NcAead.Token.ptPlain_length h]

/-- what `PrivateConnectToken::generate` builds is well-formed -/
theorem private_generate_wf (clientId : Nat) (timeout : Int) (addrs : List Addr) (ud c2s s2c : Bytes)
    (t : PrivateConnectToken) (hg : PrivateConnectToken.generate clientId timeout addrs ud c2s s2c = .ok t)
    (hc : clientId < 2 ^ 64) (ht1 : -(2 ^ 31 : Int) ≤ timeout) (ht2 : timeout < 2 ^ 31)
    (ha : ∀ x ∈ addrs, x.WF) (hud : ud.length = 256) (hk1 : c2s.length = 32) (hk2 : s2c.length = 32) :
    PrivateTokenWF t := NcAead.Token.pt_generate_wf hg hc ht1 ht2 ha hud hk1 hk2

/-- **Challenge token round trip**: `generate_challenge` succeeds and `ChallengeToken::decode` of the sealed 300
    bytes, with the same sequence and key, gives client id and user data back. -/
theorem challenge_token_roundtrip (a : AEAD) (hl : a.Laws) (clientId : Nat) (hc : clientId < 2 ^ 64)
    (userData : Bytes) (hud : userData.length = 256) (cseq : Nat) (ckey : Bytes) :
    ∃ data, ChallengeToken.generate a clientId userData cseq ckey = .ok (.challenge cseq data) ∧ data.length = 300 ∧
      ChallengeToken.decode a data cseq ckey = .ok ⟨clientId, userData⟩ := by
  refine ⟨_, NcAead.Token.ch_generate_eq a clientId userData hud cseq ckey, ?_,
    NcAead.Token.ch_decode_generate a hl clientId userData hc hud cseq ckey⟩
  rw [hl.seal_length]
  simp [NcAead.Token.chPlain, hud]

/-! ### tokens read from the wire -/

/-- **Every token `ConnectToken::read` accepts has a prefix-compact address array with at least one address** — and
    the field widths of its Rust type and the library's version string: it is `TokenWF`. -/
theorem read_is_prefix_compact (src : Bytes) (t : ConnectToken) (h : ConnectToken.read src = .ok t) :
    NcAead.Token.Compact t.serverAddresses ∧ TokenWF t :=
  ⟨(NcAead.Token.ct_read_wf h).compact, NcAead.Token.ct_read_wf h⟩

/-- **decode ∘ encode ∘ decode = decode for connect tokens**, unconditionally (since the repair of D19) -/
theorem token_reencode (src : Bytes) (t : ConnectToken) (h : ConnectToken.read src = .ok t) :
    ∃ b, t.write = .ok b ∧ ConnectToken.read b = .ok t := NcAead.Token.ct_reencode h

/-- the same for what the server does with a request's sealed part: whatever `PrivateConnectToken::decode` returns
    is well-formed (in particular its host list is prefix-compact, ≥ 1 host), so sealing it again and opening that
    gives the same token -/
theorem private_token_reencode (a : AEAD) (hl : a.Laws) (buf : Bytes) (proto expire : Nat) (xnonce key : Bytes)
    (t : PrivateConnectToken) (h : PrivateConnectToken.decode a buf proto expire xnonce key = .ok t) :
    PrivateTokenWF t ∧ ∃ sealed, t.encode a proto expire xnonce key = .ok sealed ∧
      PrivateConnectToken.decode a sealed proto expire xnonce key = .ok t := by
  have hwf := NcAead.Token.pt_decode_wf h
  obtain ⟨sealed, h1, _, h2⟩ := private_token_roundtrip a hl t hwf proto expire xnonce key
  exact ⟨hwf, sealed, h1, h2⟩

/-- the reader refuses an address list with a NONE entry in the middle (accepted before the repair of D19) -/
theorem read_rejects_hole :
    readServerAddresses ([3, 0, 0, 0] ++ [1, 127, 0, 0, 1, 136, 19] ++ [0] ++ [1, 10, 0, 0, 2, 112, 23]) = none :=
  NcAead.Token.read_rejects_hole

/-- Why `TokenWF` asks for compactness: the serialisation does not record *which* slots are empty.  A token *value*
    with a hole (slot 1 empty, slot 2 used) is written as two back-to-back addresses and read back into slots 0 and 1.
    No library path builds such a value: `generate` fills a prefix (`generate_wf`) and `read` returns compact arrays
    (`read_is_prefix_compact`). -/
theorem token_value_with_hole :
    let a1 := Addr.v4 [127, 0, 0, 1] 5000
    let a2 := Addr.v6 (List.replicate 16 1) 6000
    let holed : AddrArray := [some a1, none, some a2] ++ List.replicate 29 none
    readServerAddresses (NcAead.Token.addrsBytes holed) = some ([some a1, some a2] ++ List.replicate 30 none, []) :=
  NcAead.Token.hole_not_roundtrip

/-! ### the hypotheses are met by concrete, non-trivial values (`AEAD.toy`) -/

def exKey : Bytes := List.replicate 32 9
def exAddrs : List Addr := [Addr.v4 [127, 0, 0, 1] 5000, Addr.v6 (List.replicate 16 7) 65535, Addr.v4 [10, 0, 0, 2] 1]

-- an 8-byte sequence, a 6-byte sequence, sequence 0; every sealed kind; payload of the maximal size
example : (Netcode.Packet.challenge (2 ^ 64 - 1) (List.replicate 300 1)).WF ∧ (2 ^ 64 - 1 : Nat) < 2 ^ 64 ∧
    (Netcode.Packet.challenge (2 ^ 64 - 1) (List.replicate 300 1)).encode AEAD.toy 1400 77 (some (2 ^ 64 - 1, exKey)) =
      .ok (NcAead.Packet.sealedDatagram AEAD.toy (.challenge (2 ^ 64 - 1) (List.replicate 300 1)) 77 (2 ^ 64 - 1) exKey) := by
  decide +kernel
example : (Netcode.Packet.keepAlive (2 ^ 32 - 1) 1024).WF ∧
    ((Netcode.Packet.keepAlive (2 ^ 32 - 1) 1024).encode AEAD.toy 1400 77 (some (2 ^ 40 + 5, exKey))).isPanic = false ∧
    Netcode.Packet.decode AEAD.toy (NcAead.Packet.sealedDatagram AEAD.toy (.keepAlive (2 ^ 32 - 1) 1024) 77 (2 ^ 40 + 5) exKey)
      77 (some exKey) none = (.ok (2 ^ 40 + 5, .keepAlive (2 ^ 32 - 1) 1024), none) := by
  decide +kernel
example : (Netcode.Packet.payload (List.replicate 1300 3)).encode AEAD.toy 1400 77 (some (0, exKey)) =
    .ok (NcAead.Packet.sealedDatagram AEAD.toy (.payload (List.replicate 1300 3)) 77 0 exKey) := by
  decide +kernel
-- a buffer one byte too small is refused, not truncated
example : (Netcode.Packet.payload (List.replicate 1300 3)).encode AEAD.toy 1317 77 (some (0, exKey)) = .err .ioError := by
  decide +kernel
example : (Netcode.Packet.connectionRequest C.NETCODE_VERSION_INFO 77 1000 (List.replicate 24 5) (List.replicate 1024 6)).WF := by
  decide +kernel
-- a datagram with a non-minimal (3-byte) encoding of sequence 5 decodes, so `decode_reencode` is not about canonical bytes only
example : Netcode.Packet.decode AEAD.toy ([0x36, 5, 0, 0] ++ List.replicate 16 0) 77 (some exKey) none = (.ok (5, .disconnect), none) := by
  decide +kernel
-- tokens: three addresses of both families, extreme ports; 32 addresses
example : (ConnectToken.generate AEAD.toy 5000000000 77 30 (2 ^ 64 - 1) (-5) exAddrs (List.replicate 256 4) exKey exKey
    (List.replicate 24 5) exKey).isPanic = false ∧ (∀ x ∈ exAddrs, x.WF) := by
  decide +kernel
example : ∃ t, PrivateConnectToken.generate 12 15 (List.replicate 32 (Addr.v6 (List.replicate 16 7) 65535))
    (List.replicate 256 4) exKey exKey = .ok t := ⟨_, rfl⟩
example : AEAD.toy.Laws := AEAD.toy_laws

end RenetVerif.C16N
