/-
  The library's DEFAULT configuration (`ConnectionConfig::default()`, built from `DefaultChannel::config()`), ABOUT THE
  GENERATED CODE (group `Config`, `Generated/Src/Config.lean`, regenerated from `renet/src/channel/mod.rs` and
  `renet/src/remote_connection.rs` on every run).

  1. WHAT IT IS (`default_is`, `default_channels_are`, `default_channel_ids`): the generated functions return — without a
     panic — a closed term: three channels, ids 0 / 1 / 2, kinds Unreliable / ReliableUnordered / ReliableOrdered, 5 MiB
     each, 300 ms resend time, 60 000 bytes per tick, the same list in both directions; `u8::from(DefaultChannel::X)` is
     the id of the channel whose kind the name `X` promises.
  2. IT SATISFIES EVERY STATIC CONFIGURATION HYPOTHESIS of the headline theorems (one theorem per family, by evaluation):
     distinct ids per kind and direction (`CfgDistinct` / `PDistinct`: static conjunct of `RunInRange`, `CRunInRange`,
     `MRunInRange`), ids are bytes (`ChanBytes`, `GCountersOK.chan`), budgets in range (`ConnInRange` of the freshly built
     endpoints), the kind predicates `Cfg.Ordered 2` / `Cfg.Unordered 1` / `Cfg.Unreliable 0`, valid channel ids of API
     calls (`COpValid`), `SLICE_SIZE ≤` per-tick budget and `≤ availAtTurn` of the fresh connection at every reliable
     channel's turn, receive budgets = send budgets (static part of `Room`).
  3. HEADLINE THEOREMS INSTANTIATED for the default configuration with the configuration hypotheses gone
     (`default_ordered_prefix_end_to_end`, `default_unordered_once_end_to_end`, `default_integrity_unreliable_end_to_end`,
     `default_never_panics`, `default_datagrams_fit`, `default_emitted_roundtrip`).  What remains are the hypotheses on the
     RUN (`RunInRangeFrom` / `CRunInRangeFrom`: counters and clock in range along the run; counters of the final state).

  The hand model appears in statements only as the argument `defaultCfg` of the existing theorems' run functions; it is
  tied to the generated term by `default_is` / `gsys_init_default` (the endpoints of `GSys.init defaultCfg` ARE
  `RenetClient::new(ConnectionConfig::default())` and `RenetClient::new_from_server(ConnectionConfig::default())`).
-/
import RenetVerif.Lemmas.SrcEquiv.Config
import RenetVerif.Lemmas.SrcEquiv.SrcMulti
import RenetVerif.Props.SrcPropsSystem
import RenetVerif.Props.SrcPropsConnTrace
import RenetVerif.Props.SrcPropsConnTraceWF
set_option maxRecDepth 100000
namespace RenetVerif.SrcPropsDefaultConfig
open RenetVerif C RenetVerif.System RenetVerif.SrcEquiv RenetVerif.SrcSystem RenetVerif.SrcConnSystem
open RenetVerif.SrcEquiv.Config RenetVerif.FlushWF RenetVerif.Live
open RenetVerif.Src.renet.channel RenetVerif.Src.renet.remote_connection

/-! ## 1. what the generated default configuration is -/

/-- **`ConnectionConfig::default()` (generated) returns normally, and its value is the representation of `defaultCfg`**:
    60 000 bytes per tick and, in BOTH directions, the channel list of `DefaultChannel::config()`. -/
theorem default_is :
    (ConnectionConfig.default : Res Empty ConnectionConfig) =
      .ok { available_bytes_per_tick := defaultCfg.budget, server_channels_config := defaultCfg.send.map reprCfg,
            client_channels_config := defaultCfg.recv.map reprCfg } := by
  rw [default_eq, gDefaultConfig_repr]

/-- **the generated `DefaultChannel::config()` as a closed term** (evaluated on the generated definition): ids 0 / 1 / 2,
    5 · 1024 · 1024 bytes each, Unreliable / ReliableUnordered 300 ms / ReliableOrdered 300 ms (durations in ns). -/
theorem default_channels_are :
    (DefaultChannel.config : Res Empty (List ChannelConfig)) =
      .ok [⟨0, 5 * 1024 * 1024, .Unreliable⟩, ⟨1, 5 * 1024 * 1024, .ReliableUnordered (300 * 1000000)⟩,
           ⟨2, 5 * 1024 * 1024, .ReliableOrdered (300 * 1000000)⟩] := by decide +kernel

/-- … and `ConnectionConfig::default()` uses that list for both directions, with 60 000 bytes per tick -/
theorem default_both_directions :
    ∃ l, (DefaultChannel.config : Res Empty (List ChannelConfig)) = .ok l ∧
      (ConnectionConfig.default : Res Empty ConnectionConfig) = .ok ⟨60000, l, l⟩ := ⟨_, config_eq, default_eq⟩

/-- **`u8::from(DefaultChannel::X)` names the channel of kind `X`**: for every variant the generated conversion returns an
    id that the generated default configuration lists exactly once, with the delivery guarantee the variant's name
    promises (on the model side: `Cfg.Ordered` / `Cfg.Unordered` / `Cfg.Unreliable`, the hypotheses of C01 / C02 / C03). -/
theorem default_channel_ids (d : DefaultChannel) :
    ∃ id, (u8.from_DefaultChannel d : Res Empty Nat) = .ok id ∧
      (defaultCfg.send.filter (·.id == id)).map (·.kind) = [kindOf d] ∧
      (defaultCfg.recv.filter (·.id == id)).map (·.kind) = [kindOf d] := by
  cases d
  · exact ⟨0, rfl, by decide, by decide⟩
  · exact ⟨2, rfl, by decide, by decide⟩
  · exact ⟨1, rfl, by decide, by decide⟩

/-- the two endpoints of the generated two-endpoint system of `defaultCfg` are `RenetClient::new(default)` (A, the client)
    and `RenetClient::new_from_server(default)` (B, the server's connection object) -/
theorem gsys_init_default : ∃ d, (ConnectionConfig.default : Res Empty ConnectionConfig) = .ok d ∧
    GSys.init defaultCfg =
      match (RenetClient.new d : Res Empty _), (RenetClient.new_from_server d : Res Empty _) with
      | .ok a, .ok b =>
        some { a := a, b := b, outA := [], outB := [], submitted := fun _ => [], submittedU := fun _ => [],
               obtained := fun _ => [], deliveredToB := [] }
      | _, _ => none := by
  refine ⟨gDefaultConfig, default_eq, ?_⟩
  rw [new_default, new_from_server_default]
  rfl

/-- the single-endpoint trace system likewise starts from `RenetClient::new(default)` -/
theorem gconn_init_default : ∃ d, (ConnectionConfig.default : Res Empty ConnectionConfig) = .ok d ∧
    GConn.init defaultCfg = match (RenetClient.new d : Res Empty _) with | .ok c => some ⟨c, [], []⟩ | _ => none := by
  refine ⟨gDefaultConfig, default_eq, ?_⟩
  rw [new_default]
  rfl

/-! ## 2. the static configuration hypotheses, one theorem per family -/

/-- distinct channel ids per kind and direction: the static conjunct of `RunInRange` and `CRunInRange` (no `assert!` of
    `from_channels` fires) -/
theorem default_cfgDistinct : CfgDistinct defaultCfg := by decide +kernel

/-- the same for the multi-client server (`MRunInRange`), whose parameters are the two channel lists and the budget -/
theorem default_pDistinct : SrcMulti.PDistinct ⟨defaultCfg.budget, defaultCfg.send, defaultCfg.recv⟩ := by decide +kernel

/-- configured send channel ids are bytes (`ChanBytes`; also the field `chan` of `GCountersOK`) — in both directions -/
theorem default_chanBytes : ChanBytes defaultCfg ∧ ChanBytes ⟨defaultCfg.budget, defaultCfg.recv, defaultCfg.send⟩ := by
  decide +kernel

/-- budgets in range: both freshly built endpoints satisfy `ConnInRange` (send budgets `≤ 2^60`, receive budgets `≤ 2^63`,
    counters 0) — the static part of every `…RunInRangeFrom` -/
theorem default_init_inRange :
    ConnInRange (Sys.init defaultCfg).a ∧ ConnInRange (Sys.init defaultCfg).b ∧ ConnInRange (MTr.init defaultCfg).c := by
  decide +kernel

/-- the kind hypotheses of C01 / C02 / C03: channel 2 is ReliableOrdered, 1 ReliableUnordered, 0 Unreliable -/
theorem default_ordered : defaultCfg.Ordered 2 := by
  refine ⟨⟨_, List.mem_cons_of_mem _ (List.mem_cons_of_mem _ (List.mem_cons_self ..)), rfl, rfl⟩, ?_⟩
  decide
theorem default_unordered : defaultCfg.Unordered 1 := by
  refine ⟨⟨_, List.mem_cons_of_mem _ (List.mem_cons_self ..), rfl, rfl⟩, ?_⟩
  decide
theorem default_unreliable : defaultCfg.Unreliable 0 := by
  unfold Cfg.Unreliable; decide

/-- API calls on channel ids 0, 1, 2 use configured ids (`COpValid`, the hypothesis of `src_never_panics`) -/
def DefaultOp : COp → Prop
  | .send ch _ => ch < 3
  | .recv ch => ch < 3
  | _ => True

instance (op : COp) : Decidable (DefaultOp op) := by cases op <;> unfold DefaultOp <;> infer_instance

theorem default_opValid (op : COp) (h : DefaultOp op) : SrcPropsConnTrace.COpValid defaultCfg op := by
  cases op with
  | send ch m =>
    have h : ch < 3 := h
    show ch ∈ [0, 1, 2]
    have : ch = 0 ∨ ch = 1 ∨ ch = 2 := by omega
    rcases this with rfl | rfl | rfl <;> decide
  | recv ch =>
    have h : ch < 3 := h
    show ch ∈ [0, 1, 2]
    have : ch = 0 ∨ ch = 1 ∨ ch = 2 := by omega
    rcases this with rfl | rfl | rfl <;> decide
  | _ => trivial

/-- one slice fits the per-tick budget (`SLICE_SIZE ≤ B`, the hypothesis of the k-round delivery theorems with
    `B = available_bytes_per_tick`), and in the freshly built connection the budget left at the turn of EACH reliable channel
    is the whole 60 000 bytes (`SLICE_SIZE ≤ availAtTurn`) -/
theorem default_slice_fits :
    SLICE_SIZE ≤ defaultCfg.budget ∧
    availAtTurn (Conn.fromChannels defaultCfg.budget defaultCfg.send defaultCfg.recv) 1 = 60000 ∧
    availAtTurn (Conn.fromChannels defaultCfg.budget defaultCfg.send defaultCfg.recv) 2 = 60000 := by
  decide +kernel

/-- receive budgets = send budgets (the same list in both directions): the static part of `Room` — whatever fits the
    sender's `max_memory_usage_bytes` fits the receiver's -/
theorem default_symmetric :
    defaultCfg.recv = defaultCfg.send ∧
    ∀ c ∈ defaultCfg.send, ∃ c' ∈ defaultCfg.recv, c'.id = c.id ∧ c'.kind = c.kind ∧ c.maxMem ≤ c'.maxMem := by
  decide +kernel

/-- the resend time of the reliable channels is positive (a zero resend time would retransmit everything on every flush) and
    every budget holds at least one slice -/
theorem default_positive :
    ∀ c ∈ defaultCfg.send, (c.kind ≠ .unreliable → 0 < c.resend) ∧ SLICE_SIZE ≤ c.maxMem := by decide +kernel

/-! ## 2g. the same families, decided DIRECTLY ON THE GENERATED TERM

  `genCfg` reads the model configuration off whatever the generated `ConnectionConfig::default()` returns (`unreprCfg` is the
  inverse of `SrcEquiv.reprCfg`; the client's send list is `client_channels_config`, as in the generated `RenetClient::new`).
  Every theorem of this section is an evaluation of the generated definitions: change a default in the Rust source and
  exactly the affected ones stop checking (ids 2→1: `gen_cfgDistinct`; resend 300→0 ms and budget 5 MiB→0: `gen_positive`;
  all of them: `genCfg_is`). -/

def unreprCfg (c : ChannelConfig) : ChanCfg :=
  match c.send_type with
  | .Unreliable => ⟨c.channel_id, .unreliable, c.max_memory_usage_bytes, 0⟩
  | .ReliableOrdered r => ⟨c.channel_id, .ordered, c.max_memory_usage_bytes, r⟩
  | .ReliableUnordered r => ⟨c.channel_id, .unordered, c.max_memory_usage_bytes, r⟩

def genCfg : Cfg :=
  match (ConnectionConfig.default : Res Empty ConnectionConfig) with
  | .ok d => ⟨d.available_bytes_per_tick, d.client_channels_config.map unreprCfg, d.server_channels_config.map unreprCfg⟩
  | _ => ⟨0, [], []⟩

/-- the configuration read off the generated term is `defaultCfg` (all the theorems of sections 2 and 3 are about it) -/
theorem genCfg_is : genCfg.budget = defaultCfg.budget ∧ genCfg.send = defaultCfg.send ∧ genCfg.recv = defaultCfg.recv := by
  decide +kernel

theorem gen_returns : ∃ d, (ConnectionConfig.default : Res Empty ConnectionConfig) = .ok d ∧
    d.client_channels_config = genCfg.send.map reprCfg ∧ d.server_channels_config = genCfg.recv.map reprCfg ∧
    d.available_bytes_per_tick = genCfg.budget := ⟨_, default_eq, by decide +kernel, by decide +kernel, by decide +kernel⟩

theorem gen_cfgDistinct : CfgDistinct genCfg ∧ SrcMulti.PDistinct ⟨genCfg.budget, genCfg.send, genCfg.recv⟩ := by decide +kernel
theorem gen_chanBytes : ChanBytes genCfg ∧ ChanBytes ⟨genCfg.budget, genCfg.recv, genCfg.send⟩ := by decide +kernel
theorem gen_init_inRange :
    ConnInRange (Sys.init genCfg).a ∧ ConnInRange (Sys.init genCfg).b ∧ ConnInRange (MTr.init genCfg).c := by decide +kernel
theorem gen_kinds : (genCfg.send.filter (·.id == 2)).map (·.kind) = [.ordered] ∧
    (genCfg.send.filter (·.id == 1)).map (·.kind) = [.unordered] ∧
    (genCfg.send.filter (·.id == 0)).map (·.kind) = [.unreliable] ∧ genCfg.send.length = 3 := by decide +kernel
theorem gen_slice_fits : SLICE_SIZE ≤ genCfg.budget ∧
    availAtTurn (Conn.fromChannels genCfg.budget genCfg.send genCfg.recv) 1 = genCfg.budget ∧
    availAtTurn (Conn.fromChannels genCfg.budget genCfg.send genCfg.recv) 2 = genCfg.budget := by decide +kernel
theorem gen_symmetric : genCfg.recv = genCfg.send := by decide +kernel
theorem gen_positive :
    ∀ c ∈ genCfg.send, (c.kind ≠ .unreliable → 0 < c.resend) ∧ SLICE_SIZE ≤ c.maxMem := by decide +kernel

/-! ## 3. headline theorems for the default configuration -/

/-- the counters hypothesis of the end-to-end theorems WITHOUT its configuration field -/
structure DefaultCountersOK (g : GSys) : Prop where
  seq : g.a.packet_sequence ≤ Varint.MAX + 1
  ids : ∀ ch < 3, (g.submitted ch).length ≤ Varint.MAX + 1
  lens : ∀ ch < 3, ∀ m ∈ g.submitted ch, m.length ≤ MAX_NUM_SLICES * SLICE_SIZE
  lensU : ∀ ch < 3, ∀ m ∈ g.submittedU ch, m.length ≤ MAX_NUM_SLICES * SLICE_SIZE

theorem default_send_id_lt : ∀ c ∈ defaultCfg.send, c.id < 3 := by decide +kernel

theorem gcountersOK_of_default {g : GSys} (h : DefaultCountersOK g) : GCountersOK defaultCfg g :=
  ⟨default_chanBytes.1, h.seq, fun c hc => h.ids _ (default_send_id_lt c hc), fun c hc => h.lens _ (default_send_id_lt c hc),
   fun c hc => h.lensU _ (default_send_id_lt c hc)⟩

/-- **C01 for the default configuration.**  Two endpoints built by the generated `from_channels` from
    `ConnectionConfig::default()` (`gsys_init_default`), ANY schedule `ops` that the generated code runs through in range: on
    channel `u8::from(DefaultChannel::ReliableOrdered) = 2` what B's application obtained is a prefix of what A's submitted. -/
theorem default_ordered_prefix_end_to_end (ops : List SysOp) (g : GSys) (hr : GSys.exec defaultCfg ops = some g)
    (hrg : RunInRangeFrom (Sys.init defaultCfg) ops) (hc : DefaultCountersOK g) :
    g.obtained 2 <+: g.submitted 2 :=
  SrcPropsSystem.src_ordered_prefix_end_to_end defaultCfg ops g hr ⟨default_cfgDistinct, hrg⟩ (gcountersOK_of_default hc) 2
    default_ordered

/-- **C02 for the default configuration**: on channel `u8::from(DefaultChannel::ReliableUnordered) = 1` every obtained message
    is a submitted one, each at most once. -/
theorem default_unordered_once_end_to_end (ops : List SysOp) (g : GSys) (hr : GSys.exec defaultCfg ops = some g)
    (hrg : RunInRangeFrom (Sys.init defaultCfg) ops) (hc : DefaultCountersOK g) :
    ∃ ids : List Nat, ids.Nodup ∧ (g.obtained 1).map some = ids.map (fun id => (g.submitted 1)[id]?) :=
  SrcPropsSystem.src_unordered_once_end_to_end defaultCfg ops g hr ⟨default_cfgDistinct, hrg⟩ (gcountersOK_of_default hc) 1
    default_unordered

/-- **C03 for the default configuration**: on channel `u8::from(DefaultChannel::Unreliable) = 0` nothing is fabricated. -/
theorem default_integrity_unreliable_end_to_end (ops : List SysOp) (g : GSys) (hr : GSys.exec defaultCfg ops = some g)
    (hrg : RunInRangeFrom (Sys.init defaultCfg) ops) (hc : DefaultCountersOK g) :
    ∀ x ∈ g.obtained 0, x ∈ g.submittedU 0 :=
  SrcPropsSystem.src_integrity_unreliable_end_to_end defaultCfg ops g hr ⟨default_cfgDistinct, hrg⟩ (gcountersOK_of_default hc) 0
    default_unreliable

/-- **C06 for the default configuration**: a connection built from `ConnectionConfig::default()` runs ANY API trace on channel
    ids 0 / 1 / 2 — hostile byte strings to `process_packet` included — without a panic. -/
theorem default_never_panics (ops : List COp) (hv : ∀ op ∈ ops, DefaultOp op)
    (hrg : CRunInRangeFrom (MTr.init defaultCfg) ops) : ∃ g, GConn.exec defaultCfg ops = some g :=
  SrcPropsConnTrace.src_never_panics defaultCfg ops (fun op ho => default_opValid op (hv op ho)) ⟨default_cfgDistinct, hrg⟩

/-- **C13 for the default configuration**: every datagram of every flush is at most 1300 bytes long. -/
theorem default_datagrams_fit (ops : List COp) (g : GConn) (hg : GConn.exec defaultCfg ops = some g)
    (hrg : CRunInRangeFrom (MTr.init defaultCfg) ops) : ∀ bs ∈ g.flushes, ∀ b ∈ bs, b.length ≤ 1300 :=
  SrcPropsConnTrace.src_datagrams_fit defaultCfg ops g hg ⟨default_cfgDistinct, hrg⟩

/-- **C16 for the default configuration**: every emitted datagram is read back by the generated decoder as the packet it was
    written for (`ChanBytes` discharged). -/
theorem default_emitted_roundtrip (ops : List COp) (g : GConn) (hg : GConn.exec defaultCfg ops = some g)
    (hrg : CRunInRangeFrom (MTr.init defaultCfg) ops) (hl : MsgLenOK ops) :
    ∀ bs ∈ g.flushes, ∀ b ∈ bs, ∃ gp : SrcPropsConnTraceWF.GPacket,
      SrcPropsConnTraceWF.GSerialises gp b ∧ GDecodes b gp :=
  SrcPropsConnTraceWF.src_emitted_roundtrip defaultCfg ops g hg ⟨default_cfgDistinct, hrg⟩ default_chanBytes.1 hl

/-! ## non-vacuity: runs of the GENERATED code from the default configuration, executed by the kernel

  A message on each of the three default channels (the ordered one gets a second, 1300-byte = two-slice message), one flush
  (five datagrams: channel order 0, 1, 2 of `DefaultChannel::config()`), delivery with one datagram duplicated and the two
  slices swapped, receives, an ack flush back. -/
namespace Ex
def big : Bytes := List.replicate 1200 7 ++ List.replicate 100 9
def ops : List SysOp :=
  [.sendA 2 [1, 2, 3], .sendA 1 [9], .sendA 0 [7, 7], .sendA 2 big, .flushA,
   .deliverToB 0, .deliverToB 1, .deliverToB 1, .deliverToB 2, .deliverToB 4, .deliverToB 3,
   .recvB 0, .recvB 1, .recvB 2, .recvB 2, .recvB 2, .updA 1000, .flushB, .deliverToA 0]
def gfin : GSys := (GSys.exec defaultCfg ops).getD SrcPropsSystem.gzero

/-- the run hypothesis of the corollaries holds … -/
theorem inRange : RunInRangeFrom (Sys.init defaultCfg) ops := by decide +kernel
/-- … the generated code (constructor `from_channels` on the default channel lists included) runs through … -/
theorem grun : GSys.exec defaultCfg ops = some gfin := some_getD (by decide +kernel) _
/-- … and this is what happened -/
theorem gfacts :
    (gfin.a.packet_sequence ≤ Varint.MAX + 1 ∧ (∀ ch < 3, (gfin.submitted ch).length ≤ Varint.MAX + 1) ∧
      (∀ ch < 3, ∀ m ∈ gfin.submitted ch, m.length ≤ MAX_NUM_SLICES * SLICE_SIZE) ∧
      (∀ ch < 3, ∀ m ∈ gfin.submittedU ch, m.length ≤ MAX_NUM_SLICES * SLICE_SIZE)) ∧
    (gfin.outA.length = 5 ∧ gfin.submitted 2 = [[1, 2, 3], toNats big] ∧ gfin.obtained 2 = [[1, 2, 3], toNats big] ∧
      gfin.submitted 1 = [[9]] ∧ gfin.obtained 1 = [[9]] ∧ gfin.submittedU 0 = [[7, 7]] ∧ gfin.obtained 0 = [[7, 7]]) := by
  decide +kernel
theorem gcounters : DefaultCountersOK gfin := ⟨gfacts.1.1, gfacts.1.2.1, gfacts.1.2.2.1, gfacts.1.2.2.2⟩

example : gfin.obtained 2 <+: gfin.submitted 2 := default_ordered_prefix_end_to_end ops gfin grun inRange gcounters
example : ∃ ids : List Nat, ids.Nodup ∧ (gfin.obtained 1).map some = ids.map (fun id => (gfin.submitted 1)[id]?) :=
  default_unordered_once_end_to_end ops gfin grun inRange gcounters
example : ∀ x ∈ gfin.obtained 0, x ∈ gfin.submittedU 0 :=
  default_integrity_unreliable_end_to_end ops gfin grun inRange gcounters

/-- an API trace of ONE default connection: messages on all three channels, a hostile byte string, two flushes -/
def cops : List COp :=
  [.setConnected, .send 2 [1, 2, 3], .send 1 big, .send 0 [7, 7], .recv 0, .flush, .process [255, 0, 1], .update 1000,
   .recv 2, .flush]
def cfin : GConn := (GConn.exec defaultCfg cops).getD SrcPropsConnTraceC08.Ex.gzero

theorem cvalid : ∀ op ∈ cops, DefaultOp op := by decide +kernel
theorem cinRange : CRunInRangeFrom (MTr.init defaultCfg) cops := by decide +kernel
theorem clen : MsgLenOK cops := by decide +kernel
theorem crun : GConn.exec defaultCfg cops = some cfin := some_getD (by decide +kernel) _
/-- the first flush returned four datagrams (unreliable small, two slices, reliable small) -/
theorem cfacts : cfin.flushes.map (·.map (·.length)) ≠ [] ∧ (cfin.flushes.map (·.length)).sum ≥ 4 := by decide +kernel

example : ∃ g, GConn.exec defaultCfg cops = some g := default_never_panics cops cvalid cinRange
example : ∀ bs ∈ cfin.flushes, ∀ b ∈ bs, b.length ≤ 1300 := default_datagrams_fit cops cfin crun cinRange
example : ∀ bs ∈ cfin.flushes, ∀ b ∈ bs, ∃ gp : SrcPropsConnTraceWF.GPacket,
    SrcPropsConnTraceWF.GSerialises gp b ∧ GDecodes b gp := default_emitted_roundtrip cops cfin crun cinRange clen

end Ex

end RenetVerif.SrcPropsDefaultConfig
