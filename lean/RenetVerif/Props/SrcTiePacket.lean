/-
  Source tie: the Lean definitions that /verif/translator derives from the CURRENT Rust text
  (`RenetVerif/Generated/Src.lean`, namespace `RenetVerif.Src`, regenerated on every check run) compute
  exactly what the hand-written model computes.  If one of these Rust functions is edited, the
  regenerated text changes and these theorems are re-checked against it.

  Conventions: generated integers are `Nat`s (a `uN` argument is assumed `< 2^N` where it matters, stated
  as a hypothesis), arrays/`Vec`s/slices are `List`s.  `absRP`/`absSC`/`absPT`/`absErr` are the abstraction
  functions generated type → model type, `reprRP`/`reprSC`/`toNats` their (right-)inverses on well-formed
  values; `WfRP`, `WfSC`, `BytesOk` are decidable (so is `p.enc = .ok bytes` in part D).  `SameOutcome` compares `ok`/`err` values exactly and
  panics up to the text of the site.
-/
import RenetVerif.Lemmas.SrcEquiv.Packet
namespace RenetVerif.SrcTie
open RenetVerif RenetVerif.SrcEquiv

/-! ## D. `renet/src/packet.rs` `Packet::to_bytes` (over the octets model of RustSem) ↔ `Packet.enc` / `Packet.toBytes` -/
section D
open RustSem

/-- `SerializationError` generated ↦ model -/
def absSerErr : Src.renet.packet.SerializationError → SerErr
  | .BufferTooShort => .bufferTooShort | .InvalidNumSlices => .invalidNumSlices
  | .SliceSizeAboveLimit => .sliceSizeAboveLimit | .EmptySlice => .emptySlice
  | .InvalidAckRange => .invalidAckRange | .InvalidPacketType => .invalidPacketType

/-- `Packet::to_bytes` on ANY cursor (`off ≤ buf.len()`), for every model packet whose model encoding is defined
    (`p.enc = .ok bytes`: all varints `< 2^62`, ack ranges non-empty and ordered — decidable): if the bytes fit,
    exactly the model's bytes are written at the offset, the offset advances and their number is returned;
    otherwise `Err(BufferTooShort)`.  No panic.  (`Res.forget`: an `Err` of the generated function also carries the
    cursor as the failed write left it; the model does not track it.) -/
theorem packet_to_bytes (p : Packet) (b : OctetsMut) (hb : b.off ≤ b.buf.length) (bytes : Bytes)
    (henc : p.enc = .ok bytes) :
    (Src.renet.packet.Packet.to_bytes (reprPacket p) b).forget =
      if b.off + bytes.length ≤ b.buf.length then
        .ok ({ buf := b.buf.take b.off ++ toNats bytes ++ b.buf.drop (b.off + bytes.length), off := b.off + bytes.length },
             bytes.length)
      else .err .BufferTooShort := by
  have := to_bytes_eq p b hb bytes henc
  simpa [finish, owrite, toNats_length] using this

/-- on a fresh buffer: the written prefix / the error is what the model's `Packet.toBytes buf.len()` returns -/
theorem packet_to_bytes_fresh (p : Packet) (buf : List Nat) (bytes : Bytes) (henc : p.enc = .ok bytes) :
    mapRes (fun r => ofNats (r.1.buf.take r.2)) absSerErr
        (Src.renet.packet.Packet.to_bytes (reprPacket p) (OctetsMut.with_slice buf)).forget =
      Packet.toBytes buf.length p := by
  have h := packet_to_bytes p (OctetsMut.with_slice buf) (Nat.zero_le _) bytes henc
  rw [h]
  unfold Packet.toBytes
  rw [henc]
  simp only [OctetsMut.with_slice, Nat.zero_add, List.take_zero, List.nil_append, Res.bind_ok]
  by_cases hfit : bytes.length ≤ buf.length
  · rw [if_pos hfit, if_pos hfit]
    simp only [mapRes, Res.pure_eq]
    congr 1
    have hl : (toNats bytes).length = bytes.length := toNats_length _
    rw [List.take_append_of_le_length (by omega), List.take_of_length_le (by omega), ofNats_toNats]
  · rw [if_neg hfit, if_neg hfit]; rfl

/-- a SmallReliable packet with one 3-byte message into an 16-byte buffer -/
example :
    Src.renet.packet.Packet.to_bytes (.SmallReliable 5 1 [(7, [9, 9, 9])]) (OctetsMut.with_slice (List.replicate 16 0)) =
      .ok (⟨[0, 5, 1, 0, 1, 7, 3, 9, 9, 9, 0, 0, 0, 0, 0, 0], 10⟩, 10) := by decide +kernel
/-- a two-byte varint (sequence 300 = 0x412c) and a buffer that is too short -/
example :
    Src.renet.packet.Packet.to_bytes (.Ack 300 [⟨10, 20⟩, ⟨35, 40⟩]) (OctetsMut.with_slice (List.replicate 9 0)) =
      .ok (⟨[4, 0x41, 0x2c, 39, 4, 1, 14, 9, 0], 8⟩, 8) := by decide +kernel
example :
    Src.renet.packet.Packet.to_bytes (.Ack 300 [⟨10, 20⟩, ⟨35, 40⟩]) (OctetsMut.with_slice (List.replicate 7 0)) =
      .err (.BufferTooShort, ⟨[4, 0x41, 0x2c, 39, 4, 1, 14], 7⟩) := by decide +kernel

/-- `Packet::from_bytes` on a read cursor over `pre ++ rest` standing after `pre` (every byte sequence, every
    position): it never panics; it returns the model decoder's packet and leaves the cursor where the model's
    remaining input starts, or fails with the model's error. -/
theorem packet_from_bytes (pre rest : Bytes) :
    (Src.renet.packet.Packet.from_bytes ⟨toNats (pre ++ rest), pre.length⟩).forget =
      match Packet.decode rest with
      | .ok (p, r) => .ok (⟨toNats (pre ++ rest), (pre ++ rest).length - r.length⟩, reprPacket p)
      | .error e => .err (reprSerErr e) := by
  have h := from_bytes_eq (pre ++ rest) rest (List.suffix_append pre rest)
  have hc : cur (pre ++ rest) rest = ⟨toNats (pre ++ rest), pre.length⟩ := by
    simp [cur]
  rw [hc] at h
  rw [h]
  cases Packet.decode rest with
  | error e => rfl
  | ok x => rfl

/-- on a fresh cursor: the packet / error of the model's `Packet.fromBytes` -/
theorem packet_from_bytes_fresh (buf : Bytes) :
    mapRes Prod.snd id (Src.renet.packet.Packet.from_bytes (Octets.with_slice (toNats buf))).forget =
      match Packet.fromBytes buf with
      | .ok p => .ok (reprPacket p)
      | .error e => .err (reprSerErr e) := by
  have h := packet_from_bytes [] buf
  simp only [List.nil_append, List.length_nil] at h
  unfold Octets.with_slice Packet.fromBytes
  rw [h]
  cases Packet.decode buf with
  | error e => rfl
  | ok x => rfl

/-! test vectors for the generated `from_bytes` -/
example :
    Src.renet.packet.Packet.from_bytes (Octets.with_slice [0, 5, 1, 0, 1, 7, 3, 9, 9, 9, 0, 0]) =
      .ok (⟨[0, 5, 1, 0, 1, 7, 3, 9, 9, 9, 0, 0], 10⟩, .SmallReliable 5 1 [(7, [9, 9, 9])]) := by decide +kernel
example :
    Src.renet.packet.Packet.from_bytes (Octets.with_slice [4, 0x41, 0x2c, 39, 4, 1, 14, 9]) =
      .ok (⟨[4, 0x41, 0x2c, 39, 4, 1, 14, 9], 8⟩, .Ack 300 [⟨10, 20⟩, ⟨35, 40⟩]) := by decide +kernel
example : Src.renet.packet.Packet.from_bytes (Octets.with_slice [2, 5, 1, 7, 0, 0, 1, 9]) =
    .err (.InvalidNumSlices, ⟨[2, 5, 1, 7, 0, 0, 1, 9], 6⟩) := by decide +kernel
example : Src.renet.packet.Packet.from_bytes (Octets.with_slice [4, 0x41]) = .err (.BufferTooShort, ⟨[4, 0x41], 1⟩) := by
  decide +kernel
example : Src.renet.packet.Packet.from_bytes (Octets.with_slice [9]) = .err (.InvalidPacketType, ⟨[9], 1⟩) := by decide +kernel
end D

end RenetVerif.SrcTie
