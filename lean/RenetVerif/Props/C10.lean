/-
  C10 — Netcode connection table: unique ids, unique addresses, bounded by max_clients; ClientConnected /
  ClientDisconnected come in matched pairs; lookups by id refer to the authenticated session; a full server refuses
  further handshakes without disturbing existing sessions.

  Model: RenetVerif/Netcode/Server.lean (renetcode/src/server.rs).  Proofs: Lemmas/NcTable.lean (invariant `ServerInv`,
  the operations other than `process_packet`), Lemmas/NcTablePP.lean (`process_packet`, symbolically executed:
  `PPOut`), Lemmas/NcTableEvents.lean (`Reach`, event log, lookups, capacity).  The AEAD is a parameter everywhere;
  nothing here assumes anything about it (hostile datagrams included).

  `ServerInv s` (Lemmas/NcTable.lean):
    (`At cl i c` : slot `i` of the slot list `cl` holds connection `c`, i.e. `cl[i]? = some (some c)`)
    slots      connected slots have pairwise distinct `client_id`s, pairwise distinct `addr`s, all in state Connected
    slotsOK    their timers are not in the future, their timeout fits an i32
    pend       half-open sessions are keyed by their own address, in state PendingResponse, sequence 0, and
               no half-open address is a connected address
    pendKeys   the pending association list has no duplicate keys;  pendLen: at most NETCODE_MAX_PENDING_CLIENTS
    entries    the MACs in the token-entry table are pairwise distinct;  entriesPos: the table is not empty
               (`TableLen`: it has NETCODE_TOKEN_ENTRIES entries from `new` on — `new_inv`, `step_tableLen`)
    maxLe      max_clients ≤ number of slots ≤ NETCODE_MAX_CLIENTS (`set_max_clients` grows the slot list, never
               shrinks it)
-/
import RenetVerif.Props.C05
namespace RenetVerif.C10
open RenetVerif RenetVerif.Netcode RenetVerif.Netcode.NS

/-! ## the invariant: established by `new`, preserved by every operation on every input -/

/-- `NetcodeServer::new` (which succeeds iff `max_clients ≤ NETCODE_MAX_CLIENTS`) establishes the invariant -/
theorem inv_new {t m pid : Nat} {pa : List Addr} {sec : Bool} {k ck : Bytes} {s : NetcodeServer}
    (h : NetcodeServer.new t m pid pa sec k ck = .ok s) : ServerInv s ∧ TableLen s ∧ s.clients.length = s.maxClients := by
  obtain ⟨h1, h2, h3, _, _, _, h4⟩ := new_inv h
  exact ⟨h1, h4, by rw [h2, h3, List.length_replicate]⟩

/-- **Every public operation preserves the invariant, for every input** — `process_packet` for any source address and
    any bytes, `update`, `update_client`, `disconnect`, `set_max_clients`, `generate_payload_packet` (`Op`, `step`). -/
theorem inv_step {a : AEAD} {s s' : NetcodeServer} {op : Op} {r : ServerResult} (hi : ServerInv s)
    (h : step a s op = some (r, s')) : ServerInv s' := step_inv hi h

/-- the token-entry table keeps its length -/
theorem step_tableLen {a : AEAD} {s s' : NetcodeServer} {op : Op} {r : ServerResult} (hi : ServerInv s)
    (h : step a s op = some (r, s')) : s'.connectTokenEntries.length = s.connectTokenEntries.length := by
  have hcr : ∀ {s0 : NetcodeServer} {addr : Addr} {v : Bytes} {pid expire : Nat} {xnonce data : Bytes}
      {R : NetcodeServer.SRes} {r : ServerResult} {s' : NetcodeServer},
      HcrOut a s0 addr v pid expire xnonce data R → HcrRes R r s' →
      s'.connectTokenEntries.length = s0.connectTokenEntries.length := by
    intro s0 addr v pid expire xnonce data R r s' ho hr
    have hstep : ∀ {s1 : NetcodeServer} {ne : ConnectTokenEntry}, EntryStep s0 s1 ne →
        s1.connectTokenEntries.length = s0.connectTokenEntries.length := by
      intro s1 ne h; rcases h with rfl | ⟨_, k, rfl⟩ <;> simp
    cases ho with
    | err e => rcases hr with h | ⟨rfl, e', h⟩ <;> cases h; rfl
    | none => rcases hr with h | ⟨rfl, e', h⟩ <;> cases h; rfl
    | deniedErr t s1 e _ hs =>
      rcases hr with h | ⟨rfl, e', h⟩ <;> cases h
      exact (hstep hs : s1.connectTokenEntries.length = _)
    | denied t s1 out _ hs =>
      rcases hr with h | ⟨rfl, e', h⟩ <;> cases h
      exact (hstep hs : s1.connectTokenEntries.length = _)
    | challengeErr t s1 e _ hs =>
      rcases hr with h | ⟨rfl, e', h⟩ <;> cases h
      exact (hstep hs : s1.connectTokenEntries.length = _)
    | challenge t s1 pkt out _ hs =>
      rcases hr with h | ⟨rfl, e', h⟩ <;> cases h
      exact (hstep hs : s1.connectTokenEntries.length = _)
  cases op with
  | packet addr buf =>
    simp only [step] at h
    cases hp : s.processPacket a addr buf with
    | ok x =>
      rw [hp] at h; cases h
      have ho := pp_ok hi hp
      cases ho with
      | pendRequest p sq v pid expire xnonce data w' R _ _ hfa hpf hdec hout hres =>
        have h := hcr hout hres; exact h
      | newRequest sq v pid expire xnonce data R _ _ hfa hpf hdec hout hres => exact hcr hout hres
      | _ => rfl
    | err e => exact e.elim
    | panic m => rw [hp] at h; cases h
  | update d =>
    simp only [step] at h
    cases hp : s.update d with
    | ok x => rw [hp] at h; cases h; rw [update_ok hp]
    | err e => exact e.elim
    | panic m => rw [hp] at h; cases h
  | updateClient id =>
    simp only [step] at h
    cases hp : s.updateClient a id with
    | ok x =>
      rw [hp] at h; cases h
      cases hf : findClientSlotById s.clients id with
      | none => rw [updateClient_absent a hf] at hp; cases hp; rfl
      | some i =>
        obtain ⟨c, hc, hid, _⟩ := findSlot_some hf
        rcases updateClient_spec a hi hf hc with ⟨_, o, e⟩ | ⟨_, e | ⟨out, _, _, e⟩⟩ | ⟨⟨m, e⟩, _⟩ <;>
          (rw [e] at hp; cases hp) <;> rfl
    | err e => exact e.elim
    | panic m => rw [hp] at h; cases h
  | disconnect id =>
    simp only [step] at h
    cases hp : s.disconnect a id with
    | ok x =>
      rw [hp] at h; cases h
      rcases disconnect_spec a s id with ⟨_, e⟩ | ⟨i, c, o, _, _, _, e⟩ <;> (rw [e] at hp; cases hp) <;> rfl
    | err e => exact e.elim
    | panic m => rw [hp] at h; cases h
  | setMaxClients m =>
    simp only [step, Option.some.injEq, Prod.mk.injEq] at h
    rw [← h.2, (setMaxClients_eq s m).2.2.2.1]
  | sendPayload id p =>
    simp only [step] at h
    cases hp : s.generatePayloadPacket a id p with
    | ok x =>
      obtain ⟨⟨ad, out⟩, s''⟩ := x
      rw [hp] at h; cases h
      obtain ⟨i, c, _, _, _, _, _, rfl⟩ := generatePayload_ok hp
      rfl
    | err e => rw [hp] at h; cases h; rfl
    | panic m => rw [hp] at h; cases h

/-- **No operation unwinds under the invariant while the checked counters have room** (`Headroom`: the two global
    `u64` sequence numbers and every session's sequence number are below `u64::MAX`, the clock is at least 2^31 s
    below `Duration::MAX`; `update(d)` additionally needs `now + d ≤ Duration::MAX`).  These are the only unwinding
    sites left in `server.rs` (debug-profile arithmetic checks): reachable only after 2^63 datagrams / 5·10^11 years. -/
theorem step_no_panic (a : AEAD) {s : NetcodeServer} (hi : ServerInv s) (hh : Headroom s) (op : Op)
    (hd : ∀ d, op = .update d → s.currentTime + d ≤ DURATION_MAX) : ∃ r s', step a s op = some (r, s') := by
  cases op with
  | packet addr buf =>
    obtain ⟨r, s', h, _⟩ := pp_spec a hi hh.global hh.challenge addr buf
    exact ⟨r, s', by simp only [step, h]⟩
  | update d =>
    obtain ⟨s', h⟩ := update_ne_panic (hd d rfl)
    exact ⟨.none, s', by simp only [step, h]⟩
  | updateClient id =>
    obtain ⟨r, s', h⟩ := updateClient_ne_panic a id hi hh
    exact ⟨r, s', by simp only [step, h]⟩
  | disconnect id =>
    rcases disconnect_spec a s id with ⟨_, e⟩ | ⟨i, c, o, _, _, _, e⟩
    · exact ⟨.none, s, by simp only [step, e]⟩
    · exact ⟨.clientDisconnected id c.addr o, { s with clients := s.clients.set i none }, by simp only [step, e]⟩
  | setMaxClients m => exact ⟨_, _, rfl⟩
  | sendPayload id p =>
    cases hp : s.generatePayloadPacket a id p with
    | ok x => obtain ⟨⟨ad, out⟩, s''⟩ := x; exact ⟨.packetToSend ad out, s'', by simp only [step, hp]⟩
    | err e => exact ⟨.none, s, by simp only [step, hp]⟩
    | panic m => exact absurd hp (generatePayload_ne_panic a id p hh m)

/-- without room the arithmetic check does fire (model of the debug profile): the counter hypothesis is needed -/
theorem counter_overflow_unwinds :
    step Ex.a { Ex.s0 with globalSequence := U64_MAX } (.packet Ex.addrA Ex.reqA) = none := by decide +kernel

/-! ## reachable states -/

/-- **At all times the connected clients have pairwise distinct ids and pairwise distinct addresses**, are in state
    Connected, and `clients_id()` has no repetition.  (`Reach a s log`: `s` is reachable from `NetcodeServer::new` —
    `Reach.new` — by any sequence of operations with any inputs; `log` = the ClientConnected / ClientDisconnected
    results so far.) -/
theorem distinct {a : AEAD} {s : NetcodeServer} {log : List Event} (hr : Reach a s log) :
    (∀ i j ci cj, At s.clients i ci → At s.clients j cj → ci.clientId = cj.clientId → i = j) ∧
    (∀ i j ci cj, At s.clients i ci → At s.clients j cj → ci.addr = cj.addr → i = j) ∧
    (∀ i c, At s.clients i c → c.state = .connected) ∧ s.clientsId.Nodup :=
  ⟨hr.inv.slots.ids, hr.inv.slots.addrs, hr.inv.slots.conn, clientsId_nodup hr.inv.slots⟩

/-- the connected clients never outnumber the slots; the limit never exceeds the slots (≤ NETCODE_MAX_CLIENTS) -/
theorem count_le_slots {a : AEAD} {s : NetcodeServer} {log : List Event} (hr : Reach a s log) :
    s.connectedClients ≤ s.clients.length ∧ s.maxClients ≤ s.clients.length ∧
    s.clients.length ≤ Netcode.C.NETCODE_MAX_CLIENTS := hr.count_le_slots

/-- **As long as the limit is not lowered at run time** (`ReachNL`: every `set_max_clients m` has
    `m ≥ max_clients`) **the connected clients number at most `max_clients`** — there are then exactly `max_clients`
    slots, so the free-slot search at response time is the effective capacity check.  Two half-open sessions racing
    for the last slot both pass the request-time test `connected < max_clients`; the second response finds no free
    slot and is answered `ConnectionDenied` (example below). -/
theorem count_le_max {a : AEAD} {s : NetcodeServer} (h : ReachNL a s) :
    s.clients.length = s.maxClients ∧ s.connectedClients ≤ s.maxClients := h.count_le_max

/-- **The proviso is needed, and "not lowered below the current count" is not enough.**  Lower the limit of a fresh
    2-slot server to 1 (no client connected), then let two handshakes interleave: both requests pass
    `connected (0) < max_clients (1)`, both responses find a free slot (there are still 2), two clients are
    connected with `max_clients = 1`.  (Rust: `set_max_clients` only stores the number; `clients` keeps its length.) -/
theorem count_exceeds_after_lowering :
    (Ex.run Ex.s0 [.setMaxClients 1, .packet Ex.addrA Ex.reqA, .packet Ex.addrB Ex.reqB, .packet Ex.addrA Ex.respA,
        .packet Ex.addrB Ex.respB]).map (fun s => (s.connectedClients, s.maxClients, s.clientsId)) =
      some (2, 1, [11, 12]) := by decide +kernel

/-! ## ClientConnected / ClientDisconnected discipline -/

/-- the log of a reachable state replays against the live-session set (`replay`: `connected id addr ud` is admissible
    only when neither `id` nor `addr` is live; `disconnected id addr` only when a live session has that id and
    address, and ends it), and what it leaves live is exactly the occupied slots -/
theorem log_replays {a : AEAD} {s : NetcodeServer} {log : List Event} (hr : Reach a s log) :
    ∃ L, replay log [] = some L ∧ Distinct L ∧
      ∀ id ad ud, (id, ad, ud) ∈ L ↔ ∃ i c, At s.clients i c ∧ c.clientId = id ∧ c.addr = ad ∧ c.userData = ud := by
  obtain ⟨L, hL, ha⟩ := hr.log
  exact ⟨L, hL, replay_distinct log [] L hL ⟨List.nodup_nil, List.nodup_nil⟩, ha⟩

/-- **No ClientDisconnected for a client that was not connected**: a `disconnected id addr` event is preceded by a
    `connected id addr _` event with no `disconnected id addr` in between (same id *and* same address). -/
theorem disconnected_only_after_connected {a : AEAD} {s : NetcodeServer} {pre post : List Event} {id : Nat} {ad : Addr}
    (hr : Reach a s (pre ++ .disconnected id ad :: post)) :
    ∃ ud l1 l2, pre = l1 ++ .connected id ad ud :: l2 ∧ Event.disconnected id ad ∉ l2 := by
  obtain ⟨L, hL, _⟩ := hr.log
  exact replay_disconnected hL

/-- **Every ClientConnected is matched by at most one ClientDisconnected**: between two `disconnected id _` events
    lies a `connected id _ _` event (with the address the second one names). -/
theorem at_most_one_disconnected {a : AEAD} {s : NetcodeServer} {pre mid post : List Event} {id : Nat} {ad ad' : Addr}
    (hr : Reach a s (pre ++ .disconnected id ad :: (mid ++ .disconnected id ad' :: post))) :
    ∃ ud, Event.connected id ad' ud ∈ mid := by
  obtain ⟨L, hL, _⟩ := hr.log
  exact replay_disconnected_twice hL

/-- no second `connected id …` before the `disconnected id addr` that ends the first (ids are never connected twice) -/
theorem no_second_connected {a : AEAD} {s : NetcodeServer} {pre mid post : List Event} {id : Nat} {ad ad' : Addr}
    {ud ud' : Bytes} (hr : Reach a s (pre ++ .connected id ad ud :: (mid ++ .connected id ad' ud' :: post))) :
    Event.disconnected id ad ∈ mid := by
  obtain ⟨L, hL, _⟩ := hr.log
  exact replay_connected_twice hL

/-- what each result says about the slot table (`TableStep`): `ClientConnected id addr ud` fills a free slot with a
    session of exactly that id, address and user data, neither id nor address having been connected;
    `ClientDisconnected id addr` frees the slot of the session with that id and address; every other result leaves the
    sessions (id, address, user data, keys, timeout of each slot) as they were (`set_max_clients`: appends free slots). -/
theorem table_step {a : AEAD} {s s' : NetcodeServer} {op : Op} {r : ServerResult} (hi : ServerInv s)
    (h : step a s op = some (r, s')) : TableStep s.clients s'.clients r ∨ (r = .none ∧ Grown s.clients s'.clients) :=
  step_table hi h

/-! ## lookups -/

/-- **Lookups by id refer to the session that was authenticated for that id**: `client_addr(id)` and `user_data(id)`
    answer with the address / user data of the latest `ClientConnected id addr ud` not followed by
    `ClientDisconnected id addr`; `is_client_connected(id)` iff there is one. -/
theorem lookups {a : AEAD} {s : NetcodeServer} {log : List Event} (hr : Reach a s log) {id : Nat} {ad : Addr}
    {ud : Bytes} (h1 : s.clientAddr id = some ad) (h2 : s.userData id = some ud) :
    s.isClientConnected id = true ∧
    ∃ l1 l2, log = l1 ++ .connected id ad ud :: l2 ∧ Event.disconnected id ad ∉ l2 := by
  refine ⟨?_, hr.lookup_session h1 h2⟩
  obtain ⟨L, hL, _⟩ := hr.log
  exact ((hr.lookups hL id).2.2.1).mpr ⟨ad, ud, (hr.lookups hL id).2.2.2 ad ud h1 h2⟩

/-- payload routing, outbound: `generate_payload_packet(id, …)` addresses the datagram to `client_addr(id)` and seals
    it with that session's send key and sequence number -/
theorem payload_routing_out {a : AEAD} {s s' : NetcodeServer} {log : List Event} (hr : Reach a s log) {id : Nat}
    {payload out : Bytes} {ad : Addr} (h : s.generatePayloadPacket a id payload = .ok ((ad, out), s')) :
    s.clientAddr id = some ad ∧
    ∃ i c, At s.clients i c ∧ c.clientId = id ∧ c.addr = ad ∧
      (Packet.payload payload).encode a Netcode.C.NETCODE_MAX_PACKET_BYTES s.protocolId (some (c.sequence, c.sendKey)) = .ok out := by
  obtain ⟨L, hL, _⟩ := hr.log
  refine ⟨(hr.sendPayload_target hL h).1, ?_⟩
  obtain ⟨i, c, _, hc, hid, had, hen, _⟩ := generatePayload_ok h
  exact ⟨i, c, hc, hid, had.symm, hen⟩

/-- payload routing, inbound: a payload surfaced from a datagram of source `addr` carries the id of the session
    connected from `addr`, and the datagram decoded under that session's receive key and replay window -/
theorem payload_routing_in {a : AEAD} {s s' : NetcodeServer} {log : List Event} (hr : Reach a s log) {addr : Addr}
    {buf p : Bytes} {id : Nat} (h : s.processPacket a addr buf = .ok (.payload id p, s')) :
    s.clientAddr id = some addr ∧
    ∃ i c sq w', At s.clients i c ∧ c.clientId = id ∧ c.addr = addr ∧
      Packet.decode a buf s.protocolId (some c.receiveKey) (some c.replayProtection) = (.ok (sq, .payload p), some w') := by
  obtain ⟨L, hL, _⟩ := hr.log
  exact ⟨(hr.payload_source hL h).1, ppOut_payload (pp_ok hr.inv h)⟩

/-! ## a full server -/

/-- **When no slot is free** (if the limit was never lowered: exactly when `connected ≥ max_clients`,
    `count_le_max` + `firstFree_none_count`) **a datagram from an address that is not connected — request, response,
    anything — changes no slot; the answer is nothing or a `ConnectionDenied` to that address.** -/
theorem full_refuses {a : AEAD} {s s' : NetcodeServer} {addr : Addr} {buf : Bytes} {r : ServerResult}
    (hi : ServerInv s) (hfull : firstFreeSlot s.clients = none) (hna : findClientByAddr s.clients addr = none)
    (h : s.processPacket a addr buf = .ok (r, s')) :
    s'.clients = s.clients ∧ (r = .none ∨ ∃ out, r = .packetToSend addr out ∧ IsDenied a s out) :=
  processPacket_full hi hfull hna h

/-- no free slot ⇔ as many sessions as slots; with the limit never lowered: ⇔ `connected_clients() = max_clients` -/
theorem full_iff {a : AEAD} {s : NetcodeServer} (h : ReachNL a s) :
    firstFreeSlot s.clients = none ↔ s.connectedClients = s.maxClients := by
  rw [firstFree_none_count, h.count_le_max.1]; rfl

/-- a connection request arriving while `connected ≥ max_clients` (whether or not a slot is free) changes no slot
    and creates no half-open session -/
theorem full_refuses_request {a : AEAD} {s : NetcodeServer} {addr : Addr} {v : Bytes} {pid expire : Nat}
    {xnonce data : Bytes} {R : NetcodeServer.SRes} {r : ServerResult} {s' : NetcodeServer}
    (ho : HcrOut a s addr v pid expire xnonce data R) (hr : HcrRes R r s')
    (hfull : countConnected s.clients ≥ s.maxClients) :
    s'.clients = s.clients ∧ (r = .none ∨ ∃ out, r = .packetToSend addr out ∧ IsDenied a s out) ∧
      pendingFind s'.pendingClients addr = none ∨ (s' = s ∧ r = .none) := hcr_full ho hr hfull

/-- datagrams from a connected address concern that session only -/
theorem connected_only_self {a : AEAD} {s s' : NetcodeServer} {addr : Addr} {buf : Bytes} {r : ServerResult}
    (hi : ServerInv s) {i : Nat} {c : Connection} (hfa : findClientByAddr s.clients addr = some (i, c))
    (h : s.processPacket a addr buf = .ok (r, s')) :
    sessions s'.clients = sessions s.clients ∨
      (r = .clientDisconnected c.clientId addr none ∧ s'.clients = s.clients.set i none) :=
  processPacket_connected_only_self hi hfa h

/-! ## examples (toy AEAD `Ex.a`; states and datagrams of Lemmas/NcExamples.lean) -/
section Examples
open Ex

/-- `s2`: client A (id 11) connected from `addrA` after the four-message handshake; log = [connected 11 addrA udA] -/
theorem reach_s2 : Reach a s2 [.connected 11 addrA udA] :=
  .step (.step (.init s0_empty) s_request) s_response

theorem reach_s3 : Reach a s3 [.connected 11 addrA udA, .disconnected 11 addrA] := .step reach_s2 s_disconnect

example : ServerInv s2 := inv_step (inv_step s0_empty.inv s_request) s_response
example : ∃ r s', step a s2 (.packet addrB reqB) = some (r, s') :=
  step_no_panic a reach_s2.inv ⟨by decide, by decide, fun i c hc => by
    have : c = connA := by
      rcases i with _ | _ | i
      · exact (at_inj hc (show At s2.clients 0 connA from rfl)).symm ▸ rfl
      · simp [At, s2] at hc
      · simp [At, s2] at hc
    subst this; decide, by decide⟩ _ (fun d h => by cases h)
example : s2.clientsId = [11] ∧ s2.clientAddr 11 = some addrA ∧ s2.userData 11 = some udA := by decide +kernel
example : s2.isClientConnected 11 = true ∧
    ∃ l1 l2, [Event.connected 11 addrA udA] = l1 ++ .connected 11 addrA udA :: l2 ∧ Event.disconnected 11 addrA ∉ l2 :=
  lookups reach_s2 (by decide +kernel) (by decide +kernel)
example : ∃ ud l1 l2, [Event.connected 11 addrA udA] = l1 ++ .connected 11 addrA ud :: l2 ∧
    Event.disconnected 11 addrA ∉ l2 :=
  disconnected_only_after_connected (pre := [.connected 11 addrA udA]) (post := []) reach_s3

/-- the one-slot server: both requests pass the request-time check, A gets the slot, B's response is denied and the
    slot table is untouched -/
theorem reachNL_f3 : ReachNL a f3 :=
  .step (.step (.step (.init f0_empty) f_reqA (fun m h => by cases h)) f_reqB (fun m h => by cases h)) f_respA
    (fun m h => by cases h)

example : f3.clients.length = f3.maxClients ∧ f3.connectedClients ≤ f3.maxClients := count_le_max reachNL_f3
example : firstFreeSlot f3.clients = none := (full_iff reachNL_f3).mpr (by decide +kernel)
example : f4.clients = f3.clients ∧
    (ServerResult.packetToSend addrB deniedB = .none ∨
      ∃ out, ServerResult.packetToSend addrB deniedB = .packetToSend addrB out ∧ IsDenied a f3 out) := by
  obtain ⟨log, hl⟩ := reachNL_f3.reach
  have h : f3.processPacket a addrB respB = .ok (.packetToSend addrB deniedB, f4) := by
    have := f_respB
    simp only [step] at this
    cases hp : f3.processPacket a addrB respB with
    | ok x => rw [hp] at this; simp only [Option.some.injEq] at this; rw [this]
    | err e => exact e.elim
    | panic m => rw [hp] at this; cases this
  exact full_refuses hl.inv (by decide +kernel) (by decide +kernel) h

/-- `NetcodeServer::new(0, 2, 42, [srvAddr], Secure{key})` -/
example : ∃ s, NetcodeServer.new 0 2 42 [srvAddr] true key ckey = .ok s ∧ ServerInv s ∧ TableLen s ∧
    s.clients.length = s.maxClients := by
  obtain ⟨s, h⟩ := new_ne_panic (t := 0) (m := 2) (pid := 42) (pa := [srvAddr]) (sec := true) (k := key) (ck := ckey)
    (by decide)
  exact ⟨s, h, inv_new h⟩
example : s2.connectTokenEntries.length = s1.connectTokenEntries.length := step_tableLen C05.inv_s1 s_response
example : s2.clientsId.Nodup := (distinct reach_s2).2.2.2
example : s2.connectedClients ≤ s2.clients.length := (count_le_slots reach_s2).1
example : ∃ L, replay [Event.connected 11 addrA udA] [] = some L ∧ Distinct L ∧
    ∀ id ad ud, (id, ad, ud) ∈ L ↔ ∃ i c, At s2.clients i c ∧ c.clientId = id ∧ c.addr = ad ∧ c.userData = ud :=
  log_replays reach_s2
example : TableStep s1.clients s2.clients (.clientConnected 11 addrA udA kaA) ∨
    (ServerResult.clientConnected 11 addrA udA kaA = .none ∧ Grown s1.clients s2.clients) :=
  table_step C05.inv_s1 s_response

/-- A connects, is disconnected, connects again (same token, same address), is disconnected again -/
theorem reach_again : ∃ s', Reach a s' [.connected 11 addrA udA, .disconnected 11 addrA, .connected 11 addrA udA,
    .disconnected 11 addrA] := by
  have h := again_events
  cases hr : runLog s2 againOps with
  | none => rw [hr] at h; cases h
  | some x =>
    obtain ⟨s', evs⟩ := x
    rw [hr] at h
    simp only [Option.map_some, Option.some.injEq] at h
    subst h
    exact ⟨s', reach_runLog againOps reach_s2 hr⟩
example : ∃ ud, Event.connected 11 addrA ud ∈ [Event.connected 11 addrA udA] := by
  obtain ⟨s', h⟩ := reach_again
  exact at_most_one_disconnected (pre := [.connected 11 addrA udA]) (mid := [.connected 11 addrA udA]) (post := []) h
example : Event.disconnected 11 addrA ∈ [Event.disconnected 11 addrA] := by
  obtain ⟨s', h⟩ := reach_again
  exact no_second_connected (pre := []) (mid := [.disconnected 11 addrA]) (post := [.disconnected 11 addrA]) h

example : s2.clientAddr 11 = some addrA := (payload_routing_out reach_s2 s_sendPayload).1
example : s2.clientAddr 11 = some addrA := (payload_routing_in reach_s2 s_payload).1
example : sessions s2k.clients = sessions s2.clients ∨
    (ServerResult.none = .clientDisconnected connA.clientId addrA none ∧ s2k.clients = s2.clients.set 0 none) :=
  connected_only_self reach_s2.inv (i := 0) (c := connA) (by decide +kernel) (pp_of_step s_keepalive)
/-- B's request at the full one-slot server: whatever `handle_connection_request` returns changes no slot -/
example : ∀ R r s', HcrOut a f3 addrB Netcode.C.NETCODE_VERSION_INFO 42 30 xnB privDataB R → HcrRes R r s' →
    (s'.clients = f3.clients ∧ (r = .none ∨ ∃ out, r = .packetToSend addrB out ∧ IsDenied a f3 out) ∧
      pendingFind s'.pendingClients addrB = none ∨ (s' = f3 ∧ r = .none)) :=
  fun R r s' ho hr => full_refuses_request ho hr (by decide +kernel)

end Examples
end RenetVerif.C10
