/-
  C01/C02's exactly-once kernel and C06 stated DIRECTLY about the generated
  `ReceiveChannelReliable::process_message` of `Generated/Src/RecvRel.lean` (derived from
  `renet/src/channel/reliable.rs`).  The model (`RecvRel`) appears only in the proofs:
  `SrcTieRecvRel` (generated = model) ∘ `Props/C09.copy_of_finished_message_ignored` (the duplicate filter that
  C01/C02's at-most-once delivery rests on) / `DataPath.processMessage_no_panic`.

  `WfRR c` is intrinsic: stored bytes are bytes, every slice constructor carries its map key as `message_id`, and the
  `BTreeSet` of received ids is ascending.  `most_recent_message_id` (inside `ReliableOrder::Unordered`) is written by the
  Rust code but never read; "unchanged" below means: unchanged except possibly for that field (`SameButMR`).
-/
import RenetVerif.Props.SrcTieRecvRel
import RenetVerif.Props.C09
import RenetVerif.Lemmas.DataPath
import RenetVerif.Lemmas.SrcCorollaries
namespace RenetVerif.SrcCor
open RenetVerif RenetVerif.SrcEquiv RenetVerif.SrcTie RenetVerif.RustSem
open Src.renet.channel.reliable

/-! ### helpers -/

def isOrdered : ReliableOrder → Bool
  | .Ordered => true
  | .Unordered .. => false
def receivedOf : ReliableOrder → List Nat
  | .Ordered => []
  | .Unordered _ s => s
def mrOf : ReliableOrder → Nat
  | .Ordered => 0
  | .Unordered mr _ => mr

def absRR (c : ReceiveChannelReliable) : RecvRel :=
  ⟨c.slices.map (fun p => (p.1, absSC p.2)), c.messages.map (fun p => (p.1, ofNats p.2)), c.oldest_pending_message_id,
   isOrdered c.reliable_order, receivedOf c.reliable_order, c.memory_usage_bytes, c.max_memory_usage_bytes⟩

/-- intrinsic well-formedness of a generated reliable receive channel -/
def WfRR (c : ReceiveChannelReliable) : Prop :=
  (∀ p ∈ c.messages, BytesOk p.2) ∧ (∀ p ∈ c.slices, p.2.message_id = p.1 ∧ BytesOk p.2.sliced_data) ∧
  (receivedOf c.reliable_order).Pairwise (· < ·)

/-- the message id was already delivered, or is already waiting (ordered) / was already received (unordered) -/
def DupG (c : ReceiveChannelReliable) (id : Nat) : Prop :=
  id < c.oldest_pending_message_id ∨
  (isOrdered c.reliable_order = true ∧ RustSem.Map.contains_key c.messages id = true) ∨
  (isOrdered c.reliable_order = false ∧ id ∈ receivedOf c.reliable_order)

/-- equal except possibly for the never-read `most_recent_message_id` -/
def SameButMR (c c' : ReceiveChannelReliable) : Prop :=
  c'.slices = c.slices ∧ c'.messages = c.messages ∧ c'.oldest_pending_message_id = c.oldest_pending_message_id ∧
  c'.memory_usage_bytes = c.memory_usage_bytes ∧ c'.max_memory_usage_bytes = c.max_memory_usage_bytes ∧
  isOrdered c'.reliable_order = isOrdered c.reliable_order ∧ receivedOf c'.reliable_order = receivedOf c.reliable_order

theorem setOf_sorted : ∀ (s : List Nat), s.Pairwise (· < ·) → setOf s = s
  | [], _ => rfl
  | [x], _ => rfl
  | x :: y :: r, h => by
    have hr := setOf_sorted (y :: r) (List.Pairwise.of_cons h)
    show RustSem.Set.insert (setOf (y :: r)) x = _
    rw [hr]
    have hxy : x < y := (List.pairwise_cons.1 h).1 y (by simp)
    simp [RustSem.Set.insert, hxy]

theorem reprSlices_abs_rr : ∀ (l : RustSem.Map SSliceCtor), (∀ p ∈ l, p.2.message_id = p.1 ∧ BytesOk p.2.sliced_data) →
    reprSlices (l.map fun p => (p.1, absSC p.2)) = l
  | [], _ => rfl
  | p :: r, h => by
    obtain ⟨hk, hb⟩ := h p (by simp)
    have ih := reprSlices_abs_rr r (fun q hq => h q (by simp [hq]))
    simp only [reprSlices, List.map_cons] at ih ⊢
    rw [ih]
    congr 1
    obtain ⟨k, st⟩ := p
    simp only at hk hb ⊢
    rw [← hk, reprSC_absSC st hb]

theorem mapVals_abs : ∀ (l : RustSem.Map (List Nat)), (∀ p ∈ l, BytesOk p.2) →
    mapVals toNats (l.map fun p => (p.1, ofNats p.2)) = l
  | [], _ => rfl
  | p :: r, h => by
    have ih := mapVals_abs r (fun q hq => h q (by simp [hq]))
    simp only [mapVals, List.map_cons] at ih ⊢
    rw [ih, toNats_ofNats (h p (by simp))]

theorem reprRR_absRR (c : ReceiveChannelReliable) (h : WfRR c) : reprRR (mrOf c.reliable_order) (absRR c) = c := by
  cases c with
  | mk sl msgs old ord mem mx =>
    simp only [reprRR, absRR]
    rw [reprSlices_abs_rr sl h.2.1, mapVals_abs msgs h.1]
    congr 1
    cases ord with
    | Ordered => rfl
    | Unordered mr s =>
      simp only [reprOrder, isOrdered, receivedOf, mrOf, Bool.false_eq_true, if_false]
      rw [setOf_sorted s h.2.2]

theorem wfRR_repr (mr : Nat) (r : RecvRel) : WfRR (reprRR mr r) := by
  refine ⟨?_, ?_, ?_⟩
  · intro p hp
    simp only [reprRR, mapVals, List.mem_map] at hp
    obtain ⟨q, _, rfl⟩ := hp
    exact bytesOk_toNats _
  · intro p hp
    simp only [reprRR, reprSlices, List.mem_map] at hp
    obtain ⟨q, _, rfl⟩ := hp
    exact ⟨rfl, bytesOk_toNats _⟩
  · simp only [reprRR, reprOrder]
    split
    · exact List.Pairwise.nil
    · exact sorted_setOf r.received

/-- the duplicate filter on a represented state -/
theorem dup_ignored_repr (mr : Nat) (r : RecvRel) (m : Bytes) (id : Nat) (hfit : r.mem + m.length < 2 ^ 64)
    (hd : id < r.oldest ∨ (r.ordered = true ∧ SMap.contains r.messages id = true) ∨
      (r.ordered = false ∧ id ∈ r.received)) :
    ReceiveChannelReliable.process_message (reprRR mr r) (toNats m) id = .ok (reprRR (mrNext r mr id) r, ()) := by
  rw [recv_rel_process_message mr r m id hfit, C09.copy_of_finished_message_ignored r m id hd]
  rfl

theorem sameButMR_repr (mr mr' : Nat) (r : RecvRel) : SameButMR (reprRR mr r) (reprRR mr' r) := by
  refine ⟨rfl, rfl, rfl, rfl, rfl, ?_, ?_⟩ <;> simp only [reprRR, reprOrder] <;> split <;> rfl

/-- model: after ANY accepted `processMessage(m, id)` the id is a duplicate -/
theorem dup_after_ok {r r' : RecvRel} {m : Bytes} {id : Nat} (h : r.processMessage m id = .ok r') :
    id < r'.oldest ∨ (r'.ordered = true ∧ SMap.contains r'.messages id = true) ∨
      (r'.ordered = false ∧ id ∈ r'.received) := by
  unfold RecvRel.processMessage at h
  split at h
  · rename_i hlt; cases h; exact .inl hlt
  · split at h
    · rename_i hord
      split at h
      · rename_i hc; cases h; exact .inr (.inl ⟨hord, hc⟩)
      · split at h
        · cases h
        · cases h
          exact .inr (.inl ⟨hord, SMap.contains_insert.2 (.inl rfl)⟩)
    · rename_i hord
      split at h
      · rename_i hc; cases h
        exact .inr (.inr ⟨by simpa using hord, by simpa using hc⟩)
      · split at h
        · cases h
        · cases h
          exact .inr (.inr ⟨by simpa using hord, by simp⟩)

/-- a slice of this message id is ignored: the message is complete and waiting, already delivered (below the cursor),
    or (unordered) already received -/
def DupSliceG (c : ReceiveChannelReliable) (id : Nat) : Prop :=
  RustSem.Map.contains_key c.messages id = true ∨ id < c.oldest_pending_message_id ∨
  (isOrdered c.reliable_order = false ∧ id ∈ receivedOf c.reliable_order)

/-- the slice table is a `BTreeMap`/`HashMap` with ascending keys whose constructors have sane sizes -/
def SlicesOkG (c : ReceiveChannelReliable) : Prop :=
  (c.slices.map Prod.fst).Pairwise (· < ·) ∧
  ∀ p ∈ c.slices, p.2.num_slices * C.SLICE_SIZE < 2 ^ 64 ∧ p.2.num_received_slices + 1 < 2 ^ 64 ∧
    p.2.sliced_data.length ≤ p.2.num_slices * C.SLICE_SIZE

def absSl (s : Src.renet.packet.Slice) : Slice := ⟨s.message_id, s.slice_index, s.num_slices, ofNats s.payload⟩

theorem reprSlice_absSl (s : Src.renet.packet.Slice) (h : BytesOk s.payload) : reprSlice (absSl s) = s := by
  cases s; simp only [reprSlice, absSl]; rw [toNats_ofNats h]

theorem find?_mem {α : Type} : ∀ (m : SMap α) (k : Nat) (v : α), SMap.find? m k = some v → (k, v) ∈ m
  | [], _, _, h => by cases h
  | (k', v') :: r, k, v, h => by
    simp only [SMap.find?] at h
    split at h
    · rename_i hk; cases h; subst hk; simp
    · exact List.mem_cons_of_mem _ (find?_mem r k v h)

end RenetVerif.SrcCor

namespace RenetVerif.SrcProps
open RenetVerif RenetVerif.SrcEquiv RenetVerif.SrcTie RenetVerif.SrcCor RenetVerif.RustSem
open Src.renet.channel.reliable

/-! ### headline statements -/

/-- **C01/C02 kernel, duplicates are ignored.**  On a well-formed channel, the generated `process_message` for an id that
    was already delivered (below `oldest_pending_message_id`), is already waiting (ordered channel) or was already
    received (unordered channel) returns `Ok` and leaves the channel unchanged — no second copy is stored, no memory is
    charged (only the never-read `most_recent_message_id` may move). -/
theorem recv_rel_duplicate_ignored (c : ReceiveChannelReliable) (h : WfRR c) (m : List Nat) (hm : BytesOk m) (id : Nat)
    (hfit : c.memory_usage_bytes + m.length < 2 ^ 64) (hd : DupG c id) :
    ∃ c', ReceiveChannelReliable.process_message c m id = .ok (c', ()) ∧ SameButMR c c' := by
  have hc := reprRR_absRR c h
  have hl : (ofNats m).length = m.length := by simp [ofNats]
  have hd' : id < (absRR c).oldest ∨ ((absRR c).ordered = true ∧ SMap.contains (absRR c).messages id = true) ∨
      ((absRR c).ordered = false ∧ id ∈ (absRR c).received) := by
    rcases hd with h1 | ⟨h1, h2⟩ | ⟨h1, h2⟩
    · exact .inl h1
    · refine .inr (.inl ⟨h1, ?_⟩)
      rw [← hc, reprRR] at h2
      simpa [contains_mapVals] using h2
    · exact .inr (.inr ⟨h1, h2⟩)
  have := dup_ignored_repr (mrOf c.reliable_order) (absRR c) (ofNats m) id (by simpa [absRR, hl] using hfit) hd'
  rw [hc, toNats_ofNats hm] at this
  refine ⟨_, this, ?_⟩
  have hs := sameButMR_repr (mrOf c.reliable_order) (mrNext (absRR c) (mrOf c.reliable_order) id) (absRR c)
  rwa [hc] at hs

/-- **C01/C02 kernel, exactly once.**  After ANY successful generated `process_message(m, id)` on a well-formed
    channel — whether it stored the message or ignored it — every further `process_message(m2, id)` with the same id is
    ignored: `Ok`, channel unchanged.  So a message id enters the channel at most once, however often its packet is
    retransmitted. -/
theorem recv_rel_second_copy_ignored (c : ReceiveChannelReliable) (h : WfRR c) (m : List Nat) (hm : BytesOk m)
    (id : Nat) (hfit : c.memory_usage_bytes + m.length < 2 ^ 64) (c1 : ReceiveChannelReliable)
    (h1 : ReceiveChannelReliable.process_message c m id = .ok (c1, ()))
    (m2 : List Nat) (hm2 : BytesOk m2) (hfit2 : c1.memory_usage_bytes + m2.length < 2 ^ 64) :
    WfRR c1 ∧ DupG c1 id ∧
      ∃ c2, ReceiveChannelReliable.process_message c1 m2 id = .ok (c2, ()) ∧ SameButMR c1 c2 := by
  have hc := reprRR_absRR c h
  have hl : (ofNats m).length = m.length := by simp [ofNats]
  have htie := recv_rel_process_message (mrOf c.reliable_order) (absRR c) (ofNats m) id
    (by simpa [absRR, hl] using hfit)
  rw [hc, toNats_ofNats hm, h1] at htie
  cases hp : (absRR c).processMessage (ofNats m) id with
  | err e => rw [hp] at htie; cases htie
  | panic s => rw [hp] at htie; cases htie
  | ok r' =>
    rw [hp] at htie
    have hc1 : c1 = reprRR (mrNext (absRR c) (mrOf c.reliable_order) id) r' := (Prod.mk.inj (Res.ok.inj htie)).1
    have hdup := dup_after_ok hp
    have hwf1 : WfRR c1 := hc1 ▸ wfRR_repr _ r'
    have hdg : DupG c1 id := by
      rw [hc1]
      rcases hdup with h1 | ⟨h1, h2⟩ | ⟨h1, h2⟩
      · exact .inl h1
      · refine .inr (.inl ⟨?_, ?_⟩)
        · simp [reprRR, reprOrder, h1, isOrdered]
        · simpa [reprRR, contains_mapVals] using h2
      · refine .inr (.inr ⟨?_, ?_⟩)
        · simp [reprRR, reprOrder, h1, isOrdered]
        · simp only [reprRR, reprOrder, h1, Bool.false_eq_true, if_false, receivedOf]
          exact (mem_setOf _ _).2 h2
    exact ⟨hwf1, hdg, recv_rel_duplicate_ignored c1 hwf1 m2 hm2 id hfit2 hdg⟩

/-- **C01/C02 kernel (repaired defect D1), slices of a finished message are ignored.**  On a well-formed channel, the
    generated `process_slice` for a slice whose message is complete and waiting, already delivered, or (unordered)
    already received returns `Ok` and leaves the channel unchanged: no constructor is created, no memory reserved. -/
theorem recv_rel_duplicate_slice_ignored (c : ReceiveChannelReliable) (h : WfRR c) (hs : SlicesOkG c)
    (sl : Src.renet.packet.Slice) (hb : BytesOk sl.payload)
    (hfit : c.memory_usage_bytes + sl.num_slices * C.SLICE_SIZE < 2 ^ 64) (hd : DupSliceG c sl.message_id) :
    ∃ c', ReceiveChannelReliable.process_slice c sl = .ok (c', ()) ∧ SameButMR c c' := by
  have hc := reprRR_absRR c h
  have hd' : SMap.contains (absRR c).messages (absSl sl).messageId = true ∨ (absSl sl).messageId < (absRR c).oldest ∨
      ((absRR c).ordered = false ∧ (absSl sl).messageId ∈ (absRR c).received) := by
    rcases hd with h1 | h1 | ⟨h1, h2⟩
    · left
      rw [← hc, reprRR] at h1
      show SMap.contains (absRR c).messages sl.message_id = true
      simpa [contains_mapVals] using h1
    · exact .inr (.inl h1)
    · exact .inr (.inr ⟨h1, h2⟩)
  have hsorted : MSorted (absRR c).slices := by
    simpa [MSorted, absRR, Function.comp_def] using hs.1
  have hctor : ∀ ct, SMap.find? (absRR c).slices (absSl sl).messageId = some ct → CtorOk ct := by
    intro ct hf
    have hm := find?_mem _ _ _ hf
    simp only [absRR, List.mem_map] at hm
    obtain ⟨q, hq, he⟩ := hm
    have hq' := hs.2 q hq
    have : ct = absSC q.2 := (Prod.mk.inj he).2.symm
    subst this
    exact ⟨hq'.1, hq'.2.1, by simpa [absSC, ofNats] using hq'.2.2⟩
  obtain ⟨mr', htie⟩ := recv_rel_process_slice (mrOf c.reliable_order) (absRR c) (absSl sl) hsorted
    (by simpa [absRR, absSl] using hfit) hctor
  rw [hc, reprSlice_absSl sl hb, C09.slice_of_finished_message_ignored (absRR c) (absSl sl) hd'] at htie
  refine ⟨_, sameOutcome_ok htie, ?_⟩
  have hsm := sameButMR_repr (mrOf c.reliable_order) mr' (absRR c)
  rwa [hc] at hsm

/-- **C06, `process_message` never panics** on a well-formed channel: it returns `Ok` or
    `Err(ReliableChannelMaxMemoryReached)`. -/
theorem recv_rel_process_message_never_panics (c : ReceiveChannelReliable) (h : WfRR c) (m : List Nat) (hm : BytesOk m)
    (id : Nat) (hfit : c.memory_usage_bytes + m.length < 2 ^ 64) :
    NoPanic (ReceiveChannelReliable.process_message c m id) := by
  have hc := reprRR_absRR c h
  have hl : (ofNats m).length = m.length := by simp [ofNats]
  have htie := recv_rel_process_message (mrOf c.reliable_order) (absRR c) (ofNats m) id
    (by simpa [absRR, hl] using hfit)
  rw [hc, toNats_ofNats hm] at htie
  rw [htie, noPanic_mapRes]
  exact fun s => DataPath.processMessage_no_panic _ _ _ s

/-! ### examples (evaluated on the generated text) -/

/-- ordered: store id 3, then a different payload under the same id is ignored -/
example : (ReceiveChannelReliable.process_message ⟨[], [], 0, .Ordered, 0, 10⟩ [1, 2] 3 >>= fun r =>
    ReceiveChannelReliable.process_message r.1 [9, 9, 9] 3) = .ok (⟨[], [(3, [1, 2])], 0, .Ordered, 2, 10⟩, ()) := by
  decide +kernel
/-- unordered: id 5 was received (and already handed out): a retransmission is ignored, memory stays 0 -/
example : ReceiveChannelReliable.process_message ⟨[], [], 0, .Unordered 7 [1, 5, 7], 0, 10⟩ [4] 5 =
    .ok (⟨[], [], 0, .Unordered 7 [1, 5, 7], 0, 10⟩, ()) := by decide +kernel
/-- below the cursor -/
example : ReceiveChannelReliable.process_message ⟨[], [], 4, .Ordered, 0, 10⟩ [4] 3 =
    .ok (⟨[], [], 4, .Ordered, 0, 10⟩, ()) := by decide +kernel
/-- a slice of message 7, which is complete and waiting: ignored, nothing reserved -/
example : ReceiveChannelReliable.process_slice ⟨[], [(7, [1, 2, 3])], 0, .Ordered, 3, 5000⟩ ⟨7, 0, 2, List.replicate 1200 9⟩ =
    .ok (⟨[], [(7, [1, 2, 3])], 0, .Ordered, 3, 5000⟩, ()) := by decide +kernel
/-- instance of the theorem -/
example : ∃ c', ReceiveChannelReliable.process_message ⟨[], [], 0, .Unordered 7 [1, 5, 7], 0, 10⟩ [4] 5 = .ok (c', ()) ∧
    SameButMR ⟨[], [], 0, .Unordered 7 [1, 5, 7], 0, 10⟩ c' :=
  recv_rel_duplicate_ignored _ ⟨(by intro p hp; cases hp), (by intro p hp; cases hp), (by decide)⟩ [4] (by decide) 5
    (by decide) (.inr (.inr ⟨rfl, by decide⟩))

end RenetVerif.SrcProps
