/-
  C11, END TO END with several clients — "A message sent to one client is obtained only by that client, a broadcast
  is obtained exactly once by every currently connected client (minus the excluded one for broadcast_except), and a
  message a client sent is obtained only under that client's id.  Misbehaviour, disconnection or a stalled ordered
  stream of one client or channel never delays, drops or corrupts traffic of other clients or other channels."

  Props/C11.lean proves the SERVER-TABLE level (which slot an operation touches).  Props/C01S.lean proves the
  two-endpoint system (one sender, one receiver, adversarial network).  This file composes them: the system `MSys`
  of Lemmas/MultiSystem.lean —

      ONE `Server` (Renet/Server.lean) + for every client id a `Link`: the remote endpoint (a `Conn`), the emission
      history server → id (`outS`) and id → server (`outC`), and ghost logs (`subS`/`subSU`: what the server
      application addressed to the id and the reliable / unreliable channel took; `obtC`: what the client application
      obtained; `subC`/`subCU`/`obtS`: the same for the other direction; `delivC`/`delivS`: which datagrams were
      handed over; `tainted`: hostile bytes were handed to the server under this id).

  A run is ANY list of `MOp`:
      addClient id | remove id | srvDisconnect id | cliDisconnect id
      srvSend id ch m | broadcast ch m | broadcastExcept ex ch m | srvRecv id ch | cliSend id ch m | cliRecv id ch
      srvUpdate dt | cliUpdate id dt | srvFlush id | cliFlush id
      deliverToCli id k | deliverToSrv id k      (the k-th datagram EVER emitted on that link in that direction: never
                                                  chosen = loss, twice = duplication, late = delay / reordering;
                                                  a datagram of link id can only be handed to the ends of link id)
      hostile id bytes                            (arbitrary bytes handed to the server as coming from id)
  so every number of clients, every interleaving, an independent fault schedule per client, hostile packets on any
  subset of ids.  `addClient id` on an id that is not in the table starts a NEW SESSION (fresh server-side connection,
  fresh remote endpoint, empty histories and logs) — renet itself has no notion of sessions; keeping datagrams of an
  earlier session away from the new connection is the transport's job (netcode: C17/C20), and at this level a stale
  datagram of an old session is a `hostile` delivery.

  HOW IT IS PROVED.  `MSys.view m i` = (table slot of `i`, link of `i`).  `step_view`: the view of `i` after a step is
  a function (`LV.apply`, of the local action `op.act i`) of the view of `i` before — nothing else is read.  The view
  projects onto TWO states of the two-endpoint system `System.Sys`: `projDown` (A = server-side connection, B =
  client) and `projUp` (A = client, B = server-side connection).  `sim`: every local action is, for both projections,
  a `VStep`: an operation of `System.Sys`, or a stutter, or one of the endpoint-local operations that `System.Sys`
  lacks because it is one-directional (`recvA`: the submitting side also calls `receive_message`; `sendB`: the
  obtaining side also calls `send_message`; `discA`/`discB`: an application-level disconnect; `fresh`: new session).
  `good_vstep`: the four system invariants of `System.system_inv` are preserved by every `VStep` (the extra
  operations do not touch the fields the invariants mention).  Hence `Good` — literally the conclusion of
  `System.system_inv` — holds for both projections of every untainted link of every reachable state, and every
  theorem of Props/C01S is available per client and per direction.

  Hypothesis `CountersOK` (as in C01S, on the state at hand, per direction): channel ids are bytes, the submitting
  side's `packet_sequence` and per-channel message count are ≤ 2^62, no submitted message exceeds 1.2 GB.
  `l.tainted = false`: no hostile bytes were handed to the server under THIS id in the current session (for a
  tainted id nothing can be claimed: forged data / forged acks are accepted by renet itself — authenticity is the
  transport's job, C17); hostile bytes under OTHER ids are unrestricted.
-/
import RenetVerif.Lemmas.MultiSystem
import RenetVerif.Props.C11
import RenetVerif.Props.C01S
namespace RenetVerif.C11E
open RenetVerif C RenetVerif.System RenetVerif.MultiSystem

/-- `m` is reachable by `ops` from the empty server, and `l` is the (untainted) link of client `i` in `m` -/
structure At (P : Params) (ops : List MOp) (m : MSys) (i : Nat) (l : Link) : Prop where
  run : (MSys.init P).run ops = some m
  link : m.links i = some l
  clean : l.tainted = false

/-- direction server → `i` as a state of the two-endpoint system -/
def projDown (m : MSys) (i : Nat) (l : Link) : Sys := down (m.view i) l
/-- direction `i` → server as a state of the two-endpoint system -/
def projUp (m : MSys) (i : Nat) (l : Link) : Sys := up (m.view i) l

section Theorems
variable {P : Params} {ops : List MOp} {m : MSys} {i : Nat} {l : Link}

/-- **All of C01S per client.**  Both directions of every untainted link of every reachable state satisfy exactly
    what `System.system_inv` gives for the two-endpoint system. -/
theorem per_client_system_inv (h : At P ops m i l) :
    (∃ pkA, Inv1 P.down (projDown m i l) pkA ∧ (CountersOK P.down (projDown m i l) → Inv2 P.down (projDown m i l) pkA) ∧
      InvR P.down (projDown m i l) pkA ∧ InvU P.down (projDown m i l) pkA) ∧
    (∃ pkA, Inv1 P.up (projUp m i l) pkA ∧ (CountersOK P.up (projUp m i l) → Inv2 P.up (projUp m i l) pkA) ∧
      InvR P.up (projUp m i l) pkA ∧ InvU P.up (projUp m i l) pkA) :=
  let r := reach P ops m h.run i l h.link h.clean
  ⟨r.goodD, r.goodU⟩

/-- what `MOp.addressed` means -/
theorem mem_addressed_iff (op : MOp) (i ch : Nat) (x : Bytes) :
    x ∈ op.addressed i ch ↔
      op = .srvSend i ch x ∨ op = .broadcast ch x ∨ ∃ ex, ex ≠ i ∧ op = .broadcastExcept ex ch x := by
  cases op with
  | srvSend id c y => simp [MOp.addressed]; grind
  | broadcast c y => simp [MOp.addressed]; grind
  | broadcastExcept ex c y =>
    simp only [MOp.addressed]
    constructor
    · intro h
      split at h
      · rename_i hc
        simp only [List.mem_singleton] at h
        subst h
        obtain ⟨h1, rfl⟩ := hc
        exact Or.inr (Or.inr ⟨ex, fun e => h1 e.symm, rfl⟩)
      · cases h
    · rintro (h | h | ⟨ex', hne, h⟩)
      · cases h
      · cases h
      · cases h
        have : i ≠ ex := fun e => hne e.symm
        simp [this]
  | _ => simp [MOp.addressed]

theorem mem_submittedBy_iff (op : MOp) (i ch : Nat) (x : Bytes) :
    x ∈ op.submittedBy i ch ↔ op = .cliSend i ch x := by
  cases op <;> simp [MOp.submittedBy] <;> grind

/-- **1. A message sent to one client is obtained only by that client.**  In every reachable state, for every client
    `i` (untainted link) and every channel `ch` of the server → client configuration:
    * ReliableOrdered: what `i`'s application obtained is a PREFIX of `subS ch`;
    * ReliableUnordered: it is `subS ch` read at pairwise distinct positions (each at most once, intact);
    * Unreliable: every obtained message is in `subSU ch`;
    and `subS ch`, `subSU ch` are sub-sequences (order preserved) of `addressedTo i ch ops` — exactly the messages the
    server application addressed to `i` on `ch`: `send_message(i, ch, ·)`, `broadcast_message(ch, ·)`,
    `broadcast_message_except(ex, ch, ·)` with `ex ≠ i` (`mem_addressed_iff`), in the order of the op list.  (They are
    sub-sequences, not the whole list, because a message addressed to an id that is not in the table, or to a
    disconnected connection, or refused by a full channel, is dropped by `send_message` itself.) -/
theorem to_one_only_one (h : At P ops m i l) (hc : CountersOK P.down (projDown m i l)) (ch : Nat) :
    (P.down.Ordered ch → l.obtC ch <+: l.subS ch) ∧
    (P.down.Unordered ch →
      ∃ ids : List Nat, ids.Nodup ∧ (l.obtC ch).map some = ids.map (fun k => (l.subS ch)[k]?)) ∧
    (P.down.Unreliable ch → ∀ x ∈ l.obtC ch, x ∈ l.subSU ch) ∧
    (l.subS ch).Sublist (addressedTo i ch ops) ∧ (l.subSU ch).Sublist (addressedTo i ch ops) :=
  let r := reach P ops m h.run i l h.link h.clean
  ⟨good_ordered r.goodD hc ch, good_unordered r.goodD hc ch, good_unreliable r.goodD hc ch, r.subS ch, r.subSU ch⟩

/-- … on an ordered channel therefore: obtained, in order, a sub-sequence of what was addressed to `i` -/
theorem ordered_in_submission_order (h : At P ops m i l) (hc : CountersOK P.down (projDown m i l)) (ch : Nat)
    (ho : P.down.Ordered ch) : (l.obtC ch).Sublist (addressedTo i ch ops) :=
  let t := to_one_only_one h hc ch
  (t.1 ho).sublist.trans t.2.2.2.1

/-- … and on every kind of channel: whatever `i` obtains was addressed to `i` by some operation of the run -/
theorem obtained_only_if_addressed (h : At P ops m i l) (hc : CountersOK P.down (projDown m i l)) (ch : Nat)
    (hk : P.down.Ordered ch ∨ P.down.Unordered ch ∨ P.down.Unreliable ch) (x : Bytes) (hx : x ∈ l.obtC ch) :
    ∃ op ∈ ops, op = .srvSend i ch x ∨ op = .broadcast ch x ∨ ∃ ex, ex ≠ i ∧ op = .broadcastExcept ex ch x := by
  obtain ⟨t1, t2, t3, t4, t5⟩ := to_one_only_one h hc ch
  have hr := reach P ops m h.run i l h.link h.clean
  have : x ∈ addressedTo i ch ops := by
    rcases hk with ho | hu | hn
    · exact t4.subset (good_integrity hr.goodD hc ch (Or.inl ho) x hx)
    · exact t4.subset (good_integrity hr.goodD hc ch (Or.inr hu) x hx)
    · exact t5.subset (t3 hn x hx)
  obtain ⟨op, hop, hm⟩ := List.mem_flatMap.mp this
  exact ⟨op, hop, (mem_addressed_iff op i ch x).mp hm⟩

/-- … in particular a message that the run addresses only to OTHER clients (`send_message(j, ..)` with `j ≠ i`,
    `broadcast_message_except(i, ..)`) never appears at `i` -/
theorem addressed_to_others_never_obtained (h : At P ops m i l) (hc : CountersOK P.down (projDown m i l)) (ch : Nat)
    (hk : P.down.Ordered ch ∨ P.down.Unordered ch ∨ P.down.Unreliable ch) (x : Bytes)
    (hno : ∀ op ∈ ops, op ≠ .srvSend i ch x ∧ op ≠ .broadcast ch x ∧ ∀ ex, ex ≠ i → op ≠ .broadcastExcept ex ch x) :
    x ∉ l.obtC ch := by
  intro hx
  obtain ⟨op, hop, h1 | h2 | ⟨ex, hne, h3⟩⟩ := obtained_only_if_addressed h hc ch hk x hx
  · exact (hno op hop).1 h1
  · exact (hno op hop).2.1 h2
  · exact (hno op hop).2.2 ex hne h3

/-- the same with the (decidable) hypothesis on the list `addressedTo i ch ops` -/
theorem not_addressed_never_obtained (h : At P ops m i l) (hc : CountersOK P.down (projDown m i l)) (ch : Nat)
    (hk : P.down.Ordered ch ∨ P.down.Unordered ch ∨ P.down.Unreliable ch) (x : Bytes)
    (hno : x ∉ addressedTo i ch ops) : x ∉ l.obtC ch := by
  intro hx
  obtain ⟨op, hop, hh⟩ := obtained_only_if_addressed h hc ch hk x hx
  exact hno (List.mem_flatMap.mpr ⟨op, hop, (mem_addressed_iff op i ch x).mpr hh⟩)

/-- **2. A message a client sent is obtained only under that client's id.**  What the server application obtains
    under id `i` on channel `ch` of the client → server configuration is a prefix of (unordered: distinct positions
    of; unreliable: contained in) the log of what CLIENT `i`'s application submitted, and that log is a sub-sequence
    of `sentBy i ch ops` = the `cliSend i ch ·` operations of the run (`mem_submittedBy_iff`). -/
theorem from_one_under_its_id (h : At P ops m i l) (hc : CountersOK P.up (projUp m i l)) (ch : Nat) :
    (P.up.Ordered ch → l.obtS ch <+: l.subC ch) ∧
    (P.up.Unordered ch →
      ∃ ids : List Nat, ids.Nodup ∧ (l.obtS ch).map some = ids.map (fun k => (l.subC ch)[k]?)) ∧
    (P.up.Unreliable ch → ∀ x ∈ l.obtS ch, x ∈ l.subCU ch) ∧
    (l.subC ch).Sublist (sentBy i ch ops) ∧ (l.subCU ch).Sublist (sentBy i ch ops) :=
  let r := reach P ops m h.run i l h.link h.clean
  ⟨good_ordered r.goodU hc ch, good_unordered r.goodU hc ch, good_unreliable r.goodU hc ch, r.subC ch, r.subCU ch⟩

/-- … so whatever is obtained under id `i` was submitted by client `i` itself, by a `cliSend i ch x` of the run -/
theorem obtained_under_id_only_if_sent_by_it (h : At P ops m i l) (hc : CountersOK P.up (projUp m i l)) (ch : Nat)
    (hk : P.up.Ordered ch ∨ P.up.Unordered ch ∨ P.up.Unreliable ch) (x : Bytes) (hx : x ∈ l.obtS ch) :
    MOp.cliSend i ch x ∈ ops := by
  obtain ⟨t1, t2, t3, t4, t5⟩ := from_one_under_its_id h hc ch
  have hr := reach P ops m h.run i l h.link h.clean
  have : x ∈ sentBy i ch ops := by
    rcases hk with ho | hu | hn
    · exact t4.subset (good_integrity hr.goodU hc ch (Or.inl ho) x hx)
    · exact t4.subset (good_integrity hr.goodU hc ch (Or.inr hu) x hx)
    · exact t5.subset (t3 hn x hx)
  obtain ⟨op, hop, hm⟩ := List.mem_flatMap.mp this
  rw [(mem_submittedBy_iff op i ch x).mp hm] at hop
  exact hop

/-- **3. A broadcast is obtained at most once per client** (reliable kinds).  No message is obtained by `i` more often
    than the server application addressed it to `i`: a message broadcast once (and not otherwise sent to `i`) is
    obtained at most once by every client, whatever the networks duplicate or replay.

    PARTIAL: the "at least once" half (with lossless rounds on the link of `i`, every broadcast issued while `i` was
    connected is obtained by `i` within a bounded number of ticks, irrespective of the other clients' fates) is NOT
    proved here.  It would follow from Props/C01L (`round_delivers`) through the projection, but those theorems are
    stated for runs of `System.Sys` from `Sys.init`, not for the invariant `Good`, and have not been lifted to `VStep`.
    What IS proved towards it: `faults_are_local` / `non_interference` below — the fate of other clients cannot change
    anything on the link of `i` — and the concrete run `Ex` (exactly once at every live client). -/
theorem broadcast_exactly_once_partial (h : At P ops m i l) (hc : CountersOK P.down (projDown m i l)) (ch : Nat)
    (hk : P.down.Ordered ch ∨ P.down.Unordered ch) (x : Bytes) :
    (l.obtC ch).count x ≤ (addressedTo i ch ops).count x := by
  obtain ⟨t1, t2, -, t4, -⟩ := to_one_only_one h hc ch
  refine Nat.le_trans ?_ (t4.count_le x)
  rcases hk with ho | hu
  · exact (t1 ho).sublist.count_le x
  · obtain ⟨ids, hn, he⟩ := t2 hu
    exact count_le_of_ids hn he x

/-- the same for the other direction: nothing is obtained under id `i` more often than client `i` submitted it -/
theorem from_one_at_most_once (h : At P ops m i l) (hc : CountersOK P.up (projUp m i l)) (ch : Nat)
    (hk : P.up.Ordered ch ∨ P.up.Unordered ch) (x : Bytes) :
    (l.obtS ch).count x ≤ (sentBy i ch ops).count x := by
  obtain ⟨t1, t2, -, t4, -⟩ := from_one_under_its_id h hc ch
  refine Nat.le_trans ?_ (t4.count_le x)
  rcases hk with ho | hu
  · exact (t1 ho).sublist.count_le x
  · obtain ⟨ids, hn, he⟩ := t2 hu
    exact count_le_of_ids hn he x

/-! ### 4. faults are local -/

/-- the client an operation is addressed to (`none`: `broadcast`, `broadcast_except`, the server's `update`) -/
def target : MOp → Option Nat
  | .addClient id | .remove id | .srvDisconnect id | .cliDisconnect id | .srvSend id _ _ | .srvRecv id _
  | .cliSend id _ _ | .cliRecv id _ | .cliUpdate id _ | .srvFlush id | .cliFlush id | .deliverToCli id _
  | .deliverToSrv id _ | .hostile id _ => some id
  | .broadcast .. | .broadcastExcept .. | .srvUpdate _ => none

theorem act_skip_of_target {op : MOp} {i j : Nat} (ht : target op = some j) (hne : j ≠ i) : op.act i = .skip := by
  cases op <;> simp only [target, Option.some.injEq, reduceCtorEq] at ht <;> subst ht <;> simp [MOp.act, hne]

/-- **The simulation.**  Every step of the multi-client system is, for every client `i` whose link is untainted
    afterwards and for BOTH directions of that link, a step `VStep` of the (bidirectional) two-endpoint system — an
    operation of `System.Sys`, an endpoint-local operation of the opposite direction, or a stutter — or the start of
    a fresh session of `i`.  (`good_vstep`: every `VStep` preserves the invariants of `System.system_inv`.) -/
theorem step_simulates {m m' : MSys} {op : MOp} (hw : m.WF P) (hs : m.step op = some m') (i : Nat) (l' : Link)
    (hl' : m'.links i = some l') (ht : l'.tainted = false) :
    (m'.view i = LV.fresh P ∧ l' = Link.fresh P) ∨
    ∃ l, m.links i = some l ∧ l.tainted = false ∧ VStep P.down (projDown m i l) (projDown m' i l') ∧
      VStep P.up (projUp m i l) (projUp m' i l') := by
  rcases sim (step_view hw hs i) hl' ht with h | ⟨l, h1, h2, h3, h4, -⟩
  · exact Or.inl h
  · exact Or.inr ⟨l, h1, h2, h3, h4⟩

/-- **Faults are local (one step).**  An operation addressed to client `j` — hostile bytes in `j`'s name, any delivery
    (loss, duplication, reordering) on `j`'s network, `j`'s disconnection or removal, `j`'s own traffic — leaves
    EVERYTHING the system holds about any other client `i` unchanged: its slot in the server table, its remote
    endpoint, both emission histories, every ghost log; so both projections of `i` stutter. -/
theorem faults_are_local {m m' : MSys} {op : MOp} (hw : m.WF P) (hs : m.step op = some m') {i j : Nat}
    (htg : target op = some j) (hne : j ≠ i) :
    m'.view i = m.view i ∧ ∀ l, projDown m' i l = projDown m i l ∧ projUp m' i l = projUp m i l := by
  have h := step_view hw hs i
  rw [act_skip_of_target htg hne] at h
  have e : m'.view i = m.view i := (Option.some.inj h).symm
  exact ⟨e, fun l => by unfold projDown projUp; rw [e]; exact ⟨rfl, rfl⟩⟩

/-- **Non-interference (whole runs).**  Take two runs from the empty server whose LOCAL TRACES for client `i` coincide
    (`trace i ops` = the operations addressed to `i`, the broadcasts that include `i`, the server's `update`s — in
    order; everything addressed to other clients erased).  Then the two final states agree on everything about
    client `i`: the fault schedules, hostile packets, disconnections and traffic of all other clients may differ
    arbitrarily between the two runs — client `i` cannot tell. -/
theorem non_interference {ops1 ops2 : List MOp} {m1 m2 : MSys} (i : Nat) (h1 : (MSys.init P).run ops1 = some m1)
    (h2 : (MSys.init P).run ops2 = some m2) (ht : trace i ops1 = trace i ops2) :
    m1.view i = m2.view i ∧ ∀ l, projDown m1 i l = projDown m2 i l ∧ projUp m1 i l = projUp m2 i l := by
  have e := run_agree i (wf_init P) (wf_init P) rfl h1 h2 ht
  exact ⟨e, fun l => by unfold projDown projUp; rw [e]; exact ⟨rfl, rfl⟩⟩

/-- … in particular: a run extended by ANY operations addressed to other clients (continuing from ANY reachable
    state) ends with the same view of `i` -/
theorem faults_are_local_run {pre ops' : List MOp} {m m' : MSys} (i : Nat) (h1 : (MSys.init P).run pre = some m)
    (h2 : m.run ops' = some m') (hall : ∀ op ∈ ops', ∃ j, target op = some j ∧ j ≠ i) : m'.view i = m.view i := by
  have hw := reach_wf P pre m h1
  have ht : trace i ops' = trace i [] := by
    unfold trace
    rw [List.map_nil, List.filter_nil, List.filter_eq_nil_iff]
    intro a ha
    obtain ⟨op, hop, rfl⟩ := List.mem_map.mp ha
    obtain ⟨j, hj, hne⟩ := hall op hop
    rw [act_skip_of_target hj hne]
    decide
  exact run_agree i hw hw rfl h2 (rfl : m.run [] = some m) ht

/-- C08 per client (server → client direction; the other direction likewise from `per_client_system_inv`): the
    server-side connection of `i` releases message `id` of channel `ch` only after every packet needed to rebuild it
    was handed to client `i` — by `i`'s own network; acks forged in another client's name cannot touch it. -/
theorem release_only_after_delivery_per_client (h : At P ops m i l) (hc : CountersOK P.down (projDown m i l))
    (ch : Nat) (sA : SendRel) (hf : SMap.find? (projDown m i l).a.sendRel ch = some sA) (id : Nat)
    (hid : id < sA.nextId) (hrel : SMap.find? sA.unacked id = none) :
    ∃ x, (l.subS ch)[id]? = some x ∧
      (x.length ≤ SLICE_SIZE → ∃ k ∈ l.delivC, ∃ bytes sq msgs, l.outS[k]? = some bytes ∧
          Packet.fromBytes bytes = .ok (.smallReliable sq ch msgs) ∧ (id, x) ∈ msgs) ∧
      (SLICE_SIZE < x.length → ∀ j, j < divCeil x.length SLICE_SIZE → ∃ k ∈ l.delivC, ∃ bytes sq,
          l.outS[k]? = some bytes ∧
          Packet.fromBytes bytes = .ok (.reliableSlice sq ch
            ⟨id, j, divCeil x.length SLICE_SIZE, sliceBytes x (divCeil x.length SLICE_SIZE) j⟩)) :=
  good_release (reach P ops m h.run i l h.link h.clean).goodD hc ch sA hf id hid hrel

end Theorems

/-! ## non-vacuity: a concrete run with three clients, evaluated by the kernel

  Server → client channels: 0 ReliableOrdered, 1 ReliableUnordered; client → server channel 0 ReliableOrdered.
  Clients 1, 2, 3 connect.  The server application sends [10] to client 1 only, [20] by `broadcast_except(2)`, [30] by
  broadcast on channel 0, [40] by broadcast and [41] to client 3 only on channel 1.  Clients 3, 1, 2 submit [33], [11],
  [22].  Then garbage (`[255]`) arrives at the server in client 2's name: slot 2 is disconnected (its flush is empty).
  Everybody flushes.  Client 3's network delivers `outS[1]`, `outS[0]`, `outS[1]` (reordered, duplicated); client 1's
  delivers in order; the clients' packets reach the server (client 2's hits a dead slot).  The applications drain
  their channels.  The server removes client 2, sends [50] to it (dropped: not in the table) and broadcasts [60];
  it flushes for 1 and 3; the datagram for client 1 is LOST, client 3's arrives. -/
namespace Ex

def P : Params := ⟨60000, [⟨0, .ordered, 100000, 100⟩, ⟨1, .unordered, 100000, 100⟩], [⟨0, .ordered, 100000, 100⟩]⟩
def ops : List MOp :=
  [.addClient 1, .addClient 2, .addClient 3,
   .srvSend 1 0 [10], .broadcastExcept 2 0 [20], .broadcast 0 [30], .broadcast 1 [40], .srvSend 3 1 [41],
   .cliSend 3 0 [33], .cliSend 1 0 [11], .cliSend 2 0 [22],
   .hostile 2 [255],
   .srvFlush 1, .srvFlush 2, .srvFlush 3, .cliFlush 1, .cliFlush 2, .cliFlush 3,
   .deliverToCli 3 1, .deliverToCli 3 0, .deliverToCli 3 1, .deliverToCli 1 0, .deliverToCli 1 1,
   .deliverToSrv 1 0, .deliverToSrv 3 0, .deliverToSrv 2 0,
   .cliRecv 1 0, .cliRecv 1 0, .cliRecv 1 0, .cliRecv 1 0, .cliRecv 1 1, .cliRecv 1 1,
   .cliRecv 3 0, .cliRecv 3 0, .cliRecv 3 0, .cliRecv 3 1, .cliRecv 3 1, .cliRecv 3 1,
   .cliRecv 2 0, .cliRecv 2 1,
   .srvRecv 1 0, .srvRecv 1 0, .srvRecv 3 0, .srvRecv 2 0,
   .remove 2, .srvSend 2 0 [50], .broadcast 0 [60],
   .srvFlush 1, .srvFlush 3, .deliverToCli 3 2, .cliRecv 3 0, .cliRecv 1 0]

def fin : MSys := ((MSys.init P).run ops).getD (MSys.init P)
theorem run : (MSys.init P).run ops = some fin := some_getD (by decide +kernel) _

def l1 : Link := (fin.links 1).getD (Link.fresh P)
def l2 : Link := (fin.links 2).getD (Link.fresh P)
def l3 : Link := (fin.links 3).getD (Link.fresh P)
theorem link1 : fin.links 1 = some l1 := some_getD (by decide +kernel) _
theorem link2 : fin.links 2 = some l2 := some_getD (by decide +kernel) _
theorem link3 : fin.links 3 = some l3 := some_getD (by decide +kernel) _

/-- clients 1 and 3 are untainted (client 2 is not: `facts.2.1`) -/
theorem at1 : At P ops fin 1 l1 := ⟨run, link1, by decide +kernel⟩
theorem at3 : At P ops fin 3 l3 := ⟨run, link3, by decide +kernel⟩

/-- what happened, evaluated once by the kernel.  Per client: obtained on channel 0 / 1, the logs `subS 0` / `subS 1`,
    obtained by the server under the id, `subC 0`, tainted?, number of datagrams emitted server → id, status of the
    slot (`none` = not in the table). -/
abbrev obs (l : Link) (i : Nat) :=
  ([l.obtC 0, l.obtC 1, l.subS 0, l.subS 1, l.obtS 0, l.subC 0], l.tainted, l.outS.length,
    (conn? fin.server i).map (·.status))

theorem facts :
    obs l1 1 = ([[[10], [20], [30]], [[40]], [[10], [20], [30], [60]], [[40]], [[11]], [[11]]], false, 4, some .connected) ∧
    obs l2 2 = ([[], [], [[30]], [[40]], [], [[22]]], true, 0, none) ∧
    obs l3 3 = ([[[20], [30], [60]], [[40], [41]], [[20], [30], [60]], [[40], [41]], [[33]], [[33]]], false, 4,
      some .connected) ∧
    l3.delivC = [1, 0, 1, 2] ∧ l1.delivC = [0, 1] := by
  decide +kernel

theorem countersD1 : CountersOK P.down (projDown fin 1 l1) := by
  refine ⟨?_, ?_, ?_, ?_, ?_⟩ <;> decide +kernel
theorem countersD3 : CountersOK P.down (projDown fin 3 l3) := by
  refine ⟨?_, ?_, ?_, ?_, ?_⟩ <;> decide +kernel
theorem countersU1 : CountersOK P.up (projUp fin 1 l1) := by
  refine ⟨?_, ?_, ?_, ?_, ?_⟩ <;> decide +kernel
theorem countersU3 : CountersOK P.up (projUp fin 3 l3) := by
  refine ⟨?_, ?_, ?_, ?_, ?_⟩ <;> decide +kernel

theorem ordered0 : P.down.Ordered 0 := by unfold Cfg.Ordered; decide
theorem unordered1 : P.down.Unordered 1 := by unfold Cfg.Unordered; decide
theorem upOrdered0 : P.up.Ordered 0 := by unfold Cfg.Ordered; decide

/-- 1. at client 1 and at client 3, channel 0 (ordered): a prefix of the log, the log a sub-sequence of what was
    addressed to the client -/
example : l1.obtC 0 <+: l1.subS 0 ∧ (l1.subS 0).Sublist (addressedTo 1 0 ops) :=
  let t := to_one_only_one at1 countersD1 0; ⟨t.1 ordered0, t.2.2.2.1⟩
example : l3.obtC 0 <+: l3.subS 0 ∧ (l3.subS 0).Sublist (addressedTo 3 0 ops) :=
  let t := to_one_only_one at3 countersD3 0; ⟨t.1 ordered0, t.2.2.2.1⟩
/-- channel 1 (unordered) at client 3 -/
example : ∃ ids : List Nat, ids.Nodup ∧ (l3.obtC 1).map some = ids.map (fun k => (l3.subS 1)[k]?) :=
  (to_one_only_one at3 countersD3 1).2.1 unordered1
/-- [10] was addressed to client 1 only: it never appears at client 3 -/
example : [10] ∉ l3.obtC 0 :=
  not_addressed_never_obtained at3 countersD3 0 (Or.inl ordered0) [10] (by decide)
/-- [20] went out by `broadcast_except(2)`, [41] to client 3 only -/
example : [41] ∉ l1.obtC 1 :=
  not_addressed_never_obtained at1 countersD1 1 (Or.inr (Or.inl unordered1)) [41] (by decide)
/-- 2. what the server obtained under ids 1 and 3 -/
example : l1.obtS 0 <+: l1.subC 0 ∧ (l1.subC 0).Sublist (sentBy 1 0 ops) :=
  let t := from_one_under_its_id at1 countersU1 0; ⟨t.1 upOrdered0, t.2.2.2.1⟩
example : MOp.cliSend 3 0 [33] ∈ ops := by
  have e : l3.obtS 0 = [[33]] := congrArg (fun t => t.1[4]!) facts.2.2.1
  exact obtained_under_id_only_if_sent_by_it at3 countersU3 0 (Or.inl upOrdered0) [33]
    (by rw [e]; exact List.mem_singleton.mpr rfl)
/-- 3. the broadcast [30]: at most once at clients 1 and 3 … -/
example : (l1.obtC 0).count [30] ≤ (addressedTo 1 0 ops).count [30] ∧
    (l3.obtC 0).count [30] ≤ (addressedTo 3 0 ops).count [30] :=
  ⟨broadcast_exactly_once_partial at1 countersD1 0 (Or.inl ordered0) [30],
   broadcast_exactly_once_partial at3 countersD3 0 (Or.inl ordered0) [30]⟩
/-- … and what actually happened: exactly once at the two live clients although client 3's network duplicated and
    reordered; client 1 got exactly [10], [20], [30] and [40] ([60] was lost so far: a strict prefix of its log);
    client 3 exactly [20], [30], [60] and [40], [41]; client 2 — fed garbage, disconnected, removed — got nothing,
    nothing was obtained under its id, the message sent to it after its removal was dropped; under ids 1 and 3 the
    server obtained [11] resp. [33] -/
example : (addressedTo 1 0 ops).count [30] = 1 ∧ (addressedTo 3 0 ops).count [30] = 1 := by decide
example :
    obs l1 1 = ([[[10], [20], [30]], [[40]], [[10], [20], [30], [60]], [[40]], [[11]], [[11]]], false, 4, some .connected) ∧
    obs l2 2 = ([[], [], [[30]], [[40]], [], [[22]]], true, 0, none) ∧
    obs l3 3 = ([[[20], [30], [60]], [[40], [41]], [[20], [30], [60]], [[40], [41]], [[33]], [[33]]], false, 4,
      some .connected) ∧
    l3.delivC = [1, 0, 1, 2] ∧ l1.delivC = [0, 1] := facts

/-- 4. the garbage in client 2's name is a stutter for clients 1 and 3: `pre` = the run up to it -/
def pre : List MOp := ops.take 11
def mid : MSys := ((MSys.init P).run pre).getD (MSys.init P)
theorem runPre : (MSys.init P).run pre = some mid := some_getD (by decide +kernel) _
def mid' : MSys := (mid.step (.hostile 2 [255])).getD mid
theorem stepHostile : mid.step (.hostile 2 [255]) = some mid' := some_getD (by decide +kernel) _
example : mid'.view 1 = mid.view 1 ∧ mid'.view 3 = mid.view 3 :=
  ⟨(faults_are_local (reach_wf P pre mid runPre) stepHostile (j := 2) rfl (by decide)).1,
   (faults_are_local (reach_wf P pre mid runPre) stepHostile (j := 2) rfl (by decide)).1⟩
/-- … and it did hit client 2: its slot is disconnected afterwards -/
example : ((conn? mid'.server 2).map (·.isDisconnected), (conn? mid.server 2).map (·.isDisconnected)) =
    (some true, some false) := by decide +kernel

/-- non-interference: the same run WITHOUT client 2 altogether (never added, no garbage, nothing of its traffic) —
    clients 1 and 3 end in exactly the same state -/
def opsNo2 : List MOp := ops.filter (fun op => target op != some 2)
def finNo2 : MSys := ((MSys.init P).run opsNo2).getD (MSys.init P)
theorem runNo2 : (MSys.init P).run opsNo2 = some finNo2 := some_getD (by decide +kernel) _
example : fin.view 1 = finNo2.view 1 ∧ fin.view 3 = finNo2.view 3 :=
  ⟨(non_interference 1 run runNo2 (by decide)).1, (non_interference 3 run runNo2 (by decide)).1⟩

/-- the step that delivers a datagram to client 3 is a `System.Sys` step of client 3's projections -/
example : ∀ l', mid'.links 3 = some l' → l'.tainted = false → ∀ m'', mid'.step (.srvFlush 3) = some m'' → ∀ l'',
    m''.links 3 = some l'' → l''.tainted = false →
    (m''.view 3 = LV.fresh P ∧ l'' = Link.fresh P) ∨
    ∃ l, mid'.links 3 = some l ∧ l.tainted = false ∧ VStep P.down (projDown mid' 3 l) (projDown m'' 3 l'') ∧
      VStep P.up (projUp mid' 3 l) (projUp m'' 3 l'') :=
  fun _ _ _ _ hs l'' hl ht =>
    step_simulates (step_wf (reach_wf P pre mid runPre) stepHostile) hs 3 l'' hl ht

end Ex

end RenetVerif.C11E
