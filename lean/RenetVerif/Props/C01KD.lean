/-
  C01 — LIVENESS, the k-ROUND bound: item (C) of Props/C01KC.lean CLOSED — "the flush of a round is non-empty" is
  DERIVED for every round that starts with a non-empty backlog.  Definitions and proofs: Lemmas/FlushCount.lean.

  THE CIRCLE of note (C): `su.a.CountersOK` (`flushSeq ≤ 2^62`) was derived from "the flush is non-empty", while every
  lemma that shows the flush non-empty assumes `CountersOK`.  It is broken by a bound on the NUMBER of packets of one
  flush that needs no hypothesis at all:

  (1) `flush_count` / `flush_seq_units`.  `Conn.units c` = over the channel order: for a reliable send channel the
      stored small messages + the slice counts `n` of the stored sliced messages + 1, for an unreliable one the queued
      small messages + the slice counts of the queued sliced ones + 1.  One flush emits at most `units + 1` packets
      (ack packet included), so `flushSeq ≤ packetSeq + units + 1` from the send-side invariant alone.
      Two remarks on the unit count, both deliberate over-approximations (upper bounds, never used as equalities):
        * a stored sliced message counts all its `n` slices, not only the un-acknowledged ones;
        * `+ 1` per channel, not per connection: the code flushes the small-message accumulator when
          `small_messages_bytes + serialized_size > SLICE_SIZE` WITHOUT testing that it is non-empty, so the first small
          message of a flush whose serialised size alone exceeds `SLICE_SIZE` (payload 1198..1200 bytes) emits an
          EMPTY `SmallReliable` packet before its own — one stored small message, two packets (`empty_small_packet`).
      Units never grow except by `send_message` (`FlushCount.units_step`): ack processing releases, a flush re-stamps.
  (2) `flush_nonempty`: in a reachable state, after `update dt` with `dt ≥ resend_time`, a NON-EMPTY backlog on channel
      `ch`, `SLICE_SIZE` bytes of budget at its turn and head-room `packetSeq + units + 1 ≤ 2^62` give
      `flushPk su.a ≠ []` — no hypothesis on the code's counters after the initial state.
  (3) `k_round_delivery_closed3_partial` (+ `_unordered`, `_single`): the k-round theorems with
        `RoundsSched3` = `RoundsSched2` where `r.ks ≠ []` is asked ONLY of a round that starts with an EMPTY backlog,
        `HeadRoom3`    = `HeadRoom2` with `seqA : packetSeq + k * (units + 1) ≤ 2^62` (units of the INITIAL state).
      `one_round_delivery_closed3`: one round from a non-empty backlog — NO clause about `r.ks` being non-empty.

  WHAT REMAINS, and why.  A round that starts with an EMPTY backlog (the bound `k * (B - SLICE_SIZE + 1) ≥ backlog`
  is not sharp, so trailing rounds may find nothing to send: round 3 of the example below) still needs `r.ks ≠ []` as
  a schedule fact: A's flush then consists of at most its ack packet, `Rounds.back` (Props/C01K) demands that B holds
  something to acknowledge in EVERY round, and with `r.ks = []` and an empty `outB` the operation `deliverToA r.ai`
  of the round is not even defined.  Removing it needs a k-round theorem whose round list is cut at the first round
  with an empty backlog — a change to C01K's induction, not attempted here.  The coarse `acks` inequality (with
  `kTotal`, repetitions counted) stays for the reason given in note (B) of Props/C01KC.lean.
  The theorems are proved from `C01K.k_round_delivery` through `FlushCount.rounds_of_sched3` (as the `_closed2` ones go
  through `rounds_of_sched2`), NOT through `k_round_delivery_closed2`: `HeadRoom2.seqA` counts the datagrams the
  schedule hands over WITH repetitions (`kTotal`), which `k * (units + 1)` does not bound.
-/
import RenetVerif.Props.C01KC
import RenetVerif.Lemmas.FlushCount
namespace RenetVerif.C01KD
open RenetVerif C RenetVerif.System RenetVerif.Live RenetVerif.LiveK RenetVerif.LiveKC RenetVerif.FlushCount

/-! ## (1) the number of packets of one flush -/

/-- **One flush emits at most `units + 1` packets** (the `+ 1`: the ack packet).  No hypothesis. -/
theorem flush_count (c : Conn) : (flushPk c).length ≤ c.units + 1 := flushPk_length_le c

/-- **The channel loop appends at most `ordUnits` packets**, whatever the maps, the order and the budget. -/
theorem chanLoop_count (now : Nat) (ord : List (Bool × Nat)) (sr sr' : SMap SendRel) (su su' : SMap SendUnrel)
    (pk pk' : List Packet) (seq avail seq' avail' : Nat)
    (h : Conn.chanLoop now ord (sr, su, pk, seq, avail) = .ok (sr', su', pk', seq', avail')) :
    pk'.length ≤ pk.length + ordUnits sr su ord :=
  (FlushCount.chanLoop_count now ord sr su pk seq avail sr' su' pk' seq' avail' h).1

/-- **`flushSeq ≤ packetSeq + units + 1` in every reachable state, for both endpoints** — no counter hypothesis. -/
theorem flush_seq_units (cfg : Cfg) (ops : List SysOp) (s : Sys) (hr : (Sys.init cfg).run ops = some s) :
    s.a.flushSeq ≤ s.a.packetSeq + s.a.units + 1 ∧ s.b.flushSeq ≤ s.b.packetSeq + s.b.units + 1 := by
  obtain ⟨pk, h1, -⟩ := system_inv cfg ops s hr
  exact ⟨flushSeq_le_units h1.invA.1, flushSeq_le_units h1.invB.1⟩

/-- operations other than `sendA` never raise A's units -/
theorem units_mono (cfg : Cfg) (ops : List SysOp) (s : Sys) (hr : (Sys.init cfg).run ops = some s)
    (ops' : List SysOp) (s' : Sys) (hr' : s.run ops' = some s') (hno : ∀ op ∈ ops', ∀ ch m, op ≠ .sendA ch m) :
    s'.a.units ≤ s.a.units := by
  obtain ⟨pk, h1, -⟩ := system_inv cfg ops s hr
  exact units_run cfg ops' s s' pk h1 hr' hno

/-! ## (2) the flush of a round that starts with a non-empty backlog is non-empty -/

/-- **A's flush is non-empty.**  Reachable `s`, A live, channel `ch` stores something, the clock advances by at least the
    resend time, `SLICE_SIZE` bytes are left at the channel's turn; head-room on `s`: static counters and
    `packetSeq + units + 1 ≤ 2^62`.  Then A's counters are in range after the update and its flush emits a packet. -/
theorem flush_nonempty (cfg : Cfg) (ops : List SysOp) (s : Sys) (hr : (Sys.init cfg).run ops = some s)
    (hda : s.a.isDisconnected = false) (ch : Nat) (sA : SendRel) (hfA : SMap.find? s.a.sendRel ch = some sA)
    (hne : sA.unacked ≠ []) (dt : Nat) (hdt : sA.resend ≤ dt) (su : Sys) (hsu : s.step (.updA dt) = some su)
    (hav : SLICE_SIZE ≤ availAtTurn su.a ch)
    (hst : StaticOK s.a) (hseq : s.a.packetSeq + s.a.units + 1 ≤ Varint.MAX + 1) :
    su.a.CountersOK ∧ flushPk su.a ≠ [] := by
  obtain ⟨hcA, -, -, h⟩ := tick_facts cfg ch ops s hr hda sA hfA dt hdt su hsu hst hseq
  exact ⟨hcA, h hne hav⟩

/-! ## (3) the k-round theorems -/

/-- **C01 liveness, k rounds, side conditions closed (3).**  As `C01KC.k_round_delivery_closed2`; REMOVED in addition:
    `r.ks ≠ []` for every round that starts with a non-empty backlog (derived: `flush_nonempty`); A's head-room is
    `s.a.packetSeq + k * (s.a.units + 1) ≤ 2^62`.  REMAINING: standing hypotheses; `RoundsSched3` (timer, drain,
    `SchedBytes`, all/exact, `r.ai = ackIdx u`, and `r.ks ≠ []` only for a round starting with an EMPTY backlog);
    `HeadRoom3` on the initial state.
    `_partial`: the target was NO clause about `r.ks ≠ []`; what is missing is its removal for rounds that start with an
    EMPTY backlog (see WHAT REMAINS in the header; `one_round_delivery_closed3` has no such clause). -/
theorem k_round_delivery_closed3_partial (cfg : Cfg) (ops : List SysOp) (s : Sys) (hr : (Sys.init cfg).run ops = some s)
    (hda : s.a.isDisconnected = false) (hdb : s.b.isDisconnected = false)
    (ch : Nat) (ho : cfg.Ordered ch) (sA : SendRel) (hfA : SMap.find? s.a.sendRel ch = some sA)
    (rB : RecvRel) (hfB : SMap.find? s.b.recvRel ch = some rB) (H3 : Room (s.submitted ch) rB)
    (B : Nat) (hSB : SLICE_SIZE ≤ B)
    (rs : List RoundP) (hRS : RoundsSched3 ch (SchedBytes ch B) s rs) (hH : HeadRoom3 cfg s rs)
    (hk1 : rs ≠ []) (hk : backlog sA.unacked ≤ rs.length * (B - SLICE_SIZE + 1)) :
    ∃ u, s.run (roundsOps ch rs) = some u ∧ u.a.isDisconnected = false ∧ u.b.isDisconnected = false ∧
      u.submitted ch = s.submitted ch ∧ u.obtained ch = s.submitted ch :=
  C01K.k_round_delivery cfg ops s hr hda hdb ch ho sA hfA rB hfB H3 B hSB rs
    (rounds_of_sched3 cfg ch true ho (SchedBytes ch B) (fun _ _ _ h => ⟨h.1, Nat.le_trans hSB h.2⟩)
      rs ops s sA rB hr hda hdb hfA hfB H3 hRS hH)
    hk1 hk

/-- **Single-channel configuration, side conditions closed (3).**  No scheduling hypothesis.  `_partial` for the same
    reason as `k_round_delivery_closed3_partial`: `r.ks ≠ []` stays for rounds starting with an empty backlog. -/
theorem k_round_delivery_single_closed3_partial (cfg : Cfg) (ops : List SysOp) (s : Sys) (hr : (Sys.init cfg).run ops = some s)
    (hda : s.a.isDisconnected = false) (hdb : s.b.isDisconnected = false)
    (ch : Nat) (hsingle : Single cfg ch) (sA : SendRel) (hfA : SMap.find? s.a.sendRel ch = some sA)
    (rB : RecvRel) (hfB : SMap.find? s.b.recvRel ch = some rB) (H3 : Room (s.submitted ch) rB)
    (hSB : SLICE_SIZE ≤ cfg.budget)
    (rs : List RoundP) (hRS : RoundsSched3 ch (fun _ => True) s rs) (hH : HeadRoom3 cfg s rs)
    (hk1 : rs ≠ []) (hk : backlog sA.unacked ≤ rs.length * (cfg.budget - SLICE_SIZE + 1)) :
    ∃ u, s.run (roundsOps ch rs) = some u ∧ u.a.isDisconnected = false ∧ u.b.isDisconnected = false ∧
      u.submitted ch = s.submitted ch ∧ u.obtained ch = s.submitted ch :=
  C01K.k_round_delivery_single cfg ops s hr hda hdb ch hsingle sA hfA rB hfB H3 hSB rs
    (rounds_of_sched3 cfg ch true (single_ordered hsingle) (fun _ => True)
      (fun ops' su hr' _ => by
        obtain ⟨pkU, hU, -⟩ := system_inv cfg ops' su hr'
        exact ⟨single_only hU.invA.1 (single_order hsingle hU), by rw [single_avail hsingle hU]; exact hSB⟩)
      rs ops s sA rB hr hda hdb hfA hfB H3 hRS hH)
    hk1 hk

/-- **C02 liveness, k rounds (ReliableUnordered), side conditions closed (3).**  `_partial` for the same reason as
    `k_round_delivery_closed3_partial`: `r.ks ≠ []` stays for rounds starting with an empty backlog. -/
theorem k_round_delivery_unordered_closed3_partial (cfg : Cfg) (ops : List SysOp) (s : Sys) (hr : (Sys.init cfg).run ops = some s)
    (hda : s.a.isDisconnected = false) (hdb : s.b.isDisconnected = false)
    (ch : Nat) (ho : cfg.Unordered ch) (sA : SendRel) (hfA : SMap.find? s.a.sendRel ch = some sA)
    (rB : RecvRel) (hfB : SMap.find? s.b.recvRel ch = some rB) (H3 : Room (s.submitted ch) rB)
    (B : Nat) (hSB : SLICE_SIZE ≤ B)
    (rs : List RoundP) (hRS : RoundsSched3 ch (SchedBytes ch B) s rs) (hH : HeadRoom3 cfg s rs)
    (hk1 : rs ≠ []) (hk : backlog sA.unacked ≤ rs.length * (B - SLICE_SIZE + 1)) :
    ∃ u, s.run (roundsOps ch rs) = some u ∧ u.a.isDisconnected = false ∧ u.b.isDisconnected = false ∧
      u.submitted ch = s.submitted ch ∧ (u.obtained ch).Perm (s.submitted ch) :=
  C01K.k_round_delivery_unordered cfg ops s hr hda hdb ch ho sA hfA rB hfB H3 B hSB rs
    (rounds_of_sched3 cfg ch false ho (SchedBytes ch B) (fun _ _ _ h => ⟨h.1, Nat.le_trans hSB h.2⟩)
      rs ops s sA rB hr hda hdb hfA hfB H3 hRS hH)
    hk1 hk

/-- **ONE round from a non-empty backlog: no hypothesis about `r.ks` being non-empty.**  The schedule facts
    `RoundSched0` are timer, drain, `SchedBytes`, all/exact and `r.ai = ackIdx u`; the head-room is
    `packetSeq + units + 1 ≤ 2^62` (and B's, and the ack cap).  One round offering `B ≥ backlog + SLICE_SIZE - 1` bytes
    delivers everything. -/
theorem one_round_delivery_closed3 (cfg : Cfg) (ops : List SysOp) (s : Sys) (hr : (Sys.init cfg).run ops = some s)
    (hda : s.a.isDisconnected = false) (hdb : s.b.isDisconnected = false)
    (ch : Nat) (ho : cfg.Ordered ch) (sA : SendRel) (hfA : SMap.find? s.a.sendRel ch = some sA)
    (hne : sA.unacked ≠ [])
    (rB : RecvRel) (hfB : SMap.find? s.b.recvRel ch = some rB) (H3 : Room (s.submitted ch) rB)
    (B : Nat) (hSB : SLICE_SIZE ≤ B)
    (r : RoundP) (hRS : RoundSched0 ch (SchedBytes ch B) s r) (hH : HeadRoom3 cfg s [r])
    (hk : backlog sA.unacked ≤ B - SLICE_SIZE + 1) :
    ∃ u, s.run (roundsOps ch [r]) = some u ∧ u.a.isDisconnected = false ∧ u.b.isDisconnected = false ∧
      u.submitted ch = s.submitted ch ∧ u.obtained ch = s.submitted ch :=
  k_round_delivery_closed3_partial cfg ops s hr hda hdb ch ho sA hfA rB hfB H3 B hSB [r] (roundsSched3_one hRS hfA hne) hH
    (by simp) (by simpa using hk)

/-! ## non-vacuity

  `C01K.ExS`: 3000 bytes per tick vs. a 3-byte message and a 3700-byte sliced message (4 slices), backlog 4803, `k = 3`.
  `s.a.units = 1 + 4 + 1 = 6`, so the head-room is `0 + 3 * 7 ≤ 2^62`, `0 + 3 ≤ 2^62`, `0 + 7 < 64`.  Rounds 1 and 2
  start with a non-empty backlog (2 resp. 1 stored entries): `r.ks ≠ []` is DERIVED there.  Round 3 starts with an
  empty backlog (everything was delivered after two rounds; the bound asks for three): there the checker verifies
  `r3.ks = [6] ≠ []` — the datagram is A's ack packet. -/
namespace ExS
open C01K.ExS

theorem roundsSched3 : RoundsSched3 0 (fun _ => True) s [r1, r2, r3] :=
  roundsSched3_of_b (schedb := fun _ => true) (fun _ _ => trivial) _ _ (by decide +kernel)

theorem headRoom3 : HeadRoom3 cfg s [r1, r2, r3] := headRoom3_of_b (by decide +kernel)

/-- the numbers behind `headRoom3`, the packets of the three flushes of A (`≤ units + 1 = 7`), and the stored entries
    at the start of rounds 1, 2, 3 -/
example : s.a.units = 6 ∧ s.a.packetSeq = 0 ∧ s.a.flushSeq = 4 ∧
    ((s.step (.updA 1000)).map (fun su => (flushPk su.a).length)) = some 3 ∧
    sA.unacked.length = 2 ∧
    (s.run (roundsOps 0 [r1])).map (fun u => (SMap.find? u.a.sendRel 0).map (fun x => (x.unacked.length, u.a.units))) =
      some (some (1, 5)) ∧
    (s.run (roundsOps 0 [r1, r2])).map (fun u => (SMap.find? u.a.sendRel 0).map (fun x => (x.unacked.length, u.a.units))) =
      some (some (0, 1)) := by decide +kernel

/-- **`k_round_delivery_single_closed3_partial` applied with `k = 3`**: `4803 ≤ 3 * (3000 - 1200 + 1)` -/
theorem delivered3 : ∃ u, s.run (roundsOps 0 [r1, r2, r3]) = some u ∧ u.a.isDisconnected = false ∧
    u.b.isDisconnected = false ∧ u.submitted 0 = s.submitted 0 ∧ u.obtained 0 = s.submitted 0 :=
  k_round_delivery_single_closed3_partial cfg ops s run_s start.1 start.2.1 0 single0 sA find_sA rB find_rB start.2.2.1 (by decide)
    [r1, r2, r3] roundsSched3 headRoom3 (by simp) (by rw [start.2.2.2.1]; decide)

/-- `flush_nonempty` on the first round of that run: the hypotheses hold, so does the conclusion -/
example : ∃ su, s.step (.updA 1000) = some su ∧ su.a.CountersOK ∧ flushPk su.a ≠ [] := by
  obtain ⟨pk, h1, -⟩ := system_inv cfg ops s run_s
  obtain ⟨su, hsu⟩ := updA_step h1 1000
  have hav : SLICE_SIZE ≤ availAtTurn su.a 0 := by
    obtain ⟨pku, h1u, -⟩ := system_inv cfg _ su (run_snoc run_s hsu)
    rw [single_avail single0 h1u]; decide
  exact ⟨su, hsu, flush_nonempty cfg ops s run_s start.1 0 sA find_sA (by decide +kernel) 1000 (by decide +kernel) su hsu hav
    headRoom3.staticA (by decide +kernel)⟩

end ExS

/-! `C01K.ExU` — ReliableUnordered channel, reverse order, one datagram twice in round 2: `kTotal = 8` -/
namespace ExU
open C01K.ExU

theorem roundsSched3 : RoundsSched3 0 (SchedBytes 0 3000) s [r1, r2, r3] :=
  roundsSched3_of_b (schedBytes_of_b 0 3000) _ _ (by decide +kernel)

/-- **`k_round_delivery_unordered_closed3_partial`** on that run -/
theorem delivered3 : ∃ u, s.run (roundsOps 0 [r1, r2, r3]) = some u ∧ u.a.isDisconnected = false ∧
    u.b.isDisconnected = false ∧ u.submitted 0 = s.submitted 0 ∧ (u.obtained 0).Perm (s.submitted 0) :=
  k_round_delivery_unordered_closed3_partial cfg ops s run_s start.1 start.2.1 0 unordered0 sA find_sA rB find_rB start.2.2.1 3000
    (by decide) [r1, r2, r3] roundsSched3 (headRoom3_of_b (by decide +kernel)) (by simp) (by rw [start.2.2.2.1]; decide)

end ExU

/-! one round, nothing assumed about `r.ks`: 3000 bytes per tick, one 3-byte message (backlog 3 ≤ 3000 - 1200 + 1);
    the schedule hands B the datagram(s) of A's flush — `roundSched0b` does NOT test that there is one -/
namespace Ex1

def cfg : Cfg := ⟨3000, [⟨0, .ordered, 100000, 100⟩], [⟨0, .ordered, 100000, 100⟩]⟩
def ops : List SysOp := [.sendA 0 [1, 2, 3]]
def r : RoundP := ⟨1000, [0], 1, 0⟩
def s : Sys := ((Sys.init cfg).run ops).getD (Sys.init cfg)
theorem run_s : (Sys.init cfg).run ops = some s := some_getD (by decide +kernel) _
def sA : SendRel := (SMap.find? s.a.sendRel 0).getD (SendRel.new 0 0 0)
theorem find_sA : SMap.find? s.a.sendRel 0 = some sA := some_getD (by decide +kernel) _
def rB : RecvRel := (SMap.find? s.b.recvRel 0).getD (RecvRel.new 0 true)
theorem find_rB : SMap.find? s.b.recvRel 0 = some rB := some_getD (by decide +kernel) _

theorem start : s.a.isDisconnected = false ∧ s.b.isDisconnected = false ∧ Room (s.submitted 0) rB ∧
    backlog sA.unacked = 3 ∧ sA.unacked ≠ [] ∧ s.a.units = 2 := by decide +kernel

theorem delivered : ∃ u, s.run (roundsOps 0 [r]) = some u ∧ u.a.isDisconnected = false ∧
    u.b.isDisconnected = false ∧ u.submitted 0 = s.submitted 0 ∧ u.obtained 0 = s.submitted 0 :=
  one_round_delivery_closed3 cfg ops s run_s start.1 start.2.1 0 (single_ordered ⟨_, _, rfl⟩) sA find_sA start.2.2.2.2.1
    rB find_rB start.2.2.1 3000 (by decide) r
    (roundSched0_of_b (schedBytes_of_b 0 3000) (by decide +kernel)) (headRoom3_of_b (by decide +kernel))
    (by rw [start.2.2.2.1]; decide)

end Ex1

/-! the empty `SmallReliable` packet behind the `+ 1` per reliable channel: ONE stored small message of 1200 bytes (its
    serialised size 1200 + 2 + 1 exceeds `SLICE_SIZE`) makes the channel emit TWO packets, the first with no message -/
theorem empty_small_packet :
    ((SendRel.new 0 100 100000).sendMessage (List.replicate 1200 7)).toOption.map
      (fun s => (mapUnits s.unacked, relUnits s, (s.getPackets 5 3000 0).2.1.map
        (fun p => match p with | .smallReliable sq _ msgs => (sq, msgs.length) | _ => (0, 99)))) =
      some (1, 2, [(5, 0), (6, 1)]) := by decide +kernel

end RenetVerif.C01KD
