/-
  C11 — the MULTI-CLIENT system, ABOUT THE GENERATED CODE: the invariant package `C11E.per_client_system_inv`
  (`Inv1` / `Inv2` / `InvR` of the projection server → client `i`), as far as it has a reading on the generated system `GMulti`.

  `Props/SrcPropsMulti.lean` and `Props/SrcPropsMultiMore.lean` transfer the CONSEQUENCES of the package that talk about
  messages (`Inv2.concl`, `InvU`, `InvR.relA`).  The remaining clauses talk about the ghost packet list `pkA` (the packets
  behind the emission history `outS`); on the generated system they are read through the GENERATED decoder
  (`GDecodes b gp`: the generated `Packet::from_bytes` on a fresh cursor over `b` returns `gp`) applied to the datagrams of
  `gl.outS` (everything the generated server ever emitted to `i`) and `gl.outC` (everything `i`'s generated client emitted):

    * `src_per_client_sequences_increase`   (`Inv1.encA` + `Inv1.seqA`)  the datagrams the server emitted to client `i` carry
                                            strictly increasing sequence numbers, all below the field `packet_sequence` of the
                                            server's generated connection for `i`: no sequence number is ever reused per client;
    * `src_per_client_record_was_emitted`   (`InvR.sentA` + `Inv2.wfA` + `Inv1.encA`)  every reliable record in `sent_packets` of
                                            the server's (live) generated connection for `i` is a datagram of `gl.outS` that the
                                            generated decoder reads back as a packet with that sequence number and that content
                                            (`gRecordOf`) — C08's "recorded ⇒ emitted" per client, datagram emitted TO THAT CLIENT;
    * `src_per_client_acks_only_delivered`  (`InvR.ackB` + `InvR.ackOutB` + `Inv1.delivB`)  client `i`'s generated `pending_acks`,
                                            and every `Ack` packet client `i` ever emitted (read by the generated decoder), cover
                                            only sequence numbers of datagrams that `i`'s own network handed to `i` (`delivC`).

  NOT transferred (no reading on generated states): `Inv1.reachA/reachB` (model reachability `C08.Reach`), `Inv1.chanA` /
  `Inv1.genA` / `Inv2.recvB` / `InvU` as such (per-channel model invariants `ChanG`, `PktGen`, `ChanBS`, `ChanU`; their
  consequences are the theorems of `SrcPropsMulti`), and the same three theorems for the direction client → server (they follow
  in the same way from the second component of `per_client_system_inv` with `GCountersUp`).

  Hypotheses as in `SrcPropsMulti`: generated run, untainted link, `MRunInRange`; `GCountersDown` where the round trip of
  reliable packets is needed.  Proofs: `SrcMulti.mrun_sim_conv` + `C11E.per_client_system_inv`.
-/
import RenetVerif.Lemmas.SrcEquiv.SrcMultiMore
import RenetVerif.Lemmas.SrcEquiv.SrcConnC08b
import RenetVerif.Lemmas.SrcEquiv.SrcConnC15
import RenetVerif.Props.SrcPropsMulti
set_option maxRecDepth 100000
set_option linter.unusedVariables false
set_option linter.unusedSimpArgs false
namespace RenetVerif.SrcPropsMultiInv
open RenetVerif C RenetVerif.System RenetVerif.MultiSystem RenetVerif.SrcEquiv RenetVerif.SrcSystem RenetVerif.SrcMulti
open RenetVerif.C11E RenetVerif.SrcConnC08b RenetVerif.SrcConnC15
open Src.renet.remote_connection

abbrev GPacket := Src.renet.packet.Packet

/-- the server's generated connection for client `i` (field `connections`; the ghost copy `last` once it was removed) -/
def srvConn (g : GMulti) (i : Nat) (gl : GLink) : RenetClient := (gconn? g.server i).getD gl.last

/-- the datagram with index `k` of `gl.outS` was handed to client `i`, and whatever the generated decoder reads from it has
    sequence number `x` -/
def GDelivSeq (gl : GLink) (x : Nat) : Prop :=
  ∃ k ∈ gl.delivC, ∃ bytes, gl.outS[k]? = some bytes ∧
    ∀ gp : GPacket, GDecodes bytes gp → (Src.renet.packet.Packet.sequence gp : Res Empty Nat) = .ok x

/-! ## auxiliary -/

theorem pairwise_getElem? {α : Type} {R : α → α → Prop} : ∀ {l : List α}, l.Pairwise R → ∀ {j k : Nat} {a b : α}, j < k →
    l[j]? = some a → l[k]? = some b → R a b
  | [], _, j, k, a, b, _, ha, _ => by simp at ha
  | x :: l, h, j, k, a, b, hjk, ha, hb => by
    rw [List.pairwise_cons] at h
    cases k with
    | zero => omega
    | succ k =>
      simp only [List.getElem?_cons_succ] at hb
      cases j with
      | zero =>
        simp only [List.getElem?_cons_zero, Option.some.injEq] at ha; subst ha
        exact h.1 b (List.mem_of_getElem? hb)
      | succ j =>
        simp only [List.getElem?_cons_succ] at ha
        exact pairwise_getElem? h.2 (by omega) ha hb

/-- the server's generated connection for `i` represents the `a` side of the projection server → `i` -/
theorem srvConn_repr {m : MSys} {g : GMulti} (sim : SimMulti m g) {i : Nat} {l : Link} {gl : GLink} (hsl : SimLink l gl) :
    ∃ mrs, srvConn g i gl = reprConn mrs (projDown m i l).a := by
  obtain ⟨mrss, hS⟩ := sim.server
  obtain ⟨mrs, hlast⟩ := hsl.last
  unfold srvConn
  rw [hS, gconn_repr, hlast]
  show ∃ mrs', _ = reprConn mrs' ((conn? m.server i).getD l.last)
  cases conn? m.server i with
  | none => exact ⟨_, rfl⟩
  | some c => exact ⟨_, rfl⟩

/-- a datagram of the model history behind an index of the generated history -/
theorem outS_lookup {l : Link} {gl : GLink} (hsl : SimLink l gl) {k : Nat} {bytes : GBytes} (h : gl.outS[k]? = some bytes) :
    ∃ b, l.outS[k]? = some b ∧ bytes = toNats b := by
  rw [hsl.outS, List.getElem?_map] at h
  cases hb : l.outS[k]? with
  | none => rw [hb] at h; cases h
  | some b => rw [hb] at h; cases h; exact ⟨b, rfl, rfl⟩

/-- model `DelivSeq` (ghost packet list) ↦ its reading through the generated decoder -/
theorem gdelivSeq_of {cfg : Cfg} {s : Sys} {pkA : List Packet} (h1 : Inv1 cfg s pkA) {l : Link} {gl : GLink}
    (hsl : SimLink l gl) (hout : s.outA = l.outS) (hdel : s.deliveredToB = l.delivC) {x : Nat}
    (h : DelivSeq s.deliveredToB pkA x) : GDelivSeq gl x := by
  obtain ⟨k, hk, p, hp, hseq⟩ := h
  obtain ⟨b, hb, henc⟩ := enc_lookup' h1.encA hp
  refine ⟨k, by rw [hsl.delivC, ← hdel]; exact hk, toNats b, by rw [hsl.outS, List.getElem?_map, ← hout, hb]; rfl, ?_⟩
  intro gp hgp
  obtain ⟨p', hp', rfl⟩ := gdecodes_inv hgp
  rw [packet_sequence_eq, (fromBytes_of_enc henc hp').1, hseq]

/-! ## `Inv1.encA` + `Inv1.seqA`: sequence numbers per client strictly increase -/

/-- **The datagrams the generated server emits to one client carry strictly increasing sequence numbers** (any run, any
    interleaving with the other clients).  For two datagrams of `gl.outS` — everything the generated server's
    `get_packets_to_send(i)` ever returned — at positions `j < k`, which the GENERATED decoder reads as `gp` and `gq`:
    `sequence gp < sequence gq`, and both are below the field `packet_sequence` of the server's generated connection for `i`. -/
theorem src_per_client_sequences_increase (P : Params) (ops : List MOp) (g : GMulti) (i : Nat) (gl : GLink)
    (hr : GMulti.exec P ops = some g) (hl : g.links i = some gl) (hclean : gl.tainted = false)
    (hrg : MRunInRange P ops) (j k : Nat) (bj bk : GBytes) (gp gq : GPacket) (hjk : j < k)
    (hj : gl.outS[j]? = some bj) (hk : gl.outS[k]? = some bk) (dj : GDecodes bj gp) (dk : GDecodes bk gq) :
    ∃ sj sk, (Src.renet.packet.Packet.sequence gp : Res Empty Nat) = .ok sj ∧
      (Src.renet.packet.Packet.sequence gq : Res Empty Nat) = .ok sk ∧ sj < sk ∧
      sk < (srvConn g i gl).packet_sequence := by
  obtain ⟨m, hm, sim⟩ := mrun_sim_conv P ops g hrg hr
  obtain ⟨l, hml, hsl⟩ := link_of_sim sim hl
  have hat : C11E.At P ops m i l := ⟨hm, hml, by rw [← hsl.tainted]; exact hclean⟩
  obtain ⟨⟨pkA, h1, -, -, -⟩, -⟩ := C11E.per_client_system_inv hat
  obtain ⟨mrs, hA⟩ := srvConn_repr sim hsl (i := i)
  obtain ⟨b1, hb1, rfl⟩ := outS_lookup hsl hj
  obtain ⟨b2, hb2, rfl⟩ := outS_lookup hsl hk
  obtain ⟨p1, hp1, rfl⟩ := gdecodes_inv dj
  obtain ⟨p2, hp2, rfl⟩ := gdecodes_inv dk
  obtain ⟨q1, hq1, he1⟩ := enc_lookup h1.encA (show (projDown m i l).outA[j]? = some b1 from hb1)
  obtain ⟨q2, hq2, he2⟩ := enc_lookup h1.encA (show (projDown m i l).outA[k]? = some b2 from hb2)
  have hlt : q1.sequence < q2.sequence :=
    pairwise_getElem? h1.seqA.1 hjk (by rw [List.getElem?_map, hq1]; rfl) (by rw [List.getElem?_map, hq2]; rfl)
  have hbd := h1.seqA.2 q2 (List.mem_of_getElem? hq2)
  refine ⟨p1.sequence, p2.sequence, packet_sequence_eq p1, packet_sequence_eq p2, ?_, ?_⟩
  · rw [(fromBytes_of_enc he1 hp1).1, (fromBytes_of_enc he2 hp2).1]; exact hlt
  · rw [(fromBytes_of_enc he2 hp2).1, hA]; exact hbd

/-! ## `InvR.sentA` + `Inv2.wfA`: every reliable record of the server's table for `i` was emitted to `i` -/

/-- **What the server's connection for `i` records as sent was emitted to client `i`, and reads back as recorded.**  `ps` is an
    entry under `seq` of the generated `sent_packets` of the server's generated connection for `i`, which is not disconnected,
    and `ps.info` is a reliable record (`ReliableMessages` / `ReliableSliceMessage`).  Then some datagram of `gl.outS` — the
    emission history server → `i`; NOT a datagram emitted to another client — is read by the GENERATED decoder as a packet `gp`
    with `Packet::sequence = seq` for which `get_packets_to_send` records exactly `ps.info` (`gRecordOf`: same channel, the ids
    of its messages / its message id and slice index). -/
theorem src_per_client_record_was_emitted (P : Params) (ops : List MOp) (g : GMulti) (i : Nat) (gl : GLink)
    (hr : GMulti.exec P ops = some g) (hl : g.links i = some gl) (hclean : gl.tainted = false)
    (hrg : MRunInRange P ops) (hc : GCountersDown P g i gl)
    (hlive : ∀ r, (srvConn g i gl).connection_status ≠ .Disconnected r)
    (seq : Nat) (ps : PacketSent) (hf : RustSem.Map.find? (srvConn g i gl).sent_packets seq = some ps)
    (hrel : (∃ ch ids, ps.info = .ReliableMessages ch ids) ∨ ∃ ch id idx, ps.info = .ReliableSliceMessage ch id idx) :
    ∃ (k : Nat) (bytes : GBytes) (gp : GPacket), gl.outS[k]? = some bytes ∧ GDecodes bytes gp ∧
      (Src.renet.packet.Packet.sequence gp : Res Empty Nat) = .ok seq ∧ gRecordOf gp = some ps.info := by
  obtain ⟨m, hm, sim⟩ := mrun_sim_conv P ops g hrg hr
  obtain ⟨l, hml, hsl⟩ := link_of_sim sim hl
  have hat : C11E.At P ops m i l := ⟨hm, hml, by rw [← hsl.tainted]; exact hclean⟩
  obtain ⟨⟨pkA, h1, h2, hR, -⟩, -⟩ := C11E.per_client_system_inv hat
  have h2' := h2 (countersDown_of_sim sim hsl hc)
  obtain ⟨mrs, hA⟩ := srvConn_repr sim hsl (i := i)
  rw [hA] at hf hlive
  have hd : (projDown m i l).a.isDisconnected = false := by
    unfold Conn.isDisconnected
    cases hst : (projDown m i l).a.status with
    | connected => rfl
    | connecting => rfl
    | disconnected r => exact absurd (by simp only [reprConn, hst, reprStatus]) (hlive (reprReason r))
  rw [SrcConnC08.find_sent_repr] at hf
  cases hfs : SMap.find? (projDown m i l).a.sent seq with
  | none => rw [hfs] at hf; cases hf
  | some v =>
    obtain ⟨tm, info⟩ := v
    rw [hfs] at hf; cases hf
    obtain ⟨p, hp, hseq, hinfo⟩ := hR.sentA hd seq tm info hfs
    have hisrel : isRel p = true := by
      cases p with
      | smallReliable _ _ _ => rfl
      | reliableSlice _ _ _ => rfl
      | smallUnreliable s c ms =>
        simp only [Conn.sentInfoOf, Res.ok.injEq] at hinfo; subst hinfo
        rcases hrel with ⟨ch, ids, e⟩ | ⟨ch, id, idx, e⟩ <;> cases e
      | unreliableSlice s c sl =>
        simp only [Conn.sentInfoOf, Res.ok.injEq] at hinfo; subst hinfo
        rcases hrel with ⟨ch, ids, e⟩ | ⟨ch, id, idx, e⟩ <;> cases e
      | ack s r =>
        have := gRecordOf_repr hinfo
        simp only [reprPacket, gRecordOf] at this
        cases hl : (r.map reprRange).getLast? with
        | none => rw [hl] at this; cases this
        | some x =>
          rw [hl] at this; simp only [Option.map_some, Option.some.injEq] at this
          rcases hrel with ⟨ch, ids, e⟩ | ⟨ch, id, idx, e⟩
          · simp only [reprSentEntry] at e; rw [← this] at e; cases e
          · simp only [reprSentEntry] at e; rw [← this] at e; cases e
    have hwf := h2'.wfA p hp hisrel
    obtain ⟨k, hk⟩ := List.getElem?_of_mem hp
    obtain ⟨b, hb, henc⟩ := enc_lookup' h1.encA hk
    obtain ⟨b', hb', hdec⟩ := Packet.fromBytes_enc p hwf
    rw [henc] at hb'; cases hb'
    refine ⟨k, toNats b, reprPacket p, ?_, gdecodes_of_fromBytes hdec, by rw [packet_sequence_eq, hseq], gRecordOf_repr hinfo⟩
    rw [hsl.outS, List.getElem?_map]
    have : l.outS[k]? = some b := hb
    rw [this]; rfl

/-! ## `InvR.ackB` + `InvR.ackOutB`: client `i` acknowledges only what its own network handed to it -/

/-- **Client `i` acknowledges only datagrams that were handed to client `i`.**  (a) every sequence number covered by the
    generated `pending_acks` of `i`'s generated client, and (b) every sequence number covered by a range of an `Ack` packet that
    the GENERATED decoder reads from a datagram client `i` ever emitted (`gl.outC`), is the sequence number of a datagram of
    `gl.outS` whose index is in `gl.delivC` — it was emitted by the server TO `i` and delivered by `i`'s own network; deliveries,
    hostile bytes and acknowledgements on the links of other clients contribute nothing.  (`GDelivSeq`: "has sequence number
    `x`" is "whatever the generated decoder reads from that datagram has `Packet::sequence = x`"; that the decoder accepts the
    datagram is not part of the invariant package — for reliable packets it follows as in
    `src_per_client_record_was_emitted`.) -/
theorem src_per_client_acks_only_delivered (P : Params) (ops : List MOp) (g : GMulti) (i : Nat) (gl : GLink)
    (hr : GMulti.exec P ops = some g) (hl : g.links i = some gl) (hclean : gl.tainted = false)
    (hrg : MRunInRange P ops) :
    (∀ x, (∃ r ∈ gl.cl.pending_acks, r.start ≤ x ∧ x < r.«end») → GDelivSeq gl x) ∧
    (∀ b ∈ gl.outC, ∀ aseq ranges, GDecodes b (.Ack aseq ranges) →
      ∀ x, (∃ r ∈ ranges, r.start ≤ x ∧ x < r.«end») → GDelivSeq gl x) ∧
    (∀ k ∈ gl.delivC, k < gl.outS.length) := by
  obtain ⟨m, hm, sim⟩ := mrun_sim_conv P ops g hrg hr
  obtain ⟨l, hml, hsl⟩ := link_of_sim sim hl
  have hat : C11E.At P ops m i l := ⟨hm, hml, by rw [← hsl.tainted]; exact hclean⟩
  obtain ⟨⟨pkA, h1, -, hR, -⟩, -⟩ := C11E.per_client_system_inv hat
  refine ⟨?_, ?_, ?_⟩
  · intro x hx
    obtain ⟨mrs, hcl⟩ := hsl.cl
    rw [hcl] at hx
    exact gdelivSeq_of h1 hsl rfl rfl (hR.ackB x (SrcConnC08.mem_pendingAcks_repr hx))
  · intro b hb aseq ranges hdec x hx
    rw [hsl.outC] at hb
    obtain ⟨b0, hb0, rfl⟩ := List.mem_map.mp hb
    obtain ⟨p, hp, hrepr⟩ := gdecodes_inv hdec
    cases p with
    | ack s r =>
      simp only [reprPacket, Src.renet.packet.Packet.Ack.injEq] at hrepr
      obtain ⟨rfl, rfl⟩ := hrepr
      exact gdelivSeq_of h1 hsl rfl rfl (hR.ackOutB b0 hb0 _ _ hp x (mem_of_reprRange hx))
    | smallReliable _ _ _ => simp only [reprPacket] at hrepr; cases hrepr
    | smallUnreliable _ _ _ => simp only [reprPacket] at hrepr; cases hrepr
    | reliableSlice _ _ _ => simp only [reprPacket] at hrepr; cases hrepr
    | unreliableSlice _ _ _ => simp only [reprPacket] at hrepr; cases hrepr
  · intro k hk
    rw [hsl.delivC] at hk
    have := h1.delivB k hk
    rw [hsl.outS, List.length_map]
    exact this

/-! ## non-vacuity: the run of `C11E.Ex` ON THE GENERATED CODE (`SrcPropsMulti.Ex`), client 3

  Three clients; client 3's network delivers `outS[1]`, `outS[0]`, `outS[1]` (reordered, duplicated), later `outS[2]`; garbage
  arrives in client 2's name.  `opsX` = that run followed by one more `get_packets_to_send` of client 3, whose output is the
  client's `Ack` packet. -/
namespace Ex
open RenetVerif.SrcPropsMulti.Ex

/-- what the generated decoder reads: sequence number and what `get_packets_to_send` records for the packet -/
def look (b : GBytes) : Option (Nat × Option PacketSentInfo) :=
  match Src.renet.packet.Packet.from_bytes (RustSem.Octets.with_slice b) with
  | .ok (_, gp) => some (match (Src.renet.packet.Packet.sequence gp : Res Empty Nat) with | .ok s => s | _ => 0, gRecordOf gp)
  | _ => none

theorem gdecodes_of_look {b : GBytes} {gp : GPacket} {cur : RustSem.Octets}
    (h : Src.renet.packet.Packet.from_bytes (RustSem.Octets.with_slice b) = .ok (cur, gp)) : GDecodes b gp := ⟨cur, h⟩

/-- **the kernel's view on the generated code**: the four datagrams the generated server emitted to client 3, read by the
    generated decoder (sequence numbers 0, 1, 2, 3); the generated `sent_packets` and `packet_sequence` of the server's
    connection for 3; which datagrams client 3 was handed, and client 3's generated `pending_acks` -/
theorem ifacts :
    gl3.outS.map look = [some (0, some (.ReliableMessages 0 [0, 1])), some (1, some (.ReliableMessages 1 [0, 1])),
      some (2, some (.ReliableMessages 0 [2])), some (3, some (.Ack 0))] ∧
    (srvConn gfin 3 gl3).sent_packets.map (fun x => (x.1, x.2.info)) =
      [(0, .ReliableMessages 0 [0, 1]), (1, .ReliableMessages 1 [0, 1]), (2, .ReliableMessages 0 [2]), (3, .Ack 0)] ∧
    (srvConn gfin 3 gl3).packet_sequence = 4 ∧ (srvConn gfin 3 gl3).connection_status = .Connected ∧
    gl3.delivC = [1, 0, 1, 2] ∧ gl3.cl.pending_acks = [⟨0, 3⟩] := by
  decide +kernel

/-- **`src_per_client_record_was_emitted` applied** to the record under sequence number 2 (the packet that carried the
    broadcast `[60]`, message id 2 of channel 0) of the server's connection for client 3 -/
example : ∃ (k : Nat) (bytes : GBytes) (gp : GPacket), gl3.outS[k]? = some bytes ∧ GDecodes bytes gp ∧
    (Src.renet.packet.Packet.sequence gp : Res Empty Nat) = .ok 2 ∧ gRecordOf gp = some (.ReliableMessages 0 [2]) :=
  src_per_client_record_was_emitted P ops gfin 3 gl3 grun glink3 clean3 inRange gcountersD3
    (by rw [ifacts.2.2.2.1]; intro r h; cases h) 2 ⟨0, .ReliableMessages 0 [2]⟩ (by decide +kernel) (Or.inl ⟨0, [2], rfl⟩)

/-- **`src_per_client_acks_only_delivered` applied**: client 3 has `[0, 3)` pending — each of 0, 1, 2 is the sequence number of
    a datagram with index in `delivC = [1, 0, 1, 2]` -/
example : GDelivSeq gl3 0 ∧ GDelivSeq gl3 1 ∧ GDelivSeq gl3 2 := by
  have h := (src_per_client_acks_only_delivered P ops gfin 3 gl3 grun glink3 clean3 inRange).1
  have e : gl3.cl.pending_acks = [⟨0, 3⟩] := ifacts.2.2.2.2.2
  exact ⟨h 0 ⟨⟨0, 3⟩, by rw [e]; exact List.mem_singleton.mpr rfl, by decide, by decide⟩,
    h 1 ⟨⟨0, 3⟩, by rw [e]; exact List.mem_singleton.mpr rfl, by decide, by decide⟩,
    h 2 ⟨⟨0, 3⟩, by rw [e]; exact List.mem_singleton.mpr rfl, by decide, by decide⟩⟩
example : ∀ k ∈ gl3.delivC, k < gl3.outS.length :=
  (src_per_client_acks_only_delivered P ops gfin 3 gl3 grun glink3 clean3 inRange).2.2

/-- one more flush of client 3: its output is the client's `Ack` packet covering `[0, 3)` -/
abbrev opsX : List MOp := ops ++ [.cliFlush 3]
def gX : GMulti := (GMulti.exec P opsX).getD gzero
def glX3 : GLink := (gX.links 3).getD lzero
theorem inRangeX : MRunInRange P opsX := by decide +kernel
theorem grunX : GMulti.exec P opsX = some gX := some_getD (by decide +kernel) _
theorem glinkX3 : gX.links 3 = some glX3 := some_getD (by decide +kernel) _
theorem xfacts : glX3.outC.map look = [some (0, some (.ReliableMessages 0 [0])), some (1, some (.Ack 2))] ∧
    glX3.tainted = false ∧ glX3.delivC = [1, 0, 1, 2] := by decide +kernel

/-- the generated decoder as an `Option` (for kernel evaluation) -/
def dec (b : GBytes) : Option (RustSem.Octets × GPacket) :=
  match Src.renet.packet.Packet.from_bytes (RustSem.Octets.with_slice b) with
  | .ok v => some v
  | _ => none
theorem gdecodes_of_dec {b : GBytes} {d : RustSem.Octets × GPacket} (h : dec b = some d) : GDecodes b d.2 := by
  unfold dec at h
  split at h
  · rename_i v hv; cases h; exact ⟨d.1, hv⟩
  · cases h
def dzero : RustSem.Octets × GPacket := (RustSem.Octets.with_slice [], .Ack 0 [])
def b0 : GBytes := (gl3.outS[0]?).getD []
def b2 : GBytes := (gl3.outS[2]?).getD []
def d0 := (dec b0).getD dzero
def d2 := (dec b2).getD dzero
theorem hb0 : gl3.outS[0]? = some b0 := some_getD (by decide +kernel) _
theorem hb2 : gl3.outS[2]? = some b2 := some_getD (by decide +kernel) _
theorem hd0 : dec b0 = some d0 := some_getD (by decide +kernel) _
theorem hd2 : dec b2 = some d2 := some_getD (by decide +kernel) _

/-- **`src_per_client_sequences_increase` applied** to the first and the third datagram the generated server emitted to
    client 3 (sequence numbers 0 and 2, `packet_sequence` 4) -/
example : ∃ sj sk, (Src.renet.packet.Packet.sequence d0.2 : Res Empty Nat) = .ok sj ∧
    (Src.renet.packet.Packet.sequence d2.2 : Res Empty Nat) = .ok sk ∧ sj < sk ∧ sk < (srvConn gfin 3 gl3).packet_sequence :=
  src_per_client_sequences_increase P ops gfin 3 gl3 grun glink3 clean3 inRange 0 2 b0 b2 d0.2 d2.2 (by decide) hb0 hb2
    (gdecodes_of_dec hd0) (gdecodes_of_dec hd2)

/-- **`src_per_client_acks_only_delivered` (b) applied**: the `Ack` packet client 3 emitted in `opsX` (second datagram of
    `glX3.outC`, read by the generated decoder as `Ack 1 [0, 3)`) covers 0, 1, 2 — each the sequence number of a delivered
    datagram -/
def bA : GBytes := (glX3.outC[1]?).getD []
def dA := (dec bA).getD dzero
theorem hbA : bA ∈ glX3.outC := by decide +kernel
theorem hdA : dec bA = some dA := some_getD (by decide +kernel) _
theorem hdA2 : dA.2 = .Ack 1 [⟨0, 3⟩] := by decide +kernel
example : GDelivSeq glX3 0 ∧ GDelivSeq glX3 1 ∧ GDelivSeq glX3 2 := by
  have hdec : GDecodes bA (.Ack 1 [⟨0, 3⟩]) := by rw [← hdA2]; exact gdecodes_of_dec hdA
  have h := (src_per_client_acks_only_delivered P opsX gX 3 glX3 grunX glinkX3 xfacts.2.1 inRangeX).2.1 bA hbA 1 [⟨0, 3⟩] hdec
  exact ⟨h 0 ⟨⟨0, 3⟩, List.mem_singleton.mpr rfl, by decide, by decide⟩,
    h 1 ⟨⟨0, 3⟩, List.mem_singleton.mpr rfl, by decide, by decide⟩,
    h 2 ⟨⟨0, 3⟩, List.mem_singleton.mpr rfl, by decide, by decide⟩⟩

end Ex

end RenetVerif.SrcPropsMultiInv
