/-
  C06 — "Whatever bytes are handed to process_packet of a client connection or to process_packet_from of a
  server, in whatever connection state and history, the call returns normally: the packet is either processed or
  the affected connection becomes disconnected with a reason.  Subsequent API calls on that endpoint and on the
  server's other connections keep working, and the memory accounted to buffered or partially reassembled data
  stays within the configured channel budgets without wrapping around."

  Proofs: Lemmas/ConnInv.lean (composition of Lemmas/SendInv, RecvInv, Acks, Flush, ServerLemmas).

  The statement is an inductive invariant `Conn.Inv`:
    * `Conn.SendInv` (C08): reliable send channels exact, sent-packet table consistent with them, send order valid;
    * pending acks: `Acks.WF`, at most `ACK_RANGE_CAP` ranges, range ends ≤ 2^62 (C13/C16);
    * every receive channel: `RecvRel.WInv` / `RecvUnrel.WInv` (C06R) — exact accounting, `mem ≤ maxMem`,
      every stored slice constructor consistent;
    * every unreliable send channel: `mem = Σ queued lengths ≤ maxMem`.
  In the model every Rust operation that can unwind (index, `unwrap`, checked subtraction, `unreachable!`) is an
  explicit `Res.panic`; "returns normally" is `= .ok _`, "without wrapping around" is "no checked subtraction failed".

  `Conn.SInv` is the same with the strict constructor invariant; since `process_packet` only sees slices the
  decoder produced (`num_slices ≥ 1`), it too is preserved on every byte string.

  Side conditions that remain (and why):
    * `send_message` / `receive_message` / `channel_available_memory` with a channel id that names no channel
      panic by API contract — shown to be the ONLY panic (`…_panics_only_on_invalid_channel`);
    * `get_packets_to_send` needs the wire counters below 2^62 (`Conn.CountersOK`): octets varints cannot carry
      more and `put_varint` hits `unreachable!`.  No hostile input can move these counters; they advance by at most
      one per sent message / packet.
-/
import RenetVerif.Lemmas.ConnInv
namespace RenetVerif.C06
open RenetVerif C

/-! ## 1. the invariant -/

/-- the content of `Conn.Inv` -/
theorem conn_inv_content (c : Conn) : c.Inv ↔
    (c.SendInv ∧ Acks.WF c.pendingAcks ∧ c.pendingAcks.length ≤ ACK_RANGE_CAP ∧
     (∀ r ∈ c.pendingAcks, r.2 ≤ Varint.MAX + 1) ∧
     (∀ x ∈ c.recvRel, x.2.WInv) ∧ (∀ x ∈ c.recvUnrel, x.2.WInv) ∧
     (∀ x ∈ c.sendUnrel, x.2.mem = sumLen x.2.queue ∧ x.2.mem ≤ x.2.maxMem)) :=
  ⟨fun h => ⟨h.send, h.acksWF, h.acksLen, h.acksBound, h.recvRel, h.recvUnrel, h.sendUnrel⟩,
   fun ⟨a, b, c1, d, e, f, g⟩ => ⟨a, b, c1, d, e, f, g⟩⟩

/-- per-channel view (by channel id) -/
theorem conn_inv_channels (c : Conn) (h : c.Inv) :
    (∀ ch s, SMap.find? c.sendRel ch = some s → s.Inv ∧ s.ch = ch) ∧
    (∀ ch s, SMap.find? c.sendUnrel ch = some s → s.mem = sumLen s.queue ∧ s.mem ≤ s.maxMem) ∧
    (∀ ch r, SMap.find? c.recvRel ch = some r → r.WInv) ∧
    (∀ ch r, SMap.find? c.recvUnrel ch = some r → r.WInv) :=
  ⟨fun _ _ hf => h.sendRel_find hf, fun _ _ hf => h.sendUnrel_find hf, fun _ _ hf => h.recvRel_find hf,
   fun _ _ hf => h.recvUnrel_find hf⟩

theorem strict_implies_weak (c : Conn) (h : c.SInv) : c.Inv := CI.sinv_inv h

/-- a freshly configured connection satisfies both invariants, for ANY channel configuration (no hypothesis on
    the ids: a duplicate id simply replaces the earlier channel object, as in the Rust constructor) -/
theorem fresh_connection (budget : Nat) (send recv : List ChanCfg) :
    (Conn.fromChannels budget send recv).SInv ∧ (Conn.fromChannels budget send recv).Inv :=
  ⟨CI.fromChannels_invP budget send recv, CI.fromChannels_invP budget send recv⟩

/-! ## 2. `process_packet`: every byte string, every state -/

/-- **C06, client connection.**  From any state satisfying the invariant, for EVERY byte string: the call returns
    normally, the invariant holds again, the status is unchanged or the connection is disconnected with a reason,
    and no channel appears or disappears. -/
theorem processPacket_total (c : Conn) (h : c.Inv) (bytes : Bytes) :
    ∃ c', c.processPacket bytes = .ok c' ∧ c'.Inv ∧
      (c'.status = c.status ∨ ∃ r, c'.status = .disconnected r) ∧ c.SameChans c' :=
  CI.processPacket_totalP goodP_winv h bytes

/-- the same for the strict invariant: bytes off the wire never create a dead constructor -/
theorem processPacket_total_strict (c : Conn) (h : c.SInv) (bytes : Bytes) :
    ∃ c', c.processPacket bytes = .ok c' ∧ c'.SInv ∧
      (c'.status = c.status ∨ ∃ r, c'.status = .disconnected r) ∧ c.SameChans c' :=
  CI.processPacket_totalP goodP_inv h bytes

theorem processPacket_never_panics (c : Conn) (h : c.Inv) (bytes : Bytes) (s : String) :
    c.processPacket bytes ≠ .panic s := by
  obtain ⟨c', e, -⟩ := processPacket_total c h bytes
  rw [e]; intro hx; cases hx

/-! ## 3. the other public operations -/

theorem update_total (c : Conn) (h : c.Inv) (dt : Nat) :
    ∃ c', c.update dt = .ok c' ∧ c'.Inv ∧ c'.status = c.status ∧ c'.now = c.now + dt ∧ c.SameChans c' := by
  obtain ⟨c', e, i, s, n, -, sc, -⟩ := CI.update_totalP h dt
  exact ⟨c', e, i, s, n, sc⟩

theorem receiveMessage_total (c : Conn) (h : c.Inv) (ch : Nat) (hch : c.hasRecv ch) :
    ∃ c' m, c.receiveMessage ch = .ok (c', m) ∧ c'.Inv ∧ c'.status = c.status ∧ c.SameChans c' :=
  CI.receiveMessage_totalP h ch hch

/-- the only panic of `receive_message`: a live connection asked for a channel id it does not have -/
theorem receiveMessage_panics_only_on_invalid_channel (c : Conn) (h : c.Inv) (ch : Nat) :
    (∃ s, c.receiveMessage ch = .panic s) ↔ (c.isDisconnected = false ∧ ¬ c.hasRecv ch) :=
  CI.receiveMessage_panic_iffP h ch

theorem sendMessage_total (c : Conn) (h : c.Inv) (ch : Nat) (m : Bytes) (hch : c.hasSend ch) :
    ∃ c', c.sendMessage ch m = .ok c' ∧ c'.Inv ∧
      (c'.status = c.status ∨ ∃ e, c'.status = .disconnected (.sendChan ch e)) ∧ c.SameChans c' :=
  CI.sendMessage_totalP h ch m hch

theorem sendMessage_panics_only_on_invalid_channel (c : Conn) (h : c.Inv) (ch : Nat) (m : Bytes) :
    (∃ s, c.sendMessage ch m = .panic s) ↔ (c.isDisconnected = false ∧ ¬ c.hasSend ch) :=
  CI.sendMessage_panic_iffP h ch m

theorem availableMemory_total (c : Conn) (ch : Nat) (hch : c.hasSend ch) : ∃ n, c.availableMemory ch = .ok n :=
  CI.availableMemory_total c ch hch

/-- whenever a flush returns, the invariant holds again (no counter hypothesis) -/
theorem getPacketsToSend_keeps_inv (c c' : Conn) (out : List Bytes) (h : c.Inv)
    (hr : c.getPacketsToSend = .ok (c', out)) : c'.Inv ∧ c.SameChans c' :=
  ⟨CI.getPacketsToSend_invP h hr, CI.getPacketsToSend_sameChansP h hr⟩

/-- with the wire counters below 2^62 the flush returns normally, keeps the invariant and the status (so it never
    self-disconnects with `PacketSerialization`), and every datagram fits the transport (C13) -/
theorem getPacketsToSend_total (c : Conn) (h : c.Inv) (hc : c.CountersOK) :
    ∃ c' out, c.getPacketsToSend = .ok (c', out) ∧ c'.Inv ∧ c'.status = c.status ∧
      (∀ b ∈ out, b.length ≤ NETCODE_MAX_PAYLOAD_BYTES) :=
  CI.getPacketsToSend_totalP h hc

/-- the counter hypothesis is necessary in the model: with `packet_sequence = 2^62` the ack packet's header cannot
    be encoded and `put_varint` unwinds -/
def overflowConn : Conn :=
  { Conn.fromChannels 1000 [] [] with packetSeq := Varint.MAX + 1, pendingAcks := [(0, 1)] }

theorem getPacketsToSend_needs_counters : overflowConn.Inv ∧ overflowConn.getPacketsToSend.isPanic = true := by
  refine ⟨?_, by decide +kernel⟩
  have h0 : (Conn.fromChannels 1000 [] []).Inv := (fresh_connection 1000 [] []).2
  exact ⟨⟨h0.send.chans, h0.send.sentSorted, fun x hx => (by cases hx), h0.send.order⟩,
    acksWFb_wf _ (by decide), by decide, by decide, h0.recvRel, h0.recvUnrel, h0.sendUnrel⟩

theorem setters_keep_inv (c : Conn) (h : c.Inv) (r : Reason) :
    c.setConnected.Inv ∧ c.setConnecting.Inv ∧ (c.disconnectWith r).Inv :=
  ⟨h.setConnected, h.setConnecting, h.disconnectWith r⟩

/-! ## 4. "subsequent API calls keep working" -/

/-- One public operation (as data, `SL.ConnOp`): valid channel id, counters in range for a flush — nothing else.
    Returns normally, invariant kept. -/
theorem every_operation_total (c : Conn) (h : c.Inv) (op : SL.ConnOp) (hv : CI.ChanValid c op)
    (hc : CI.isFlush op = true → c.CountersOK) :
    ∃ c', op.apply c = .ok c' ∧ c'.Inv ∧ c.SameChans c' :=
  CI.apply_totalP goodP_winv h op hv hc

/-- Any sequence of public operations — hostile byte strings anywhere in it — from any state satisfying the
    invariant: runs to completion without unwinding, invariant holds at the end (hence after every prefix). -/
theorem operations_keep_working (c : Conn) (h : c.Inv) (ops : List SL.ConnOp)
    (hv : ∀ op ∈ ops, CI.ChanValid c op) (hf : CI.FlushOK c ops) :
    ∃ c', SL.Conn.runOps c ops = .ok c' ∧ c'.Inv ∧ c.SameChans c' :=
  CI.runOps_totalP goodP_winv ops c h hv hf

/-- … in particular from a fresh connection, with channel ids taken from the configuration -/
theorem fresh_connection_keeps_working (budget : Nat) (send recv : List ChanCfg) (ops : List SL.ConnOp)
    (hv : ∀ op ∈ ops, CI.CfgValid send recv op) (hf : CI.FlushOK (Conn.fromChannels budget send recv) ops) :
    ∃ c', SL.Conn.runOps (Conn.fromChannels budget send recv) ops = .ok c' ∧ c'.Inv ∧ c'.SInv :=
  by
    obtain ⟨c', e, i, -⟩ := CI.runOps_totalP goodP_inv ops _ (fresh_connection budget send recv).1
      (fun op ho => (hv op ho).chanValid) hf
    exact ⟨c', e, CI.sinv_inv i, i⟩

/-- without flushes in the sequence there is no side condition about counters at all -/
theorem operations_keep_working_noflush (c : Conn) (h : c.Inv) (ops : List SL.ConnOp)
    (hv : ∀ op ∈ ops, CI.ChanValid c op) (hn : ∀ op ∈ ops, CI.isFlush op = false) :
    ∃ c', SL.Conn.runOps c ops = .ok c' ∧ c'.Inv ∧ c.SameChans c' :=
  CI.runOps_total_noflushP goodP_winv ops c h hv hn

/-! ## 5. the server -/

theorem server_new (budget : Nat) (sc cc : List ChanCfg) : (Server.new budget sc cc).Inv :=
  CI.server_new_invP budget sc cc

/-- **C06, server.**  Whatever bytes are attributed to whatever client id, with every connection of the table
    satisfying the invariant: `process_packet_from` returns normally; all connections satisfy the invariant again;
    only slot `i` can differ, events and configuration are untouched (`Addressed`); no connection appears or
    disappears and every connection keeps a disconnect reason it already had (`QuietC`); the addressed connection
    processed the packet or is disconnected with a reason. -/
theorem server_processPacketFrom_total (s : Server) (h : s.Inv) (bytes : Bytes) (i : Nat) :
    ∃ s' ok, s.processPacketFrom bytes i = .ok (s', ok) ∧ s'.Inv ∧ SL.Server.Addressed i s s' ∧
      SL.QuietC s.conns s'.conns ∧
      ((SMap.find? s.conns i = none ∧ s' = s ∧ ok = false) ∨
       (∃ c c', SMap.find? s.conns i = some c ∧ c.processPacket bytes = .ok c' ∧ ok = true ∧
          SMap.find? s'.conns i = some c' ∧ (c'.status = c.status ∨ ∃ r, c'.status = .disconnected r))) :=
  CI.server_processPacketFrom_totalP goodP_winv h bytes i

/-- the other connections are literally untouched -/
theorem server_processPacketFrom_others (s s' : Server) (bytes : Bytes) (i : Nat) (ok : Bool)
    (h : s.processPacketFrom bytes i = .ok (s', ok)) (j : Nat) (hj : j ≠ i) :
    SMap.find? s'.conns j = SMap.find? s.conns j :=
  (SL.Server.processPacketFrom_spec h).1.others j hj

theorem server_other_operations (s : Server) (h : s.Inv) :
    (∀ dt, ∃ s', s.update dt = .ok s' ∧ s'.Inv) ∧
    (∀ ch m, s.newConn.hasSend ch → ∃ s', s.broadcast ch m = .ok s' ∧ s'.Inv) ∧
    (∀ ex ch m, s.newConn.hasSend ch → ∃ s', s.broadcastExcept ex ch m = .ok s' ∧ s'.Inv ∧
        SMap.find? s'.conns ex = SMap.find? s.conns ex) ∧
    (∀ i ch m, s.newConn.hasSend ch → ∃ s', s.sendMessage i ch m = .ok s' ∧ s'.Inv ∧ SL.Server.Addressed i s s') ∧
    (∀ i ch, s.newConn.hasRecv ch → ∃ s' m, s.receiveMessage i ch = .ok (s', m) ∧ s'.Inv ∧
        SL.Server.Addressed i s s') ∧
    (∀ i, (∀ c, SMap.find? s.conns i = some c → c.CountersOK) →
        ∃ s' out, s.getPacketsToSend i = .ok (s', out) ∧ s'.Inv ∧ SL.Server.Addressed i s s') ∧
    (∀ id, (s.addConnection id).Inv ∧ (s.removeConnection id).Inv ∧ (s.disconnect id).Inv) ∧
    s.disconnectAll.Inv ∧ s.getEvent.1.Inv := by
  refine ⟨fun dt => ?_, fun ch m hch => ?_, fun ex ch m hch => ?_, fun i ch m hch => ?_, fun i ch hch => ?_,
    fun i hc => ?_, fun id => ⟨CI.server_addConnection_invP h id, CI.server_removeConnection_invP h id,
      CI.server_disconnect_invP h id⟩, CI.server_disconnectAll_invP h, CI.server_getEvent_invP h⟩
  · obtain ⟨s', e, i, -⟩ := CI.server_update_totalP h dt; exact ⟨s', e, i⟩
  · obtain ⟨s', e, i, -⟩ := CI.server_broadcast_totalP h ch m hch; exact ⟨s', e, i⟩
  · obtain ⟨s', e, i, -, -, x, -⟩ := CI.server_broadcastExcept_totalP h ex ch m hch; exact ⟨s', e, i, x⟩
  · obtain ⟨s', e, i', a, -⟩ := CI.server_sendMessage_totalP h i ch m hch; exact ⟨s', e, i', a⟩
  · obtain ⟨s', m, e, i', a, -⟩ := CI.server_receiveMessage_totalP h i ch hch; exact ⟨s', m, e, i', a⟩
  · obtain ⟨s', out, e, i', a, -⟩ := CI.server_getPacketsToSend_totalP h i hc; exact ⟨s', out, e, i', a⟩

/-- Any sequence of server operations (every `RenetServer` entry point except `process_local_client`), hostile bytes
    attributed to any client id anywhere in it, side conditions `CI.SrvValid` at each step: runs to completion,
    all connections satisfy the invariant at the end. -/
theorem server_keeps_working (ops : List SL.SrvOp) (st : SL.SrvState) (h : st.1.Inv) (hp : CI.SrvPre st ops) :
    ∃ st', SL.runSrv st ops = .ok st' ∧ st'.1.Inv :=
  CI.runSrv_totalP goodP_winv ops st h hp

/-- `process_local_client` (in-process client object `cl`): server and client both satisfying the invariant,
    counters in range for the two flushes it performs — returns normally, both invariants hold again -/
theorem server_processLocalClient_total (s : Server) (h : s.Inv) (id : Nat) (cl : Conn) (hcl : cl.Inv)
    (hc1 : ∀ c, SMap.find? s.conns id = some c → c.CountersOK)
    (hc2 : ∀ s1 ps cl1, s.getPacketsToSend id = .ok (s1, some ps) → Server.feedClient cl ps = .ok cl1 →
      cl1.CountersOK) :
    ∃ s' cl' ok, s.processLocalClient id cl = .ok (s', cl', ok) ∧ s'.Inv ∧ cl'.Inv := by
  obtain ⟨s', cl', ok, e, i1, i2, -⟩ := CI.server_processLocalClient_totalP goodP_winv h id hcl hc1 hc2
  exact ⟨s', cl', ok, e, i1, i2⟩

/-- the client object handed out by `new_local_client` satisfies the invariant -/
theorem server_newLocalClient (s : Server) (h : s.Inv) (id : Nat) :
    (s.newLocalClient id).1.Inv ∧ (s.newLocalClient id).2.Inv :=
  ⟨CI.server_addConnection_invP h id, (CI.fromChannels_invP _ _ _).setConnected⟩

/-! ## 6. the memory clause -/

/-- every channel's counter equals what the channel actually holds and is at most the configured maximum; the
    equalities make every checked subtraction of the code succeed (this is what the no-panic theorems use) -/
theorem memory_within_budget (c : Conn) (h : c.Inv) :
    (∀ ch s, SMap.find? c.sendRel ch = some s → s.mem = SI.msum s.unacked ∧ s.mem ≤ s.maxMem) ∧
    (∀ ch s, SMap.find? c.sendUnrel ch = some s → s.mem = sumLen s.queue ∧ s.mem ≤ s.maxMem) ∧
    (∀ ch r, SMap.find? c.recvRel ch = some r →
      r.mem = SMap.sumBy List.length r.messages + SMap.sumBy SliceCtor.reserved r.slices ∧ r.mem ≤ r.maxMem) ∧
    (∀ ch r, SMap.find? c.recvUnrel ch = some r →
      r.mem = sumLen r.messages + SMap.sumBy SliceCtor.reserved r.slices ∧ r.mem ≤ r.maxMem) :=
  CI.memory_accountingP h

/-- … for every connection of a server -/
theorem server_memory_within_budget (s : Server) (h : s.Inv) (i : Nat) (c : Conn)
    (hf : SMap.find? s.conns i = some c) : c.Inv := (h.find hf).1

/-! ## non-vacuity: concrete states and runs -/
namespace Ex

def cfg : List ChanCfg :=
  [⟨0, .ordered, 10000, 100⟩, ⟨1, .unordered, 10000, 100⟩, ⟨2, .unreliable, 10000, 0⟩]
def bytesOf (p : Packet) : Bytes := match p.toBytes SER_BUFFER with | .ok b => b | _ => []
def big : Bytes := List.replicate 1201 7
def full : Bytes := List.replicate 1200 5

/-- first slice (of two) of message 5 on the unordered reliable channel 1 -/
def relSlice : Bytes := bytesOf (.reliableSlice 11 1 ⟨5, 0, 2, full⟩)
/-- first slice (of three) of message 3 on the unreliable channel 2 -/
def unrelSlice : Bytes := bytesOf (.unreliableSlice 12 2 ⟨3, 0, 3, full⟩)
def smallPkt : Bytes := bytesOf (.smallReliable 13 0 [(0, [7, 7]), (4, [8])])
/-- a hostile slice: index beyond the announced count (defect D3 before the fix) -/
def hostileSlice : Bytes := bytesOf (.reliableSlice 14 1 ⟨6, 5, 1, full⟩)
/-- a later slice of message 5 announcing a different count (defect D2 before the fix) -/
def lyingSlice : Bytes := bytesOf (.reliableSlice 15 1 ⟨5, 1, 1000, [1, 2, 3]⟩)
def garbage : Bytes := [9, 9, 9]

def c0 : Conn := Conn.fromChannels 60000 cfg cfg

/-- a run: two reliable messages (one sliced) and an unreliable one queued, partial reassembly on two channels,
    small messages received, one flush, time passes -/
def ops : List SL.ConnOp :=
  [.setConnected, .sendMessage 0 [1, 2, 3], .sendMessage 0 big, .sendMessage 2 [9, 9],
   .processPacket relSlice, .processPacket unrelSlice, .processPacket smallPkt,
   .getPacketsToSend, .sendMessage 2 [4, 4, 4], .update 5]

def exConn : Conn := match SL.Conn.runOps c0 ops with | .ok c => c | _ => c0

set_option maxRecDepth 100000 in
theorem exConn_run : SL.Conn.runOps c0 ops = .ok exConn := by decide +kernel

instance (c : Conn) (op : SL.ConnOp) : Decidable (CI.ChanValid c op) := by
  cases op <;> simp only [CI.ChanValid] <;> infer_instance

theorem ops_valid : ∀ op ∈ ops, CI.ChanValid c0 op := by decide +kernel
theorem ops_flushOK : CI.FlushOK c0 ops := CI.flushOK_of_b _ _ (by decide +kernel)

/-- the hypotheses of `operations_keep_working` / `every_operation_total` hold for this run -/
theorem exConn_inv : exConn.Inv := by
  obtain ⟨c', e, i, -⟩ := operations_keep_working c0 (fresh_connection _ _ _).2 ops ops_valid ops_flushOK
  rw [exConn_run] at e
  rw [Res.ok.inj e]; exact i

theorem exConn_counters : exConn.CountersOK := CI.countersOK_of_b (by decide +kernel)

/-- the state is non-trivial: connected; a partially reassembled 2-slice message on reliable channel 1 (2400 bytes
    reserved), a partially reassembled 3-slice message on unreliable channel 2 (3600 bytes), two small messages
    waiting on channel 0, 1204 unacknowledged bytes on send channel 0, three bytes queued on unreliable channel 2,
    five packets recorded as sent, three received sequence numbers pending acknowledgement -/
example :
    exConn.status = .connected ∧
    (SMap.find? exConn.recvRel 1).map (fun r => (r.mem, r.slices.length)) = some (2400, 1) ∧
    (SMap.find? exConn.recvUnrel 2).map (fun r => (r.mem, r.slices.length, r.lastReceived)) = some (3600, 1, [(3, 0)]) ∧
    (SMap.find? exConn.recvRel 0).map (fun r => (r.mem, r.messages.length)) = some (3, 2) ∧
    (SMap.find? exConn.sendRel 0).map (fun s => (s.mem, s.unacked.length)) = some (1204, 2) ∧
    (SMap.find? exConn.sendUnrel 2).map (fun s => (s.mem, s.queue)) = some (3, [[4, 4, 4]]) ∧
    exConn.sent.length = 5 ∧ exConn.pendingAcks = [(11, 14)] ∧ exConn.now = 5 := by decide +kernel

/-- hypotheses of `processPacket_total`, `update_total`, `receiveMessage_total`, `sendMessage_total`,
    `getPacketsToSend_total`, `memory_within_budget` on this state -/
example : exConn.Inv ∧ exConn.CountersOK ∧ exConn.hasRecv 0 ∧ exConn.hasRecv 2 ∧ exConn.hasSend 0 ∧
    exConn.hasSend 2 ∧ ¬ exConn.hasSend 7 :=
  ⟨exConn_inv, exConn_counters, by decide +kernel, by decide +kernel, by decide +kernel, by decide +kernel,
   by decide +kernel⟩

/-- what the hostile inputs do to this state: garbage and the out-of-range slice index disconnect with a reason,
    the slice lying about the count is rejected with `InvalidSliceMessage` — none of them unwinds (the theorem) and
    the outcomes are the documented ones (computed) -/
example :
    (match exConn.processPacket garbage with | .ok c => some c.status | _ => none) =
      some (.disconnected (.packetDeser .invalidPacketType)) ∧
    (match exConn.processPacket hostileSlice with | .ok c => some c.status | _ => none) =
      some (.disconnected (.recvChan 1 .invalidSlice)) ∧
    (match exConn.processPacket lyingSlice with | .ok c => some c.status | _ => none) =
      some (.disconnected (.recvChan 1 .invalidSlice)) := by decide +kernel

/-- and the API keeps working afterwards on the now-disconnected endpoint, invalid channel id included -/
example :
    (match exConn.processPacket hostileSlice with
     | .ok c => (c.receiveMessage 0, c.sendMessage 99 [1], (c.getPacketsToSend).isPanic)
     | _ => (.panic "", .panic "", true)) =
    (match exConn.processPacket hostileSlice with
     | .ok c => (.ok (c, none), .ok c, false)
     | _ => (.panic "", .panic "", true)) := by decide +kernel

/-- the contract violation really panics on a live connection (so the `iff` theorems are not vacuous) -/
example : (∃ s, exConn.sendMessage 7 [1] = .panic s) ∧ (∃ s, exConn.receiveMessage 7 = .panic s) :=
  ⟨(sendMessage_panics_only_on_invalid_channel exConn exConn_inv 7 [1]).mpr ⟨by decide +kernel, by decide +kernel⟩,
   (receiveMessage_panics_only_on_invalid_channel exConn exConn_inv 7).mpr ⟨by decide +kernel, by decide +kernel⟩⟩

/-! ### a server with two clients -/

def st0 : SL.SrvState := (Server.new 60000 cfg cfg, [])

def srvOps : List SL.SrvOp :=
  [.add 7, .add 9, .send 7 0 [1, 2, 3], .processPacketFrom relSlice 7, .processPacketFrom unrelSlice 9,
   .processPacketFrom hostileSlice 9, .processPacketFrom garbage 3, .broadcast 2 [5, 5], .update 3,
   .getPacketsToSend 7, .receive 7 0, .getEvent]

theorem srvOps_pre : CI.SrvPre st0 srvOps := CI.srvPre_of_b _ _ (by decide +kernel)

/-- observations on the final state of the run -/
def srvObs : Res Empty SL.SrvState → Bool
  | .ok st =>
    st.1.conns.map (·.1) == [7, 9] &&
    (SMap.find? st.1.conns 7).map (·.status) == some .connected &&
    (SMap.find? st.1.conns 9).map (·.status) == some (.disconnected (.recvChan 1 .invalidSlice)) &&
    (SMap.find? st.1.conns 7).bind (fun c => (SMap.find? c.recvRel 1).map (·.mem)) == some 2400 &&
    (SMap.find? st.1.conns 9).bind (fun c => (SMap.find? c.recvUnrel 2).map (·.mem)) == some 3600 &&
    st.2 == [.connected 7]
  | _ => false

theorem srvObs_run : srvObs (SL.runSrv st0 srvOps) = true := by decide +kernel

/-- the hypotheses of `server_keeps_working` hold for this run; it ends (by the theorem) in a state satisfying the
    server invariant, and that state is non-trivial: client 7 connected with a partially reassembled message,
    client 9 disconnected by a hostile slice after it had started reassembling another one, client 3 unknown -/
example : ∃ st', SL.runSrv st0 srvOps = .ok st' ∧ st'.1.Inv ∧ srvObs (.ok st') = true := by
  obtain ⟨st', e, i⟩ := server_keeps_working srvOps st0 (server_new _ _ _) srvOps_pre
  exact ⟨st', e, i, by rw [← e]; exact srvObs_run⟩

/-- a server state satisfying the hypothesis of `server_processPacketFrom_total` / `server_other_operations` -/
def exSrv : Server := match SL.runSrv st0 (srvOps.take 6) with | .ok st => st.1 | _ => st0.1

theorem exSrv_inv : exSrv.Inv := by
  obtain ⟨st', e, i⟩ := server_keeps_working (srvOps.take 6) st0 (server_new _ _ _)
    (CI.srvPre_of_b _ _ (by decide +kernel))
  have : exSrv = st'.1 := by unfold exSrv; rw [e]
  rw [this]; exact i

example : exSrv.Inv ∧ exSrv.newConn.hasSend 2 ∧ exSrv.newConn.hasRecv 1 ∧ exSrv.conns.length = 2 :=
  ⟨exSrv_inv, by decide +kernel, by decide +kernel, by decide +kernel⟩

/-! ### a local client -/

def locSrv : Server :=
  match ((Server.new 60000 cfg cfg).newLocalClient 7).1.sendMessage 7 0 [1, 2, 3] with
  | .ok s => s | _ => Server.new 0 [] []
def locCl : Conn :=
  match ((Server.new 60000 cfg cfg).newLocalClient 7).2.sendMessage 0 [4, 5] with
  | .ok c => c | _ => c0
def locPs : List Bytes := match locSrv.getPacketsToSend 7 with | .ok (_, some ps) => ps | _ => []
def locCl1 : Conn := match Server.feedClient locCl locPs with | .ok c => c | _ => locCl

/-- the hypotheses of `server_processLocalClient_total` are satisfiable: server holding local client 7 with a queued
    message, client object with a queued message of its own -/
example : locSrv.Inv ∧ locCl.Inv ∧ (∀ c, SMap.find? locSrv.conns 7 = some c → c.CountersOK) ∧
    (∀ s1 ps cl1, locSrv.getPacketsToSend 7 = .ok (s1, some ps) → Server.feedClient locCl ps = .ok cl1 →
      cl1.CountersOK) ∧ locPs.length = 1 ∧ locCl1.pendingAcks = [(0, 1)] := by
  have hs0 := (server_newLocalClient (Server.new 60000 cfg cfg) (server_new _ _ _) 7)
  refine ⟨?_, ?_, ?_, ?_, by decide +kernel, by decide +kernel⟩
  · obtain ⟨s', e, i, -⟩ := CI.server_sendMessage_totalP hs0.1 7 0 [1, 2, 3] (by decide +kernel)
    have : locSrv = s' := by unfold locSrv; rw [e]
    rw [this]; exact i
  · obtain ⟨c', e, i, -⟩ := CI.sendMessage_totalP hs0.2 0 [4, 5] (by decide +kernel)
    have : locCl = c' := by unfold locCl; rw [e]
    rw [this]; exact i
  · intro c hc
    have : CI.srvValidb locSrv (.getPacketsToSend 7) = true := by decide +kernel
    exact CI.srvValid_of_b this c hc
  · intro s1 ps cl1 e1 e2
    have h1 : locPs = ps := by unfold locPs; rw [e1]
    have h2 : locCl1 = cl1 := by unfold locCl1; rw [h1, e2]
    rw [← h2]
    exact CI.countersOK_of_b (by decide +kernel)

end Ex
end RenetVerif.C06
