/-
  Netcode SERVER properties (C19, C05, C10, C07, C04, C18, C17) stated DIRECTLY about the generated
  `Src.renetcode.server.NetcodeServer` functions of `Generated/Src/NcServer*.lean` (the Lean text the translator derives
  from the current `renetcode/src/server.rs`).  The hand model (`Netcode.NetcodeServer`) appears only in the proofs:
  `SrcTieNcServer{Recv,Send,Query}` (generated = model on representable states) ∘ `Props/C19, C05, C10, C07, C04, C18, C17`.

  How states are constrained (said again in each doc comment):
    * `WfS g`       — `g` is the image `reprNS out s` of SOME model state (all byte lists hold bytes, addresses are
                      `AddrOk`, replay windows have 256 entries, scratch buffer of `NETCODE_MAX_PACKET_BYTES`): representability only.
    * `SeqRoom n g` — INTRINSIC: the `u64` counters `global_sequence`, `challenge_sequence` and every pending `sequence`
                      are at least `n` below `u64::MAX` (the model's `SInv n`).
    * `GInv g`      — "`g` = repr of a model state satisfying the model invariant `NS.ServerInv`" (Props/C10: distinct ids /
                      addresses, timers not in the future, pending map well-formed, token table not empty, …); its
                      intrinsic consequences on `g.clients` are `table_distinct`.
  Inputs are intrinsic: `BytesOk` byte lists, `AddrOk` addresses, datagrams shorter than `2^64 - 16` bytes.
  The AEAD is the abstract parameter `a` (`aeadOf a` on the generated side) with the length laws `a.Laws` (needed by the tie:
  `open` / `seal` change the length by the 16 tag bytes); nothing is assumed about authenticity.
  Pre-state facts are read off the generated state with the generated code's own functions (`find_client_mut_by_addr`,
  `find_client_by_id`, `AMap.find?` = `HashMap::get`, `Packet::decode`, `ChallengeToken::decode`,
  `PrivateConnectToken::decode`, `ReplayProtection::already_received` / `advance_sequence`, `Packet::encode`); post-states are
  given as record updates of the pre-state (`{ g with out := g'.out, … }`: the scratch buffer is SOME buffer afterwards).

  Contents
    C19  no_amplification (+ same address, strictly smaller: `ReplyBound`), no_answer_undecodable_{pending,unknown},
         no_answer_unless_valid (`GValidRequest` / `GValidResponse`)
    C05  connected_only_if, rejected_request (`GRejected`: expired / foreign protocol / version / tampered or foreign key /
         wrong host), token_address_binding_partial
    C10  TableOK (intrinsic), table_distinct, inv_new, {process_packet, update_client, disconnect, update,
         generate_payload}_inv, full_refuses (`GIsDenied`)
    C07  process_packet_total / _no_panic, decode_error_noop_{connected,pending}, request_from_connected_noop,
         invalid_request_noop  (+ C19 no_answer_undecodable_unknown = unknown-address no-op)
    C04  payload_only_if_opened, replay_rejected, genuine_accepted
    C18  update_client_spec, server_timeout, server_timeout_only, server_keeps, no_spurious_timeout
    C17  generate_payload_spec, update_client_spec (keep-alive / disconnect nonce), session_nonces_consecutive (runs)
    concrete instances at the end.
-/
import RenetVerif.Lemmas.SrcCorollariesNc
import RenetVerif.Props.C19
import RenetVerif.Props.C10
import RenetVerif.Props.C07
import RenetVerif.Props.C04
import RenetVerif.Props.C17
import RenetVerif.Props.C18
set_option maxRecDepth 10000
namespace RenetVerif.SrcPropsNc.Server
open RenetVerif RenetVerif.SrcEquiv RenetVerif.SrcTie RenetVerif.SrcCor RenetVerif.SrcCorNc RenetVerif.RustSem
open RenetVerif.Netcode
open Src.renetcode.server

/-! ## state conditions -/

/-- INTRINSIC counter room (the model's `SInv n`): each `process_packet` uses up at most one of each -/
def SeqRoom (n : Nat) (g : SNetcodeServer) : Prop :=
  g.global_sequence + n ≤ U64_MAX ∧ g.challenge_sequence + n ≤ U64_MAX ∧
  ∀ x ∈ g.pending_clients, x.2.sequence + n ≤ U64_MAX

theorem seqRoom_iff {n : Nat} {g : SNetcodeServer} {s : Netcode.NetcodeServer} (hr : SrvRepr g s) :
    SeqRoom n g ↔ NetcodeServer.SInv n s := by
  unfold SeqRoom NetcodeServer.SInv
  rw [hr.global_sequence, hr.challenge_sequence, hr.pending]
  constructor
  · rintro ⟨h1, h2, h3⟩
    exact ⟨h1, h2, fun x hx => h3 (reprAddr x.1, reprNConn x.2) (List.mem_map.2 ⟨x, hx, rfl⟩)⟩
  · rintro ⟨h1, h2, h3⟩
    refine ⟨h1, h2, fun x hx => ?_⟩
    obtain ⟨y, hy, rfl⟩ := List.mem_map.1 hx
    exact h3 y hy

/-- `g` = repr of a model state satisfying the connection-table invariant `NS.ServerInv` of Props/C10 -/
def GInv (g : SNetcodeServer) : Prop := ∃ s, SrvRepr g s ∧ NS.ServerInv s

theorem GInv.wf {g : SNetcodeServer} (h : GInv g) : WfS g := let ⟨s, hr, _⟩ := h; ⟨s, hr⟩

/-- `NS.ServerInv` is preserved by the model's `process_packet` (C10 `inv_step`) -/
theorem inv_pp {a : AEAD} {s s' : Netcode.NetcodeServer} {addr : Addr} {buf : Bytes} {r : Netcode.ServerResult}
    (hinv : NS.ServerInv s) (hm : s.processPacket a addr buf = .ok (r, s')) : NS.ServerInv s' :=
  C10.inv_step (a := a) (op := .packet addr buf) (r := r) hinv (by simp only [NS.step, hm])

/-- the generated version constant is the image of the model's -/
theorem version_eq : Src.renetcode.NETCODE_VERSION_INFO = toNats C.NETCODE_VERSION_INFO := by decide

/-! ## C19 — no amplification -/

/-- sizes of a reply `o` to the datagram `gbuf`: the answer to a connection request (≥ 1078 bytes) has at most 333 bytes
    (a `Challenge`; `ConnectionDenied`: 25), the answer to a response (≥ 325 bytes) at most 33 (a `KeepAlive`) -/
def ReplyBound (o gbuf : List Nat) : Prop :=
  (o.length ≤ 333 ∧ 1078 ≤ gbuf.length) ∨ (o.length ≤ 33 ∧ 325 ≤ gbuf.length)

/-- strictly smaller than the datagram received -/
theorem ReplyBound.lt {o gbuf : List Nat} (h : ReplyBound o gbuf) : o.length < gbuf.length := by
  unfold ReplyBound at h; omega

/-- **C19 `no_amplification` + `reply_to_same_address` + `reply_strictly_smaller`, on the generated `process_packet`.**
    State: `WfS g` (representable), INTRINSIC counter room `SeqRoom (n+1) g`, token table not empty.
    For a datagram from an address that is not connected (the generated finder returns `None`), the generated
    `process_packet` returns normally; the result is `ServerResult::None`, or ONE datagram addressed to the source address:
    a `PacketToSend` or the keep-alive of a `ClientConnected`, of at most 333 bytes for a datagram of at least 1078
    (request) or at most 33 bytes for a datagram of at least 325 (response) — `ReplyBound`, hence strictly smaller
    than the datagram received (`ReplyBound.lt`).  One unit of counter room is used up. -/
theorem no_amplification {ε : Type} (a : AEAD) (hl : a.Laws) {n : Nat} {g : SNetcodeServer} (hw : WfS g)
    (hroom : SeqRoom (n + 1) g) (hent : 0 < g.connect_token_entries.length) {ga : RustSem.SocketAddr} (hga : AddrOk ga)
    {gbuf : List Nat} (hb : BytesOk gbuf) (hbl : gbuf.length + 16 < 2 ^ 64)
    (hf : (find_client_mut_by_addr g.clients ga : Res ε _) = .ok none) :
    ∃ g' buf' gr, @NetcodeServer.process_packet (aeadOf a) ε g ga gbuf = .ok (g', buf', gr) ∧ WfS g' ∧ SeqRoom n g' ∧
      (gr = .None ∨ (∃ o, gr = .PacketToSend ga o ∧ ReplyBound o gbuf) ∨
        ∃ id ud o, gr = .ClientConnected id ga ud o ∧ ReplyBound o gbuf) := by
  obtain ⟨s, hr⟩ := hw
  obtain ⟨addr, rfl⟩ := (addrOk_iff ga).1 hga
  obtain ⟨buf, rfl⟩ := (bytesOk_iff gbuf).1 hb
  simp only [toNats_length] at hbl ⊢
  have hinv := (seqRoom_iff hr).1 hroom
  have hf' := (find_by_addr_none hr).1 hf
  obtain ⟨r, s', hm, hinv', hrep⟩ := C19.no_amplification a hinv addr buf hf'
  rcases process_packet_tie (ε := ε) a hl hr (hr.entries_pos.1 hent) addr buf hbl with
    ⟨r2, s2, g', buf', hm2, hr', hg⟩ | ⟨⟨m, hp⟩, _⟩
  · rw [hm] at hm2; cases hm2
    refine ⟨g', buf', _, hg, ⟨s', hr'⟩, (seqRoom_iff hr').2 hinv', ?_⟩
    have e0 := C19.request_min_eq
    have e3 := C19.response_min_eq
    have e1 := C19.request_reply_max_eq
    have e2 := C19.response_reply_max_eq
    rcases hrep with hrep | hrep
    · rcases hrep with rfl | ⟨hv, ⟨o, rfl, hbd⟩ | ⟨id, ud, o, rfl, hbd⟩⟩
      · exact .inl rfl
      · have := hbd hl; have := hv.1
        exact .inr (.inl ⟨toNats o, rfl, .inl ⟨by rw [toNats_length]; omega, by rw [toNats_length]; omega⟩⟩)
      · have := hbd hl; have := hv.1
        exact .inr (.inr ⟨id, toNats ud, toNats o, rfl, .inl ⟨by rw [toNats_length]; omega, by rw [toNats_length]; omega⟩⟩)
    · rcases hrep with rfl | ⟨hv, ⟨o, rfl, hbd⟩ | ⟨id, ud, o, rfl, hbd⟩⟩
      · exact .inl rfl
      · have := hbd hl; have := hv.1 hl
        exact .inr (.inl ⟨toNats o, rfl, .inr ⟨by rw [toNats_length]; omega, by rw [toNats_length]; omega⟩⟩)
      · have := hbd hl; have := hv.1 hl
        exact .inr (.inr ⟨id, toNats ud, toNats o, rfl, .inr ⟨by rw [toNats_length]; omega, by rw [toNats_length]; omega⟩⟩)
  · rw [hm] at hp; cases hp

/-- the generated `Packet::decode` under a session's receive key and replay window -/
abbrev decodeWith (a : AEAD) (gbuf : List Nat) (pid : Nat) (gc : SConnection) : SDecRes :=
  @Src.renetcode.packet.Packet.decode (aeadOf a) gbuf pid (some gc.receive_key) (some gc.replay_protection)
/-- … and without key / window (what the server does for an unknown address) -/
abbrev decodeBare (a : AEAD) (gbuf : List Nat) (pid : Nat) : SDecRes :=
  @Src.renetcode.packet.Packet.decode (aeadOf a) gbuf pid none none

/-- **C19 `no_answer_to_undecodable`, pending address.**  State: `WfS g`, token table not empty.  A datagram from an
    address that is not connected but has a half-open session `gp`, on which the generated `Packet::decode` under that
    session's key and window returns `Err`, gets no answer: `ServerResult::None`. -/
theorem no_answer_undecodable_pending {ε : Type} (a : AEAD) (hl : a.Laws) {g : SNetcodeServer} (hw : WfS g)
    (hent : 0 < g.connect_token_entries.length) {ga : RustSem.SocketAddr} (hga : AddrOk ga)
    {gbuf : List Nat} (hb : BytesOk gbuf) (hbl : gbuf.length + 16 < 2 ^ 64)
    (hf : (find_client_mut_by_addr g.clients ga : Res ε _) = .ok none) {gp : SConnection}
    (hp : RustSem.AMap.find? g.pending_clients ga = some gp) {ge : SNErr}
    {st : List Nat × Option Src.renetcode.replay_protection.ReplayProtection}
    (hdec : decodeWith a gbuf g.protocol_id gp = .err (ge, st)) :
    ∃ g' buf', @NetcodeServer.process_packet (aeadOf a) ε g ga gbuf = .ok (g', buf', .None) := by
  obtain ⟨s, hr⟩ := hw
  obtain ⟨addr, rfl⟩ := (addrOk_iff ga).1 hga
  obtain ⟨buf, rfl⟩ := (bytesOk_iff gbuf).1 hb
  simp only [toNats_length] at hbl
  obtain ⟨c, hpc, rfl⟩ := pending_session hr hp
  rw [hr.protocol_id] at hdec
  obtain ⟨e, rp', hD, _, _⟩ :=
    decode_pull_err a hl buf hbl s.protocolId (some c.receiveKey) (some c.replayProtection) hdec
  have hf' := (find_by_addr_none hr).1 hf
  obtain ⟨s', hm⟩ := C19.no_answer_to_undecodable a s addr buf hf' (by rw [hpc]; exact ⟨e, by rw [hD]⟩)
  rcases process_packet_tie (ε := ε) a hl hr (hr.entries_pos.1 hent) addr buf hbl with
    ⟨r2, s2, g', buf', hm2, hr', hg⟩ | ⟨⟨m, hp⟩, _⟩
  · rw [hm] at hm2; cases hm2; exact ⟨g', buf', hg⟩
  · rw [hm] at hp; cases hp

/-- **C19 `no_answer_to_undecodable`, unknown address** (neither connected nor pending): if the generated
    `Packet::decode` without key returns `Err` (only a connection request decodes without key), the answer is
    `ServerResult::None` and the server is unchanged up to its scratch buffer (= C07 `server_unknown_address_noop`). -/
theorem no_answer_undecodable_unknown {ε : Type} (a : AEAD) (hl : a.Laws) {g : SNetcodeServer} (hw : WfS g)
    (hent : 0 < g.connect_token_entries.length) {ga : RustSem.SocketAddr} (hga : AddrOk ga)
    {gbuf : List Nat} (hb : BytesOk gbuf) (hbl : gbuf.length + 16 < 2 ^ 64)
    (hf : (find_client_mut_by_addr g.clients ga : Res ε _) = .ok none)
    (hp : RustSem.AMap.find? g.pending_clients ga = none) {ge : SNErr}
    {st : List Nat × Option Src.renetcode.replay_protection.ReplayProtection}
    (hdec : decodeBare a gbuf g.protocol_id = .err (ge, st)) :
    ∃ g' buf', @NetcodeServer.process_packet (aeadOf a) ε g ga gbuf = .ok (g', buf', .None) ∧
      g' = { g with out := g'.out } := by
  obtain ⟨s, hr⟩ := hw
  obtain ⟨addr, rfl⟩ := (addrOk_iff ga).1 hga
  obtain ⟨buf, rfl⟩ := (bytesOk_iff gbuf).1 hb
  simp only [toNats_length] at hbl
  rw [hr.protocol_id] at hdec
  obtain ⟨e, rp', hD, _, _⟩ := decode_pull_err a hl buf hbl s.protocolId none none hdec
  have hs : NetcodeServer.sessionOf s addr = none := by
    unfold NetcodeServer.sessionOf; rw [(find_by_addr_none hr).1 hf]; exact pending_none hr hp
  have hm := C07.server_unknown_address_noop a s addr buf hs (e := e) (by rw [hD])
  rcases process_packet_tie (ε := ε) a hl hr (hr.entries_pos.1 hent) addr buf hbl with
    ⟨r2, s2, g', buf', hm2, hr', hg⟩ | ⟨⟨m, hp⟩, _⟩
  · rw [hm] at hm2; cases hm2; exact ⟨g', buf', hg, same_of_repr hr hr'⟩
  · rw [hm] at hp; cases hp

/-- the datagram is a VALID connection request for `g`, in generated terms: the generated `Packet::decode` (no key) reads a
    `ConnectionRequest` with the right version and protocol id, not expired, whose private token the generated
    `PrivateConnectToken::decode` opens under the server's `connect_key` -/
def GValidRequest (a : AEAD) (g : SNetcodeServer) (gbuf : List Nat) : Prop :=
  ∃ dbuf drp sq gv pid e gx gd tok,
    decodeBare a gbuf g.protocol_id = .ok (dbuf, drp, (sq, .ConnectionRequest gv pid e gx gd)) ∧
    gv = Src.renetcode.NETCODE_VERSION_INFO ∧ pid = g.protocol_id ∧ RustSem.Duration.as_secs g.current_time < e ∧
    @Src.renetcode.token.PrivateConnectToken.decode (aeadOf a) gd g.protocol_id e gx g.connect_key = .ok tok

/-- the datagram is a VALID response from `ga`: `ga` has a pending entry `gp`, the generated `Packet::decode` under `gp`'s key
    and window reads a `Response(ts, td)`, and the generated `ChallengeToken::decode` opens `td` under the challenge key to
    `gp`'s client id and user data -/
def GValidResponse (a : AEAD) (g : SNetcodeServer) (ga : RustSem.SocketAddr) (gbuf : List Nat) : Prop :=
  ∃ gp dbuf w' sq ts gtd ct, RustSem.AMap.find? g.pending_clients ga = some gp ∧
    decodeWith a gbuf g.protocol_id gp = .ok (dbuf, w', (sq, .Response ts gtd)) ∧
    @Src.renetcode.packet.ChallengeToken.decode (aeadOf a) gtd ts g.challenge_key = .ok ct ∧
    ct.client_id = gp.client_id ∧ ct.user_data = gp.user_data

/-- **C19 `no_answer_unless_valid`, on the generated `process_packet`.**  State: `WfS g`, INTRINSIC `SeqRoom (n+1) g`, token
    table not empty.  A datagram from an address that is not connected which is neither a valid connection request
    (`GValidRequest`) nor a valid response (`GValidResponse`) gets no answer — and nobody connects: `ServerResult::None`. -/
theorem no_answer_unless_valid {ε : Type} (a : AEAD) (hl : a.Laws) {n : Nat} {g : SNetcodeServer} (hw : WfS g)
    (hroom : SeqRoom (n + 1) g) (hent : 0 < g.connect_token_entries.length) {ga : RustSem.SocketAddr} (hga : AddrOk ga)
    {gbuf : List Nat} (hb : BytesOk gbuf) (hbl : gbuf.length + 16 < 2 ^ 64)
    (hf : (find_client_mut_by_addr g.clients ga : Res ε _) = .ok none)
    (hreq : ¬ GValidRequest a g gbuf) (hresp : ¬ GValidResponse a g ga gbuf)
    {g' : SNetcodeServer} {buf' : List Nat} {gr : SServerResult}
    (h : @NetcodeServer.process_packet (aeadOf a) ε g ga gbuf = .ok (g', buf', gr)) : gr = .None := by
  obtain ⟨s, hr⟩ := hw
  obtain ⟨addr, rfl⟩ := (addrOk_iff ga).1 hga
  obtain ⟨buf, rfl⟩ := (bytesOk_iff gbuf).1 hb
  simp only [toNats_length] at hbl
  rcases process_packet_tie (ε := ε) a hl hr (hr.entries_pos.1 hent) addr buf hbl with
    ⟨r, s', g2, buf2, hm, hr', hg'⟩ | ⟨_, m, hp⟩
  · rw [hg'] at h
    simp only [Res.ok.injEq, Prod.mk.injEq] at h
    obtain ⟨_, _, rfl⟩ := h
    have hr0 : r = .none := by
      refine C19.no_answer_unless_valid a ((seqRoom_iff hr).1 hroom) ((find_by_addr_none hr).1 hf) hm ?_ ?_
      · rintro ⟨hlen, ht, v, pid, e, x, data, hread, hver, hpid, hexp, tok, htok⟩
        apply hreq
        have e0 := C19.request_min_eq
        have hD : Netcode.Packet.decode a buf s.protocolId none none = (.ok (0, .connectionRequest v pid e x data), none) := by
          rw [decode_request_shape a s.protocolId none none (by omega) ht, hread]; rfl
        obtain ⟨dbuf, hgd⟩ := decode_push_ok a hl buf hbl s.protocolId none none hD
        have hdl := (NetcodeServer.request_of_decode hD).2.2.2
        refine ⟨dbuf, none, 0, toNats v, pid, e, toNats x, toNats data, reprPTok tok, ?_, by rw [hver, ← version_eq], ?_, ?_, ?_⟩
        · rw [hr.protocol_id]; exact hgd
        · rw [hpid, hr.protocol_id]
        · rw [hr.current_time]; exact Nat.lt_of_not_ge hexp
        · rw [hr.protocol_id, hr.connect_key]; exact ptok_push_ok a hl hdl s.protocolId e x s.connectKey htok
      · rintro ⟨_, pending, seq, ts, td, ct, hpf, hdec1, hct, hid, hud⟩
        apply hresp
        obtain ⟨dbuf, rp', hgd⟩ := decode_push_ok' a hl buf hbl s.protocolId (some pending.receiveKey)
          (some pending.replayProtection) hdec1
        have hwf : PacketWF (.response ts td) := decode_wf hdec1
        refine ⟨reprNConn pending, dbuf, rp', seq, ts, toNats td, reprCT ct, ?_, ?_, ?_, hid, by
          show toNats ct.userData = toNats pending.userData; rw [hud]⟩
        · rw [hr.pendingFind, hpf]; rfl
        · rw [hr.protocol_id]; exact hgd
        · rw [hr.challenge_key]; exact challenge_push a hl hwf ts s.challengeKey hct
    rw [hr0]; rfl
  · rw [hp] at h; cases h

/-! ## C05 — only a valid, unexpired, untampered connect token from its own address connects -/

/-- a pending connection promoted to a session: state `Connected`, the window `decode` handed back, both timers := now,
    `sequence + 1` (the keep-alive that goes out with `ClientConnected` used one) -/
def gPromoted (gp : SConnection) (w : Src.renetcode.replay_protection.ReplayProtection) (now : Nat) : SConnection :=
  { gp with replay_protection := w, last_packet_received_time := now, state := .Connected, last_packet_send_time := now
            sequence := gp.sequence + 1 }

/-- **C05 `connected_only_if`, on the generated `process_packet`.**  State: `GInv g` (= repr of a model state satisfying
    `NS.ServerInv`).  If the generated `process_packet` on a datagram from `ga` reports `ClientConnected id ga' ud ka`, then
      * `ga' = ga`; the generated pending map has an entry `gp` for `ga` with `gp.client_id = id`, `gp.user_data = ud`;
      * neither `ga` (generated finder) nor `id` (`find_client_by_id`) was connected;
      * the generated `Packet::decode` of the datagram under `gp`'s receive key and window returns a `Response(ts, td)`
        and a window `w'`;
      * the generated `ChallengeToken::decode` of `td` under the server's `challenge_key` returns EXACTLY `(id, ud)`;
      * slot `i` was free and now holds `gPromoted gp w' now`,
        every other slot is as before, and the pending entry of `ga` is removed. -/
theorem connected_only_if {ε : Type} (a : AEAD) (hl : a.Laws) {g : SNetcodeServer} (hg : GInv g)
    {ga : RustSem.SocketAddr} (hga : AddrOk ga) {gbuf : List Nat} (hb : BytesOk gbuf) (hbl : gbuf.length + 16 < 2 ^ 64)
    {g' : SNetcodeServer} {buf' : List Nat} {id : Nat} {ga' : RustSem.SocketAddr} {gud gka : List Nat}
    (h : @NetcodeServer.process_packet (aeadOf a) ε g ga gbuf = .ok (g', buf', .ClientConnected id ga' gud gka)) :
    ga' = ga ∧ ∃ gp, RustSem.AMap.find? g.pending_clients ga = some gp ∧ gp.client_id = id ∧ gp.user_data = gud ∧
      gp.addr = ga ∧
      (find_client_mut_by_addr g.clients ga : Res ε _) = .ok none ∧ (find_client_by_id g.clients id : Res ε _) = .ok none ∧
      ∃ dbuf w' sq ts gtd, decodeWith a gbuf g.protocol_id gp = .ok (dbuf, some w', (sq, .Response ts gtd)) ∧
        @Src.renetcode.packet.ChallengeToken.decode (aeadOf a) gtd ts g.challenge_key = .ok ⟨id, gud⟩ ∧
        ∃ i, g.clients[i]? = some none ∧
          g'.clients = g.clients.set i (some (gPromoted gp w' g.current_time)) ∧
          g'.pending_clients = RustSem.AMap.remove g.pending_clients ga := by
  obtain ⟨s, hr, hinv⟩ := hg
  obtain ⟨addr, rfl⟩ := (addrOk_iff ga).1 hga
  obtain ⟨buf, rfl⟩ := (bytesOk_iff gbuf).1 hb
  simp only [toNats_length] at hbl
  rcases process_packet_tie (ε := ε) a hl hr hinv.entriesPos addr buf hbl with
    ⟨r, s', g2, buf2, hm, hr', hg2⟩ | ⟨_, m, hp⟩
  · rw [hg2] at h
    simp only [Res.ok.injEq, Prod.mk.injEq] at h
    obtain ⟨rfl, rfl, hres⟩ := h
    obtain ⟨addr', ud, ka, rfl, rfl, rfl, rfl⟩ := reprNSR_clientConnected hres
    obtain ⟨e1, p, sq, ts, td, w', i, hpf, hpid, hpud, hpad, hfa, hfi, hdec, hct, hfree, hcl, hpend, _⟩ :=
      C05.connected_only_if hinv hm
    refine ⟨by rw [e1], reprNConn p, ?_, hpid, by rw [← hpud]; rfl, by rw [← hpad]; rfl, (find_by_addr_none hr).2 hfa, ?_, ?_⟩
    · rw [hr.pendingFind, hpf]; rfl
    · rw [hr.clients, nc_find_client_by_id, hfi]; rfl
    · obtain ⟨dbuf, hgd⟩ := decode_push_ok a hl buf hbl s.protocolId (some p.receiveKey) (some p.replayProtection) hdec
      have hwf : PacketWF (.response ts td) := decode_wf (by rw [hdec])
      have hch := challenge_push a hl hwf ts s.challengeKey hct
      refine ⟨dbuf, reprRP w', sq, ts, toNats td, ?_, ?_, i, ?_, ?_, ?_⟩
      · rw [hr.protocol_id]; exact hgd
      · rw [hr.challenge_key]; exact hch
      · rw [hr.clients, List.getElem?_map, NS.firstFree_some hfree]; rfl
      · rw [hr'.clients, hcl, List.map_set, ← hr.clients, hr.current_time]; rfl
      · rw [hr'.pending, hpend, hr.pending]
        exact (amap_remove addr s.pendingClients).symm
  · rw [hp] at h; cases h

/-- a reason for which a connection request with the fields `gv pid e gx gd` (as the generated `Packet::decode` returns
    them) is refused by the server `g`, in generated terms: wrong version, foreign protocol id, expired
    (`expire ≤ now.as_secs()`), the private token does not decode under the server's `connect_key` (tampered ciphertext /
    tag / public expiry / protocol id, or sealed with a foreign key: the generated `PrivateConnectToken::decode` returns
    `Err`), or — secure servers — it decodes but lists none of the server's public addresses (wrong host) -/
def GRejected (a : AEAD) (g : SNetcodeServer) (gv : List Nat) (pid e : Nat) (gx gd : List Nat) : Prop :=
  gv ≠ Src.renetcode.NETCODE_VERSION_INFO ∨ pid ≠ g.protocol_id ∨ e ≤ RustSem.Duration.as_secs g.current_time ∨
  (∃ ge, @Src.renetcode.token.PrivateConnectToken.decode (aeadOf a) gd g.protocol_id e gx g.connect_key = .err ge) ∨
  (g.secure = true ∧ ∃ gt, @Src.renetcode.token.PrivateConnectToken.decode (aeadOf a) gd g.protocol_id e gx g.connect_key
      = .ok gt ∧ ∀ x, some x ∈ gt.server_addresses → x ∉ g.public_addresses)

theorem grejected_not_accepted {a : AEAD} (hl : a.Laws) {g : SNetcodeServer} {s : Netcode.NetcodeServer} (hr : SrvRepr g s)
    {addr : Addr} {v x d : Bytes} {pid e : Nat} (hd : d.length = C.NETCODE_CONNECT_TOKEN_PRIVATE_BYTES)
    (h : GRejected a g (toNats v) pid e (toNats x) (toNats d)) (t : PrivateConnectToken) :
    ¬ NS.Accepted a s addr v pid e x d t := by
  have h16 : C.NETCODE_MAC_BYTES ≤ d.length := by rw [hd]; decide
  rw [GRejected, hr.protocol_id, hr.current_time, hr.connect_key] at h
  rcases h with h | h | h | ⟨ge, h⟩ | ⟨hs, gt, h, hh⟩
  · exact NS.not_accepted_version (fun hv => h (by rw [hv, version_eq])) t
  · exact NS.not_accepted_protocol h t
  · exact NS.not_accepted_expired h t
  · obtain ⟨e', he'⟩ := ptok_pull_err a hl hd s.protocolId e x s.connectKey h
    intro ha
    rw [(tokenOpens_iff_decode h16).1 ha.opens] at he'; cases he'
  · obtain ⟨t0, ht0, rfl⟩ := ptok_pull_ok a hl hd s.protocolId e x s.connectKey h
    have hs' : s.secure = true := by rw [hr.2] at hs; exact hs
    refine NS.not_accepted_host hs' ((tokenOpens_iff_decode h16).2 ht0) (fun y hy hmem => ?_) t
    refine hh (reprAddr y) ?_ ?_
    · exact List.mem_map.2 ⟨some y, hy, rfl⟩
    · rw [hr.2]; exact List.mem_map.2 ⟨y, hmem, rfl⟩

/-- **C05 `rejected_request` (+ `expired`, `foreign_protocol`, `tampered_or_foreign_key`, `wrong_host`), on the generated
    `process_packet`.**  State: `GInv g`.  If the generated `Packet::decode` (no key) reads the datagram as a connection
    request whose fields are `GRejected` (expired / foreign protocol / wrong version / private token not opening under the
    server key / wrong host), then `process_packet` answers `ServerResult::None`, the sessions in the slots are as before
    (`gIdent` of every slot), and every pending entry afterwards was there before with the same identity: nobody
    connects, no half-open session is created. -/
theorem rejected_request {ε : Type} (a : AEAD) (hl : a.Laws) {g : SNetcodeServer} (hg : GInv g)
    {ga : RustSem.SocketAddr} (hga : AddrOk ga) {gbuf : List Nat} (hb : BytesOk gbuf) (hbl : gbuf.length + 16 < 2 ^ 64)
    {dbuf : List Nat} {drp : Option Src.renetcode.replay_protection.ReplayProtection} {sq : Nat} {gv gx gd : List Nat}
    {pid e : Nat} (hdec : decodeBare a gbuf g.protocol_id = .ok (dbuf, drp, (sq, .ConnectionRequest gv pid e gx gd)))
    (hrej : GRejected a g gv pid e gx gd) {g' : SNetcodeServer} {buf' : List Nat} {gr : SServerResult}
    (h : @NetcodeServer.process_packet (aeadOf a) ε g ga gbuf = .ok (g', buf', gr)) :
    gr = .None ∧ GInv g' ∧ g'.clients.map (Option.map gIdent) = g.clients.map (Option.map gIdent) ∧
      ∀ gy gp', RustSem.AMap.find? g'.pending_clients gy = some gp' →
        ∃ gp, RustSem.AMap.find? g.pending_clients gy = some gp ∧ gIdent gp' = gIdent gp := by
  obtain ⟨s, hr, hinv⟩ := hg
  obtain ⟨addr, rfl⟩ := (addrOk_iff ga).1 hga
  obtain ⟨buf, rfl⟩ := (bytesOk_iff gbuf).1 hb
  simp only [toNats_length] at hbl
  rw [hr.protocol_id] at hdec
  obtain ⟨p, rp', hD, hp, _⟩ := decode_pull_ok a hl buf hbl s.protocolId none none hdec
  obtain ⟨v, x, d, rfl, rfl, rfl, rfl⟩ := reprNP_request hp.symm
  have hsq : sq = 0 := by
    rcases Packet.decode_ok hD with ⟨_, h0, _⟩ | ⟨k, _, _, hk, _⟩
    · exact h0
    · cases hk
  subst hsq
  have hdl := (NetcodeServer.request_of_decode hD).2.2.2
  rcases process_packet_tie (ε := ε) a hl hr hinv.entriesPos addr buf hbl with
    ⟨r, s', g2, buf2, hm, hr', hg'⟩ | ⟨_, m, hp⟩
  · rw [hg'] at h
    simp only [Res.ok.injEq, Prod.mk.injEq] at h
    obtain ⟨rfl, rfl, rfl⟩ := h
    obtain ⟨rfl, hses, hpend⟩ := C05.rejected_request hinv hm (by rw [hD]) (grejected_not_accepted hl hr hdl hrej)
    have hinv' : NS.ServerInv s' := inv_pp hinv hm
    refine ⟨rfl, ⟨s', hr', hinv'⟩, ?_, ?_⟩
    · rw [hr'.clients, hr.clients, gSessions_repr, gSessions_repr, hses]
    · intro gy gp' hfy
      rw [hr'.pending] at hfy
      obtain ⟨y, rfl⟩ := amap_find_key hfy
      rw [← hr'.pending] at hfy
      obtain ⟨c', hc', rfl⟩ := pending_session hr' hfy
      obtain ⟨c0, hc0, hid⟩ := hpend y c' hc'
      refine ⟨reprNConn c0, by rw [hr.pendingFind, hc0]; rfl, ?_⟩
      rw [gIdent_repr, gIdent_repr, hid]
  · rw [hp] at h; cases h

/-- **C05 `token_address_binding_partial`, on the generated `process_packet`.**  State: `GInv g`.  A connection request
    whose token MAC (the last 16 bytes of the 1024-byte private token) is recorded in the generated token-entry table
    with ANOTHER address is refused from this address: `None`, same sessions, no new half-open session.
    MISSING (as in Props/C05): the table has `NETCODE_TOKEN_ENTRIES` = 2048 entries without expiry and overwrites the
    oldest one when full, so after 2048 OTHER accepted tokens the binding of a still unexpired token is forgotten
    (`C05.binding_lost_when_full`); the clause "a token used from one address never connects from another" holds only
    while its entry is in the table — which is what this theorem states. -/
theorem token_address_binding_partial {ε : Type} (a : AEAD) (hl : a.Laws) {g : SNetcodeServer} (hg : GInv g)
    {ga : RustSem.SocketAddr} (hga : AddrOk ga) {gbuf : List Nat} (hb : BytesOk gbuf) (hbl : gbuf.length + 16 < 2 ^ 64)
    {dbuf : List Nat} {drp : Option Src.renetcode.replay_protection.ReplayProtection} {sq : Nat} {gv gx gd : List Nat}
    {pid e : Nat} (hdec : decodeBare a gbuf g.protocol_id = .ok (dbuf, drp, (sq, .ConnectionRequest gv pid e gx gd)))
    {ge : Src.renetcode.server.ConnectTokenEntry} (he : some ge ∈ g.connect_token_entries)
    (hmac : ge.mac = gd.drop (Src.renetcode.NETCODE_CONNECT_TOKEN_PRIVATE_BYTES - Src.renetcode.NETCODE_MAC_BYTES))
    (hother : ge.address ≠ ga) {g' : SNetcodeServer} {buf' : List Nat} {gr : SServerResult}
    (h : @NetcodeServer.process_packet (aeadOf a) ε g ga gbuf = .ok (g', buf', gr)) :
    gr = .None ∧ GInv g' ∧ g'.clients.map (Option.map gIdent) = g.clients.map (Option.map gIdent) ∧
      ∀ gy gp', RustSem.AMap.find? g'.pending_clients gy = some gp' →
        ∃ gp, RustSem.AMap.find? g.pending_clients gy = some gp ∧ gIdent gp' = gIdent gp := by
  obtain ⟨s, hr, hinv⟩ := hg
  obtain ⟨addr, rfl⟩ := (addrOk_iff ga).1 hga
  obtain ⟨buf, rfl⟩ := (bytesOk_iff gbuf).1 hb
  simp only [toNats_length] at hbl
  rw [hr.protocol_id] at hdec
  obtain ⟨p, rp', hD, hp, _⟩ := decode_pull_ok a hl buf hbl s.protocolId none none hdec
  obtain ⟨v, x, d, rfl, rfl, rfl, rfl⟩ := reprNP_request hp.symm
  have hsq : sq = 0 := by
    rcases Packet.decode_ok hD with ⟨_, h0, _⟩ | ⟨k, _, _, hk, _⟩
    · exact h0
    · cases hk
  subst hsq
  rw [hr.entries] at he
  obtain ⟨oe, hoe, hoe2⟩ := List.mem_map.1 he
  cases oe with
  | none => cases hoe2
  | some e0 =>
    simp only [Option.map_some, Option.some.injEq] at hoe2
    subst hoe2
    have hm0 : e0.mac = NS.tokenMac d := by
      have h1 : toNats e0.mac = (toNats d).drop (C.NETCODE_CONNECT_TOKEN_PRIVATE_BYTES - C.NETCODE_MAC_BYTES) := hmac
      rw [← toNats_drop] at h1
      exact toNats_inj h1
    have ha0 : e0.address ≠ addr := fun hh => hother (by show reprAddr e0.address = _; rw [hh])
    rcases process_packet_tie (ε := ε) a hl hr hinv.entriesPos addr buf hbl with
      ⟨r, s', g2, buf2, hm, hr', hg'⟩ | ⟨_, m, hp⟩
    · rw [hg'] at h
      simp only [Res.ok.injEq, Prod.mk.injEq] at h
      obtain ⟨rfl, rfl, rfl⟩ := h
      obtain ⟨rfl, hses, hpend⟩ := C05.token_address_binding_partial hinv hm (by rw [hD]) hoe hm0 ha0
      refine ⟨rfl, ⟨s', hr', inv_pp hinv hm⟩, ?_, ?_⟩
      · rw [hr'.clients, hr.clients, gSessions_repr, gSessions_repr, hses]
      · intro gy gp' hfy
        rw [hr'.pending] at hfy
        obtain ⟨y, rfl⟩ := amap_find_key hfy
        rw [← hr'.pending] at hfy
        obtain ⟨c', hc', rfl⟩ := pending_session hr' hfy
        obtain ⟨c0, hc0, hid⟩ := hpend y c' hc'
        refine ⟨reprNConn c0, by rw [hr.pendingFind, hc0]; rfl, ?_⟩
        rw [gIdent_repr, gIdent_repr, hid]
    · rw [hp] at h; cases h

/-! ## C10 — the connection table: unique ids, unique addresses, bounded; a full server refuses -/

/-- INTRINSIC table invariant of a generated server: the connected slots hold pairwise distinct `client_id`s and pairwise
    distinct `addr`s, all in state `Connected`; the connected clients do not outnumber the slots;
    `max_clients ≤ #slots ≤ NETCODE_MAX_CLIENTS`. -/
def TableOK (g : SNetcodeServer) : Prop :=
  (∀ (i j : Nat) (ci cj : SConnection), g.clients[i]? = some (some ci) → g.clients[j]? = some (some cj) →
    ci.client_id = cj.client_id → i = j) ∧
  (∀ (i j : Nat) (ci cj : SConnection), g.clients[i]? = some (some ci) → g.clients[j]? = some (some cj) →
    ci.addr = cj.addr → i = j) ∧
  (∀ (i : Nat) (c : SConnection), g.clients[i]? = some (some c) → c.state = .Connected) ∧
  (g.clients.filter Option.isSome).length ≤ g.clients.length ∧
  g.max_clients ≤ g.clients.length ∧ g.clients.length ≤ Src.renetcode.NETCODE_MAX_CLIENTS

/-- the intrinsic content of `GInv` on the slot table -/
theorem table_distinct {g : SNetcodeServer} (hg : GInv g) : TableOK g := by
  obtain ⟨s, hr, hinv⟩ := hg
  refine ⟨?_, ?_, ?_, List.length_filter_le _ _, ?_, ?_⟩
  · intro i j ci cj hi hj hid
    obtain ⟨c1, h1, rfl⟩ := slot_of_repr hr hi
    obtain ⟨c2, h2, rfl⟩ := slot_of_repr hr hj
    exact hinv.slots.ids i j c1 c2 h1 h2 hid
  · intro i j ci cj hi hj had
    obtain ⟨c1, h1, rfl⟩ := slot_of_repr hr hi
    obtain ⟨c2, h2, rfl⟩ := slot_of_repr hr hj
    exact hinv.slots.addrs i j c1 c2 h1 h2 (reprAddr_inj had)
  · intro i c hi
    obtain ⟨c1, h1, rfl⟩ := slot_of_repr hr hi
    have := hinv.slots.conn i c1 h1
    show reprCS c1.state = .Connected
    rw [this]; rfl
  · rw [hr.max_clients, hr.clients, List.length_map]; exact hinv.maxLe
  · rw [hr.clients, List.length_map]; exact hinv.lenLe

theorem inv_timeouts {s : Netcode.NetcodeServer} (hinv : NS.ServerInv s) :
    ∀ c, some c ∈ s.clients → c.timeoutSeconds < 2 ^ 31 := by
  intro c hc
  obtain ⟨i, hi⟩ := List.getElem?_of_mem hc
  exact (hinv.slotsOK i c hi).tmo

theorem inv_pending_states {s : Netcode.NetcodeServer} (hinv : NS.ServerInv s) :
    ∀ p ∈ s.pendingClients, p.2.state ≠ .disconnected := by
  intro p hp h
  have := (hinv.pend p hp).state
  rw [this] at h; cases h

/-- **C10 `inv_new`**: the generated `NetcodeServer::new` (random challenge key as explicit parameter), when it returns
    `Ok`, establishes the invariant: `GInv`, hence `TableOK`; `max_clients` slots. -/
theorem inv_new {ε : Type} (ct mc pid : Nat) (addrs : List Addr) (secure : Bool) (pk ck : Bytes) {g : SNetcodeServer}
    (h : (Src.renetcode.server.NetcodeServer.new ⟨ct, mc, pid, addrs.map reprAddr, reprAuth secure pk⟩ (toNats ck) : Res ε _)
      = .ok g) : GInv g ∧ TableOK g ∧ g.clients.length = g.max_clients := by
  have t := nc_server_new (ε := ε) ct mc pid addrs secure pk ck
  rw [h] at t
  cases hm : Netcode.NetcodeServer.new ct mc pid addrs secure pk ck with
  | ok s =>
    rw [hm] at t
    have hg : g = reprNS (List.replicate C.NETCODE_MAX_PACKET_BYTES 0) s := t
    obtain ⟨hinv, _, hlen⟩ := C10.inv_new hm
    have hr : SrvRepr g s := by rw [hg]; exact srvRepr_mk (List.length_replicate ..) s
    exact ⟨⟨s, hr, hinv⟩, table_distinct ⟨s, hr, hinv⟩, by rw [hr.clients, List.length_map, hlen, hr.max_clients]⟩
  | err e => exact e.elim
  | panic m => rw [hm] at t; exact t.elim

/-- **C10 `inv_step`, `process_packet`**: for every source address and every datagram, whatever the generated
    `process_packet` returns, the post-state satisfies `GInv` (hence `TableOK`: ids and addresses of the connected slots
    pairwise distinct, count ≤ slots). -/
theorem process_packet_inv {ε : Type} (a : AEAD) (hl : a.Laws) {g : SNetcodeServer} (hg : GInv g)
    {ga : RustSem.SocketAddr} (hga : AddrOk ga) {gbuf : List Nat} (hb : BytesOk gbuf) (hbl : gbuf.length + 16 < 2 ^ 64)
    {g' : SNetcodeServer} {buf' : List Nat} {gr : SServerResult}
    (h : @NetcodeServer.process_packet (aeadOf a) ε g ga gbuf = .ok (g', buf', gr)) : GInv g' ∧ TableOK g' := by
  obtain ⟨s, hr, hinv⟩ := hg
  obtain ⟨addr, rfl⟩ := (addrOk_iff ga).1 hga
  obtain ⟨buf, rfl⟩ := (bytesOk_iff gbuf).1 hb
  simp only [toNats_length] at hbl
  rcases process_packet_tie (ε := ε) a hl hr hinv.entriesPos addr buf hbl with
    ⟨r, s', g2, buf2, hm, hr', hg'⟩ | ⟨_, m, hp⟩
  · rw [hg'] at h
    simp only [Res.ok.injEq, Prod.mk.injEq] at h
    obtain ⟨rfl, _, _⟩ := h
    have hg2 : GInv g2 := ⟨s', hr', inv_pp hinv hm⟩
    exact ⟨hg2, table_distinct hg2⟩
  · rw [hp] at h; cases h

/-- **C10 `inv_step`, `update_client`** -/
theorem update_client_inv {ε : Type} (a : AEAD) (hl : a.Laws) {g : SNetcodeServer} (hg : GInv g) (id : Nat)
    {g' : SNetcodeServer} {gr : SServerResult}
    (h : @NetcodeServer.update_client (aeadOf a) ε g id = .ok (g', gr)) : GInv g' ∧ TableOK g' := by
  obtain ⟨s, hr, hinv⟩ := hg
  rcases update_client_tie (ε := ε) a hl hr (inv_timeouts hinv) id with ⟨r, s', g2, hm, hr', hg'⟩ | ⟨_, m, hp⟩
  · rw [hg'] at h
    simp only [Res.ok.injEq, Prod.mk.injEq] at h
    obtain ⟨rfl, _⟩ := h
    have hinv' : NS.ServerInv s' :=
      C10.inv_step (a := a) (op := .updateClient id) (r := r) hinv (by simp only [NS.step, hm])
    exact ⟨⟨s', hr', hinv'⟩, table_distinct ⟨s', hr', hinv'⟩⟩
  · rw [hp] at h; cases h

/-- **C10 `inv_step`, `disconnect`** -/
theorem disconnect_inv {ε : Type} (a : AEAD) (hl : a.Laws) {g : SNetcodeServer} (hg : GInv g) (id : Nat)
    {g' : SNetcodeServer} {gr : SServerResult}
    (h : @Src.renetcode.server.NetcodeServer.disconnect (aeadOf a) ε g id = .ok (g', gr)) : GInv g' ∧ TableOK g' := by
  obtain ⟨s, hr, hinv⟩ := hg
  rcases disconnect_tie (ε := ε) a hl hr id with ⟨r, s', g2, hm, hr', hg'⟩ | ⟨_, m, hp⟩
  · rw [hg'] at h
    simp only [Res.ok.injEq, Prod.mk.injEq] at h
    obtain ⟨rfl, _⟩ := h
    have hinv' : NS.ServerInv s' :=
      C10.inv_step (a := a) (op := .disconnect id) (r := r) hinv (by simp only [NS.step, hm])
    exact ⟨⟨s', hr', hinv'⟩, table_distinct ⟨s', hr', hinv'⟩⟩
  · rw [hp] at h; cases h

/-- **C10 `inv_step`, `update`** (no AEAD involved) -/
theorem update_inv {ε : Type} {g : SNetcodeServer} (hg : GInv g) (dt : Nat) {g' : SNetcodeServer}
    (h : (Src.renetcode.server.NetcodeServer.update g dt : Res ε _) = .ok (g', ())) : GInv g' ∧ TableOK g' := by
  obtain ⟨s, hr, hinv⟩ := hg
  rcases update_tie (ε := ε) hr (inv_pending_states hinv) dt with ⟨s', g2, hm, hr', hg'⟩ | ⟨_, m, hp⟩
  · rw [hg'] at h
    simp only [Res.ok.injEq, Prod.mk.injEq, and_true] at h
    subst h
    have hinv' : NS.ServerInv s' :=
      C10.inv_step (a := AEAD.toy) (op := .update dt) (r := .none) hinv (by simp only [NS.step, hm])
    exact ⟨⟨s', hr', hinv'⟩, table_distinct ⟨s', hr', hinv'⟩⟩
  · rw [hp] at h; cases h

/-- **C10 `inv_step`, `generate_payload_packet`**: after `Ok` and after `Err` (the state carried by the `Err`) -/
theorem generate_payload_inv (a : AEAD) (hl : a.Laws) {g : SNetcodeServer} (hg : GInv g) (id : Nat) {gp : List Nat}
    (hb : BytesOk gp) :
    (∀ g' x, @NetcodeServer.generate_payload_packet (aeadOf a) g id gp = .ok (g', x) → GInv g' ∧ TableOK g') ∧
    (∀ e g', @NetcodeServer.generate_payload_packet (aeadOf a) g id gp = .err (e, g') → GInv g' ∧ TableOK g') := by
  obtain ⟨s, hr, hinv⟩ := hg
  obtain ⟨payload, rfl⟩ := (bytesOk_iff gp).1 hb
  rcases generate_payload_tie a hl hr id payload with ⟨addr, out, s', g2, hm, hr', hg'⟩ | ⟨e, g2, hm, hr', hg'⟩ | ⟨_, m, hp⟩
  · refine ⟨fun g' x h => ?_, fun e g' h => (by rw [hg'] at h; cases h)⟩
    rw [hg'] at h
    simp only [Res.ok.injEq, Prod.mk.injEq] at h
    obtain ⟨rfl, _⟩ := h
    have hinv' : NS.ServerInv s' :=
      C10.inv_step (a := a) (op := .sendPayload id payload) (r := .packetToSend addr out) hinv (by simp only [NS.step, hm])
    exact ⟨⟨s', hr', hinv'⟩, table_distinct ⟨s', hr', hinv'⟩⟩
  · refine ⟨fun g' x h => (by rw [hg'] at h; cases h), fun e' g' h => ?_⟩
    rw [hg'] at h
    simp only [Res.err.injEq, Prod.mk.injEq] at h
    obtain ⟨_, rfl⟩ := h
    exact ⟨⟨s, hr', hinv⟩, table_distinct ⟨s, hr', hinv⟩⟩
  · exact ⟨fun g' x h => (by rw [hp] at h; cases h), fun e g' h => (by rw [hp] at h; cases h)⟩

/-- the datagram `o` is what the generated `Packet::encode` makes of a `ConnectionDenied` packet (into the server's scratch
    buffer) under the server's protocol id and global sequence number and some key -/
def GIsDenied (a : AEAD) (g : SNetcodeServer) (o : List Nat) : Prop :=
  ∃ key : List Nat, GEncodes a g .ConnectionDenied g.global_sequence key o

/-- **C10 `full_refuses`, on the generated `process_packet`.**  State: `GInv g`.  When no slot is free (every entry of
    `g.clients` is `Some`) a datagram from an address that is not connected — request, response, anything — changes no
    slot; the answer is `None` or one `PacketToSend` to that address carrying a `ConnectionDenied` packet (`GIsDenied`). -/
theorem full_refuses {ε : Type} (a : AEAD) (hl : a.Laws) {g : SNetcodeServer} (hg : GInv g)
    (hfull : ∀ i : Nat, g.clients[i]? ≠ some none)
    {ga : RustSem.SocketAddr} (hga : AddrOk ga) {gbuf : List Nat} (hb : BytesOk gbuf) (hbl : gbuf.length + 16 < 2 ^ 64)
    (hna : (find_client_mut_by_addr g.clients ga : Res ε _) = .ok none)
    {g' : SNetcodeServer} {buf' : List Nat} {gr : SServerResult}
    (h : @NetcodeServer.process_packet (aeadOf a) ε g ga gbuf = .ok (g', buf', gr)) :
    g'.clients = g.clients ∧ (gr = .None ∨ ∃ o, gr = .PacketToSend ga o ∧ GIsDenied a g o) := by
  obtain ⟨s, hr, hinv⟩ := hg
  obtain ⟨addr, rfl⟩ := (addrOk_iff ga).1 hga
  obtain ⟨buf, rfl⟩ := (bytesOk_iff gbuf).1 hb
  simp only [toNats_length] at hbl
  have hfull' : firstFreeSlot s.clients = none := by
    rw [NS.firstFree_none]
    intro i hi
    apply hfull i
    rw [hr.clients, List.getElem?_map, hi]; rfl
  rcases process_packet_tie (ε := ε) a hl hr hinv.entriesPos addr buf hbl with
    ⟨r, s', g2, buf2, hm, hr', hg'⟩ | ⟨_, m, hp⟩
  · rw [hg'] at h
    simp only [Res.ok.injEq, Prod.mk.injEq] at h
    obtain ⟨rfl, _, rfl⟩ := h
    obtain ⟨hcl, hres⟩ := C10.full_refuses hinv hfull' ((find_by_addr_none hr).1 hna) hm
    refine ⟨by rw [hr'.clients, hcl, hr.clients], ?_⟩
    rcases hres with rfl | ⟨out, rfl, key, hden⟩
    · exact .inl rfl
    · refine .inr ⟨toNats out, rfl, toNats key, ?_⟩
      rw [hr.global_sequence]
      exact gencodes_push a hl hr hden
  · rw [hp] at h; cases h

/-! ## C07 — hostile datagrams: no panic, no state change -/

/-- **C07 `server_process_packet_total`, on the generated `process_packet`.**  State: `WfS g` (representable), INTRINSIC
    counter room `SeqRoom (n+1) g`, token table not empty.  For EVERY source address and EVERY datagram the generated
    function returns `Ok` — it never returns `.panic` —, and the post-state is representable with room `n`. -/
theorem process_packet_total {ε : Type} (a : AEAD) (hl : a.Laws) {n : Nat} {g : SNetcodeServer} (hw : WfS g)
    (hroom : SeqRoom (n + 1) g) (hent : 0 < g.connect_token_entries.length) {ga : RustSem.SocketAddr} (hga : AddrOk ga)
    {gbuf : List Nat} (hb : BytesOk gbuf) (hbl : gbuf.length + 16 < 2 ^ 64) :
    ∃ g' buf' gr, @NetcodeServer.process_packet (aeadOf a) ε g ga gbuf = .ok (g', buf', gr) ∧ WfS g' ∧ SeqRoom n g' := by
  obtain ⟨s, hr⟩ := hw
  obtain ⟨addr, rfl⟩ := (addrOk_iff ga).1 hga
  obtain ⟨buf, rfl⟩ := (bytesOk_iff gbuf).1 hb
  simp only [toNats_length] at hbl
  obtain ⟨r, s', hm, hinv'⟩ := C07.server_process_packet_total a ((seqRoom_iff hr).1 hroom) addr buf
  rcases process_packet_tie (ε := ε) a hl hr (hr.entries_pos.1 hent) addr buf hbl with
    ⟨r2, s2, g', buf', hm2, hr', hg⟩ | ⟨⟨m, hp⟩, _⟩
  · rw [hm] at hm2; cases hm2
    exact ⟨g', buf', _, hg, ⟨s', hr'⟩, (seqRoom_iff hr').2 hinv'⟩
  · rw [hm] at hp; cases hp

/-- … in the vocabulary of `SrcCorollaries`: no `.panic` -/
theorem process_packet_no_panic {ε : Type} (a : AEAD) (hl : a.Laws) {n : Nat} {g : SNetcodeServer} (hw : WfS g)
    (hroom : SeqRoom (n + 1) g) (hent : 0 < g.connect_token_entries.length) {ga : RustSem.SocketAddr} (hga : AddrOk ga)
    {gbuf : List Nat} (hb : BytesOk gbuf) (hbl : gbuf.length + 16 < 2 ^ 64) :
    NoPanic (@NetcodeServer.process_packet (aeadOf a) ε g ga gbuf) := by
  obtain ⟨g', buf', gr, h, _⟩ := process_packet_total (ε := ε) a hl hw hroom hent hga hb hbl
  exact noPanic_of_eq_ok h

/-- **C07 `server_decode_error_noop`, connected session.**  State: `WfS g`, token table not empty.  The source address
    is connected in slot `i` (generated finder) holding `gc`; the generated `Packet::decode` under `gc`'s receive key and
    window returns `Err(ge)` handing back the window `st.2`.  Then `process_packet` answers `ServerResult::None` and
      * either the window came back untouched and the server is unchanged up to its scratch buffer,
      * or — only for `ge = IoError` (an authentic keep-alive with a short body, see C07) — exactly the window of slot
        `i` is replaced by the one `decode` handed back. -/
theorem decode_error_noop_connected {ε : Type} (a : AEAD) (hl : a.Laws) {g : SNetcodeServer} (hw : WfS g)
    (hent : 0 < g.connect_token_entries.length) {ga : RustSem.SocketAddr} (hga : AddrOk ga)
    {gbuf : List Nat} (hb : BytesOk gbuf) (hbl : gbuf.length + 16 < 2 ^ 64) {i : Nat} {gc : SConnection}
    (hf : (find_client_mut_by_addr g.clients ga : Res ε _) = .ok (some i)) (hi : g.clients[i]? = some (some gc))
    {ge : SNErr} {st : List Nat × Option Src.renetcode.replay_protection.ReplayProtection}
    (hdec : decodeWith a gbuf g.protocol_id gc = .err (ge, st)) :
    ∃ g' buf', @NetcodeServer.process_packet (aeadOf a) ε g ga gbuf = .ok (g', buf', .None) ∧
      ((st.2 = some gc.replay_protection ∧ g' = { g with out := g'.out }) ∨
       (ge = .IoError .opaque ∧ ∃ w, st.2 = some w ∧
          g' = { g with out := g'.out, clients := g.clients.set i (some { gc with replay_protection := w }) })) := by
  obtain ⟨s, hr⟩ := hw
  obtain ⟨addr, rfl⟩ := (addrOk_iff ga).1 hga
  obtain ⟨buf, rfl⟩ := (bytesOk_iff gbuf).1 hb
  simp only [toNats_length] at hbl
  obtain ⟨c, hfc, rfl⟩ := connected_session hr hf hi
  rw [hr.protocol_id] at hdec
  obtain ⟨e, rp', hD, rfl, hst⟩ :=
    decode_pull_err a hl buf hbl s.protocolId (some c.receiveKey) (some c.replayProtection) hdec
  have hs : NetcodeServer.sessionOf s addr = some c := by unfold NetcodeServer.sessionOf; rw [hfc]
  have hm := NetcodeServer.processPacket_decode_err a s addr buf hs hD
  rcases process_packet_tie (ε := ε) a hl hr (hr.entries_pos.1 hent) addr buf hbl with
    ⟨r2, s2, g', buf', hm2, hr', hg⟩ | ⟨⟨m, hp⟩, _⟩
  · rw [hm] at hm2; cases hm2
    refine ⟨g', buf', hg, ?_⟩
    rcases C04.decode_error_window hD with hw | ⟨k, plain, hk, hso, hdup, hlen, he, hw⟩
    · left
      subst hw
      rw [Option.getD_some, NetcodeServer.withWindow_self hs] at hr'
      exact ⟨hst, same_of_repr hr hr'⟩
    · right
      subst hw
      refine ⟨by rw [he]; rfl, reprRP (c.replayProtection.advance (Packet.wireSeq buf)), hst, ?_⟩
      let c' : Netcode.Connection := { c with replayProtection := c.replayProtection.advance (Packet.wireSeq buf) }
      have hww : NetcodeServer.withWindow s addr
          ((Option.map (·.advance (Packet.wireSeq buf)) (some c.replayProtection)).getD c.replayProtection) =
          { s with clients := s.clients.set i (some c') } := by
        simp only [c', NetcodeServer.withWindow, hfc, Option.map_some, Option.getD_some]
      rw [hww] at hr'
      exact repr_set_client hr hr'
  · rw [hm] at hp; cases hp

/-- **C07 `server_decode_error_noop`, pending session**: the same for an address with a half-open session `gp`
    (not connected): `None`; unchanged up to the scratch buffer, or — `IoError` only — the pending entry's window replaced. -/
theorem decode_error_noop_pending {ε : Type} (a : AEAD) (hl : a.Laws) {g : SNetcodeServer} (hw : WfS g)
    (hent : 0 < g.connect_token_entries.length) {ga : RustSem.SocketAddr} (hga : AddrOk ga)
    {gbuf : List Nat} (hb : BytesOk gbuf) (hbl : gbuf.length + 16 < 2 ^ 64)
    (hf : (find_client_mut_by_addr g.clients ga : Res ε _) = .ok none) {gp : SConnection}
    (hp : RustSem.AMap.find? g.pending_clients ga = some gp)
    {ge : SNErr} {st : List Nat × Option Src.renetcode.replay_protection.ReplayProtection}
    (hdec : decodeWith a gbuf g.protocol_id gp = .err (ge, st)) :
    ∃ g' buf', @NetcodeServer.process_packet (aeadOf a) ε g ga gbuf = .ok (g', buf', .None) ∧
      ((st.2 = some gp.replay_protection ∧ g' = { g with out := g'.out }) ∨
       (ge = .IoError .opaque ∧ ∃ w, st.2 = some w ∧
          g' = { g with out := g'.out,
                        pending_clients := RustSem.AMap.insert g.pending_clients ga { gp with replay_protection := w } })) := by
  obtain ⟨s, hr⟩ := hw
  obtain ⟨addr, rfl⟩ := (addrOk_iff ga).1 hga
  obtain ⟨buf, rfl⟩ := (bytesOk_iff gbuf).1 hb
  simp only [toNats_length] at hbl
  obtain ⟨c, hpc, rfl⟩ := pending_session hr hp
  have hf' := (find_by_addr_none hr).1 hf
  rw [hr.protocol_id] at hdec
  obtain ⟨e, rp', hD, rfl, hst⟩ :=
    decode_pull_err a hl buf hbl s.protocolId (some c.receiveKey) (some c.replayProtection) hdec
  have hs : NetcodeServer.sessionOf s addr = some c := by unfold NetcodeServer.sessionOf; rw [hf', hpc]
  have hm := NetcodeServer.processPacket_decode_err a s addr buf hs hD
  rcases process_packet_tie (ε := ε) a hl hr (hr.entries_pos.1 hent) addr buf hbl with
    ⟨r2, s2, g', buf', hm2, hr', hg⟩ | ⟨⟨m, hp⟩, _⟩
  · rw [hm] at hm2; cases hm2
    refine ⟨g', buf', hg, ?_⟩
    rcases C04.decode_error_window hD with hw | ⟨k, plain, hk, hso, hdup, hlen, he, hw⟩
    · left
      subst hw
      rw [Option.getD_some, NetcodeServer.withWindow_self hs] at hr'
      exact ⟨hst, same_of_repr hr hr'⟩
    · right
      subst hw
      refine ⟨by rw [he]; rfl, reprRP (c.replayProtection.advance (Packet.wireSeq buf)), hst, ?_⟩
      let c' : Netcode.Connection := { c with replayProtection := c.replayProtection.advance (Packet.wireSeq buf) }
      have hww : NetcodeServer.withWindow s addr
          ((Option.map (·.advance (Packet.wireSeq buf)) (some c.replayProtection)).getD c.replayProtection) =
          { s with pendingClients := pendingSet s.pendingClients addr c' } := by
        simp only [c', NetcodeServer.withWindow, hf', hpc, Option.map_some, Option.getD_some]
      rw [hww] at hr'
      exact repr_set_pending hr hr'
  · rw [hm] at hp; cases hp

/-- **C07 `server_request_from_connected_noop` (repaired defect D12), on the generated `process_packet`.**  State: `WfS g`,
    token table not empty.  ANY datagram of connection-request shape (type nibble 0) from the address of a connected
    client — valid token or not — yields `None` and changes nothing (up to the scratch buffer). -/
theorem request_from_connected_noop {ε : Type} (a : AEAD) (hl : a.Laws) {g : SNetcodeServer} (hw : WfS g)
    (hent : 0 < g.connect_token_entries.length) {ga : RustSem.SocketAddr} (hga : AddrOk ga)
    {gbuf : List Nat} (hb : BytesOk gbuf) (hbl : gbuf.length + 16 < 2 ^ 64) {i : Nat}
    (hf : (find_client_mut_by_addr g.clients ga : Res ε _) = .ok (some i)) (ht : gbuf.headD 0 % 16 = 0) :
    ∃ g' buf', @NetcodeServer.process_packet (aeadOf a) ε g ga gbuf = .ok (g', buf', .None) ∧
      g' = { g with out := g'.out } := by
  obtain ⟨s, hr⟩ := hw
  obtain ⟨addr, rfl⟩ := (addrOk_iff ga).1 hga
  obtain ⟨buf, rfl⟩ := (bytesOk_iff gbuf).1 hb
  simp only [toNats_length] at hbl
  obtain ⟨c, hfc⟩ := find_by_addr_some hr hf
  have ht' : Packet.wireType buf = 0 := by
    have h0 : (toNats buf).headD 0 = (buf.headD 0).toNat := by cases buf <;> rfl
    rw [h0] at ht; exact ht
  have hm := C07.server_request_from_connected_noop a s addr buf hfc ht'
  rcases process_packet_tie (ε := ε) a hl hr (hr.entries_pos.1 hent) addr buf hbl with
    ⟨r2, s2, g', buf', hm2, hr', hg⟩ | ⟨⟨m, hp⟩, _⟩
  · rw [hm] at hm2; cases hm2; exact ⟨g', buf', hg, same_of_repr hr hr'⟩
  · rw [hm] at hp; cases hp

/-- a pending connection whose receive time was touched -/
def gTouched (gp : SConnection) (now : Nat) : SConnection := { gp with last_packet_received_time := now }

/-- **C07 `server_invalid_request_noop`, on the generated `process_packet`.**  State: `WfS g`, token table not empty.  A
    connection request (as the generated `Packet::decode` reads it; unauthenticated by design) whose version / protocol id
    / expiry / private token does not pass, from an address that is not connected: `None`; NOTHING changes, except the
    receive time of a pending entry at that address (never read before the response path overwrites it). -/
theorem invalid_request_noop {ε : Type} (a : AEAD) (hl : a.Laws) {g : SNetcodeServer} (hw : WfS g)
    (hent : 0 < g.connect_token_entries.length) {ga : RustSem.SocketAddr} (hga : AddrOk ga)
    {gbuf : List Nat} (hb : BytesOk gbuf) (hbl : gbuf.length + 16 < 2 ^ 64)
    (hf : (find_client_mut_by_addr g.clients ga : Res ε _) = .ok none)
    {dbuf : List Nat} {drp : Option Src.renetcode.replay_protection.ReplayProtection} {sq : Nat} {gv gx gd : List Nat}
    {pid e : Nat} (hdec : decodeBare a gbuf g.protocol_id = .ok (dbuf, drp, (sq, .ConnectionRequest gv pid e gx gd)))
    (hbad : gv ≠ Src.renetcode.NETCODE_VERSION_INFO ∨ pid ≠ g.protocol_id ∨ e ≤ RustSem.Duration.as_secs g.current_time ∨
      ∃ ge, @Src.renetcode.token.PrivateConnectToken.decode (aeadOf a) gd g.protocol_id e gx g.connect_key = .err ge) :
    ∃ g' buf', @NetcodeServer.process_packet (aeadOf a) ε g ga gbuf = .ok (g', buf', .None) ∧
      ((RustSem.AMap.find? g.pending_clients ga = none ∧ g' = { g with out := g'.out }) ∨
       ∃ gp, RustSem.AMap.find? g.pending_clients ga = some gp ∧
         g' = { g with out := g'.out
                       pending_clients := RustSem.AMap.insert g.pending_clients ga (gTouched gp g.current_time) }) := by
  obtain ⟨s, hr⟩ := hw
  obtain ⟨addr, rfl⟩ := (addrOk_iff ga).1 hga
  obtain ⟨buf, rfl⟩ := (bytesOk_iff gbuf).1 hb
  simp only [toNats_length] at hbl
  rw [hr.protocol_id] at hdec
  obtain ⟨p, rp', hD, hp, _⟩ := decode_pull_ok a hl buf hbl s.protocolId none none hdec
  obtain ⟨v, x, d, rfl, rfl, rfl, rfl⟩ := reprNP_request hp.symm
  obtain ⟨_, ⟨hlen, ht⟩, hread, hdl⟩ := NetcodeServer.request_of_decode hD
  have e0 := C19.request_min_eq
  have hinvalid : NetcodeServer.InvalidRequest a s v pid e x d := by
    rw [hr.protocol_id, hr.current_time, hr.connect_key] at hbad
    rcases hbad with h | h | h | ⟨ge, h⟩
    · exact .inl (fun hv => h (by rw [hv, version_eq]))
    · exact .inr (.inl h)
    · exact .inr (.inr (.inl h))
    · obtain ⟨e', he'⟩ := ptok_pull_err a hl hdl s.protocolId e x s.connectKey h
      exact .inr (.inr (.inr (fun tok ht => by rw [ht] at he'; cases he')))
  have hf' := (find_by_addr_none hr).1 hf
  have hm := C07.server_invalid_request_noop a s addr buf hf' hread ht (by omega) hinvalid
  rcases process_packet_tie (ε := ε) a hl hr (hr.entries_pos.1 hent) addr buf hbl with
    ⟨r2, s2, g', buf', hm2, hr', hg⟩ | ⟨⟨m, hp⟩, _⟩
  · rw [hm] at hm2; cases hm2
    refine ⟨g', buf', hg, ?_⟩
    cases hpf : pendingFind s.pendingClients addr with
    | none =>
      rw [hpf] at hr'
      exact .inl ⟨by rw [hr.pendingFind, hpf]; rfl, same_of_repr hr hr'⟩
    | some c =>
      rw [hpf] at hr'
      refine .inr ⟨reprNConn c, by rw [hr.pendingFind, hpf]; rfl, ?_⟩
      have h3 := repr_set_pending hr hr'
      rw [← hr.current_time] at h3
      exact h3
  · rw [hm] at hp; cases hp

/-! ## C04 — payloads: only authentic ones surface, each at most once -/

/-- a connection after an accepted payload / keep-alive: the window `decode` handed back, receive timer := now, confirmed -/
def gReceived (gc : SConnection) (w : Src.renetcode.replay_protection.ReplayProtection) (now : Nat) : SConnection :=
  { gc with replay_protection := w, last_packet_received_time := now, confirmed := true }

/-- **C04 `server_payload_only_if_opened`, on the generated `process_packet`.**  State: `WfS g`, INTRINSIC counter room
    `SeqRoom 1 g`, token table not empty.  If the generated `process_packet` surfaces `Payload(cid, p)` then: the source
    address is connected in some slot `i` (generated finder) holding `gc` in state `Connected` with `gc.client_id = cid`;
    the generated `Packet::decode` of the datagram under `gc`'s receive key and window returned `Payload(p)` with sequence
    `sq` = the sequence bytes of the datagram (`gWireSeq`) — so the AEAD opened the body under that key, nonce `sq` and
    the header's additional data —; the generated
    `already_received(gc.replay_protection, sq)` says `false`; and afterwards slot `i` holds `gc` with the window `decode`
    handed back (advanced by `sq`: it now reports `sq` as received — the EMPTY marker `2^64-1` aside, C04's excluded
    point) and receive timer := now — nothing else changes. -/
theorem payload_only_if_opened {ε : Type} (a : AEAD) (hl : a.Laws) {g : SNetcodeServer} (hw : WfS g)
    (hroom : SeqRoom 1 g) (hent : 0 < g.connect_token_entries.length) {ga : RustSem.SocketAddr} (hga : AddrOk ga)
    {gbuf : List Nat} (hb : BytesOk gbuf) (hbl : gbuf.length + 16 < 2 ^ 64)
    {g' : SNetcodeServer} {buf' : List Nat} {cid : Nat} {gp : List Nat}
    (h : @NetcodeServer.process_packet (aeadOf a) ε g ga gbuf = .ok (g', buf', .Payload cid gp)) :
    ∃ i gc, (find_client_mut_by_addr g.clients ga : Res ε _) = .ok (some i) ∧ g.clients[i]? = some (some gc) ∧
      gc.state = .Connected ∧ cid = gc.client_id ∧
      ∃ dbuf w' sq, decodeWith a gbuf g.protocol_id gc = .ok (dbuf, some w', (sq, .Payload gp)) ∧ sq = gWireSeq gbuf ∧
        (Src.renetcode.replay_protection.ReplayProtection.already_received gc.replay_protection sq : Res ε Bool) = .ok false ∧
        (sq ≠ 2 ^ 64 - 1 →
          (Src.renetcode.replay_protection.ReplayProtection.already_received w' sq : Res ε Bool) = .ok true) ∧
        g' = { g with out := g'.out, clients := g.clients.set i (some (gReceived gc w' g.current_time)) } := by
  obtain ⟨s, hr⟩ := hw
  obtain ⟨addr, rfl⟩ := (addrOk_iff ga).1 hga
  obtain ⟨buf, rfl⟩ := (bytesOk_iff gbuf).1 hb
  simp only [toNats_length] at hbl
  rcases process_packet_tie (ε := ε) a hl hr (hr.entries_pos.1 hent) addr buf hbl with
    ⟨r, s', g2, buf2, hm, hr', hg'⟩ | ⟨_, m, hp⟩
  · rw [hg'] at h
    simp only [Res.ok.injEq, Prod.mk.injEq] at h
    obtain ⟨rfl, _, hres⟩ := h
    obtain ⟨p, rfl, rfl⟩ := reprNSR_payload hres
    obtain ⟨i, c, sq, rp', hf, hst, hcid, hdec, hs'⟩ :=
      NetcodeServer.processPacket_payload_inv a ((seqRoom_iff hr).1 hroom) hm
    obtain ⟨k, hk, hsq, hso, hfresh, hrp⟩ := C04.payload_surfaced_only_if_opened hdec
    have hlt : sq < 2 ^ 64 := by rw [hsq]; exact Packet.wireSeq_lt hso.seq_len
    subst hrp
    obtain ⟨dbuf, hgd⟩ := decode_push_ok a hl buf hbl s.protocolId (some c.receiveKey) (some c.replayProtection) hdec
    refine ⟨i, reprNConn c, ?_, slot_to_repr hr (nc_find_client_by_addr_slot hf), by show reprCS c.state = _; rw [hst]; rfl,
      hcid, dbuf, reprRP (c.replayProtection.advance sq), sq, ?_, by rw [gWireSeq_toNats, hsq], ?_, ?_, ?_⟩
    · rw [hr.clients, nc_find_client_mut_by_addr, hf]; rfl
    · rw [hr.protocol_id]; exact hgd
    · show (Src.renetcode.replay_protection.ReplayProtection.already_received (reprRP c.replayProtection) sq : Res ε Bool) = _
      rw [already_received_eq _ _ hlt, hfresh _ rfl]
    · intro hne
      rw [already_received_eq _ _ hlt, RP.alreadyReceived_advance_self _ hne]
    · rw [hs'] at hr'
      have h3 := repr_set_client hr hr'
      rw [← hr.current_time] at h3
      exact h3
  · rw [hp] at h; cases h

/-- **C04 `server_replay_rejected`, on the generated `process_packet`.**  Same state conditions.  Once the generated
    `already_received` of the window of the connected session `gc` (slot `i` of the source address) reports the sequence
    number the datagram carries as received, NO datagram carrying it surfaces a payload — the accepted datagram again,
    any copy, any modification that keeps the sequence bytes. -/
theorem replay_rejected {ε : Type} (a : AEAD) (hl : a.Laws) {g : SNetcodeServer} (hw : WfS g)
    (hroom : SeqRoom 1 g) (hent : 0 < g.connect_token_entries.length) {ga : RustSem.SocketAddr} (hga : AddrOk ga)
    {gbuf : List Nat} (hb : BytesOk gbuf) (hbl : gbuf.length + 16 < 2 ^ 64) {i : Nat} {gc : SConnection}
    (hf : (find_client_mut_by_addr g.clients ga : Res ε _) = .ok (some i)) (hi : g.clients[i]? = some (some gc))
    (hdup : (Src.renetcode.replay_protection.ReplayProtection.already_received gc.replay_protection (gWireSeq gbuf)
      : Res ε Bool) = .ok true) (g' : SNetcodeServer) (buf' : List Nat) (cid : Nat) (gp : List Nat) :
    @NetcodeServer.process_packet (aeadOf a) ε g ga gbuf ≠ .ok (g', buf', .Payload cid gp) := by
  intro h
  obtain ⟨i', gc', hf', hi', _, _, dbuf, w', sq, _, hsq, hfresh, _⟩ :=
    payload_only_if_opened (ε := ε) a hl hw hroom hent hga hb hbl h
  rw [hf] at hf'
  simp only [Res.ok.injEq, Option.some.injEq] at hf'
  subst hf'
  rw [hi] at hi'
  simp only [Option.some.injEq] at hi'
  subst hi' hsq
  rw [hdup] at hfresh
  cases hfresh

/-- **C04 `server_genuine_accepted`, on the generated `process_packet`.**  State: `WfS g`, token table not empty.  The
    source address is connected in slot `i` holding `gc` in state `Connected`.  Let `o` be a genuine payload packet: what
    the generated `Packet::encode` makes of `Payload(gp)` under the server's protocol id, a `u64` sequence number `sq`
    and `gc`'s receive key.  If the generated `already_received(gc.replay_protection, sq)` says `false` then
    `process_packet` surfaces `Payload(gc.client_id, gp)`, and slot `i` afterwards holds `gc` with the window advanced by the
    generated `advance_sequence(sq)` and the receive timer := now — nothing else changes. -/
theorem genuine_accepted {ε : Type} (a : AEAD) (hl : a.Laws) {g : SNetcodeServer} (hw : WfS g)
    (hent : 0 < g.connect_token_entries.length) {ga : RustSem.SocketAddr} (hga : AddrOk ga) {i : Nat} {gc : SConnection}
    (hf : (find_client_mut_by_addr g.clients ga : Res ε _) = .ok (some i)) (hi : g.clients[i]? = some (some gc))
    (hst : gc.state = .Connected) {gp : List Nat} (hgp : BytesOk gp) {sq : Nat} (hsq : sq < 2 ^ 64) {o : List Nat}
    (henc : GEncodes a g (.Payload gp) sq gc.receive_key o)
    (hfresh : (Src.renetcode.replay_protection.ReplayProtection.already_received gc.replay_protection sq : Res ε Bool)
      = .ok false) :
    ∃ g' buf' w', (Src.renetcode.replay_protection.ReplayProtection.advance_sequence gc.replay_protection sq : Res ε _)
        = .ok (w', ()) ∧
      @NetcodeServer.process_packet (aeadOf a) ε g ga o = .ok (g', buf', .Payload gc.client_id gp) ∧
      g' = { g with out := g'.out, clients := g.clients.set i (some (gReceived gc w' g.current_time)) } := by
  obtain ⟨s, hr⟩ := hw
  obtain ⟨addr, rfl⟩ := (addrOk_iff ga).1 hga
  obtain ⟨p, rfl⟩ := (bytesOk_iff gp).1 hgp
  obtain ⟨c, hfc, rfl⟩ := connected_session hr hf hi
  have hst' : c.state = .connected := by
    have : reprCS c.state = .Connected := hst
    cases hcs : c.state <;> rw [hcs] at this <;> first | rfl | cases this
  obtain ⟨out, hme, rfl⟩ := gencodes_pull a hl hr (p := .payload p) (key := c.receiveKey) henc
  have hout : out = Packet.sealedBytes a (.payload p) s.protocolId sq c.receiveKey ∧ out.length + 16 < 2 ^ 64 := by
    rw [Packet.encode_sealed_eq a (.payload p) _ _ _ _ (by intro h; cases h)] at hme
    split at hme
    · rename_i hcap
      cases hme
      refine ⟨rfl, ?_⟩
      rw [Packet.sealed_length a (.payload p) s.protocolId sq c.receiveKey hl]
      have : C.NETCODE_MAX_PACKET_BYTES = 1400 := rfl
      omega
    · cases hme
  obtain ⟨hout, hlen⟩ := hout
  have hfresh' : c.replayProtection.alreadyReceived sq = false := by
    have h2 : (Src.renetcode.replay_protection.ReplayProtection.already_received (reprRP c.replayProtection) sq : Res ε Bool)
        = .ok false := hfresh
    rw [already_received_eq _ _ hsq] at h2
    exact Res.ok.inj h2
  have hm := C04.server_genuine_accepted a hl s addr hfc hst' p hsq hfresh'
  rw [← hout] at hm
  rcases process_packet_tie (ε := ε) a hl hr (hr.entries_pos.1 hent) addr out hlen with
    ⟨r, s', g', buf', hm2, hr', hg'⟩ | ⟨⟨m, hp⟩, _⟩
  · rw [hm] at hm2; cases hm2
    refine ⟨g', buf', reprRP (c.replayProtection.advance sq), advance_sequence_eq _ _ hsq, hg', ?_⟩
    have h3 := repr_set_client hr hr'
    rw [← hr.current_time] at h3
    exact h3
  · rw [hm] at hp; cases hp

/-! ## C18 (server half) and C17 (server half): `update_client`, `generate_payload_packet` -/

/-- INTRINSIC: the session `gc` is timed out at time `now` (`timeout_seconds > 0` and
    `last_packet_received_time + timeout < now`) -/
def GTimedOut (gc : SConnection) (now : Nat) : Prop :=
  gc.timeout_seconds > 0 ∧ gc.last_packet_received_time + RustSem.Duration.from_secs gc.timeout_seconds.toNat < now

instance (gc : SConnection) (now : Nat) : Decidable (GTimedOut gc now) := by unfold GTimedOut; infer_instance

/-- the session after a keep-alive / payload went out: `sequence + 1`, send timer := now -/
def gSent (gc : SConnection) (now : Nat) : SConnection :=
  { gc with sequence := gc.sequence + 1, last_packet_send_time := now }

theorem from_secs_eq (n : Nat) : RustSem.Duration.from_secs n = fromSecs n := rfl

theorem gTimedOut_iff (c : Netcode.Connection) (now : Nat) : GTimedOut (reprNConn c) now ↔ NS.TimedOut c now := Iff.rfl

/-- **C18 `no_spurious_timeout`** (intrinsic arithmetic): a session whose receive timer was refreshed at `t` is not timed
    out at any `now ≤ t + timeout` (or when the token's timeout is not positive) -/
theorem no_spurious_timeout {gc : SConnection} {now : Nat}
    (h : gc.timeout_seconds ≤ 0 ∨ now ≤ gc.last_packet_received_time + RustSem.Duration.from_secs gc.timeout_seconds.toNat) :
    ¬ GTimedOut gc now := by
  rintro ⟨h1, h2⟩
  rcases h with h | h <;> omega

/-- **The generated `update_client`, completely** (image of the model's `UCOut`; basis of C18 `server_timeout`,
    `server_timeout_only`, `server_keeps` and of the keep-alive half of C17).  State: `GInv g`; slot `i` holds `gc` with
    `gc.client_id = id`.  Exactly one of:
      * `gc` is timed out: `ClientDisconnected id gc.addr o`, slot `i` freed, nothing else changes; if the generated
        `Packet::encode` of `Disconnect` under `(gc.sequence, gc.send_key)` yields `od` then `o = Some(od)`;
      * `gc` is not timed out: `None` with nothing changed, or — send timer due — `PacketToSend gc.addr o` where `o` is the
        generated encoding of `KeepAlive { i as u32, max_clients as u32 }` under `(gc.sequence, gc.send_key)`, and slot `i`
        then holds `gc` with `sequence + 1`, send timer := now;
      * `.panic` — only when the clock is within 2^31 s of `Duration::MAX` or `gc.sequence = u64::MAX`. -/
theorem update_client_spec {ε : Type} (a : AEAD) (hl : a.Laws) {g : SNetcodeServer} (hg : GInv g) {id i : Nat}
    {gc : SConnection} (hi : g.clients[i]? = some (some gc)) (hid : gc.client_id = id) :
    (GTimedOut gc g.current_time ∧ ∃ g' o, @NetcodeServer.update_client (aeadOf a) ε g id
        = .ok (g', .ClientDisconnected id gc.addr o) ∧ g' = { g with out := g'.out, clients := g.clients.set i none } ∧
        ∀ od, GEncodes a g .Disconnect gc.sequence gc.send_key od → o = some od) ∨
    (¬ GTimedOut gc g.current_time ∧
      ((∃ g', @NetcodeServer.update_client (aeadOf a) ε g id = .ok (g', .None) ∧ g' = { g with out := g'.out }) ∨
       ∃ g' o, gc.last_packet_send_time + Src.renetcode.NETCODE_SEND_RATE ≤ g.current_time ∧
         GEncodes a g (.KeepAlive (i % 2 ^ 32) (g.max_clients % 2 ^ 32)) gc.sequence gc.send_key o ∧
         @NetcodeServer.update_client (aeadOf a) ε g id = .ok (g', .PacketToSend gc.addr o) ∧
         g' = { g with out := g'.out, clients := g.clients.set i (some (gSent gc g.current_time)) })) ∨
    ((∃ m, @NetcodeServer.update_client (aeadOf a) ε g id = .panic m) ∧
      ¬ (g.current_time + RustSem.Duration.from_secs (2 ^ 31) ≤ RustSem.Duration.MAX ∧ gc.sequence < U64_MAX)) := by
  obtain ⟨s, hr, hinv⟩ := hg
  obtain ⟨c, hc, rfl⟩ := slot_of_repr hr hi
  have hid' : c.clientId = id := hid
  have hf : findClientSlotById s.clients id = some i := hinv.slots.findSlot_iff.mpr ⟨c, hc, hid'⟩
  have hspec := NS.updateClient_spec a hinv hf hc
  have hct := hr.current_time
  rcases update_client_tie (ε := ε) a hl hr (inv_timeouts hinv) id with ⟨r, s', g', hm, hr', hg'⟩ | ⟨⟨m, hp⟩, m', hp'⟩
  · rw [hm] at hspec
    rcases hspec with ⟨hto, o, e⟩ | ⟨hnt, e | ⟨out, hdue, henc, e⟩⟩ | ⟨⟨m, e⟩, _⟩
    · simp only [Res.ok.injEq, Prod.mk.injEq] at e
      obtain ⟨rfl, rfl⟩ := e
      refine .inl ⟨by rw [hct]; exact hto, g', o.map toNats, hg', repr_set_client hr hr', ?_⟩
      intro od hod
      obtain ⟨out, hme, rfl⟩ := gencodes_pull a hl hr (p := .disconnect) (key := c.sendKey) hod
      have := (NS.server_timeout_packet a hinv hc hid' hm).2.2.2 out hme
      rw [this]; rfl
    · simp only [Res.ok.injEq, Prod.mk.injEq] at e
      obtain ⟨rfl, rfl⟩ := e
      exact .inr (.inl ⟨by rw [hct]; exact hnt, .inl ⟨g', hg', same_of_repr hr hr'⟩⟩)
    · simp only [Res.ok.injEq, Prod.mk.injEq] at e
      obtain ⟨rfl, rfl⟩ := e
      refine .inr (.inl ⟨by rw [hct]; exact hnt, .inr ⟨g', toNats out, by rw [hct]; exact hdue, ?_, hg', ?_⟩⟩)
      · rw [hr.max_clients]; exact gencodes_push a hl hr henc
      · have h3 := repr_set_client hr hr'
        rw [← hct] at h3
        exact h3
    · cases e
  · rw [hp] at hspec
    rcases hspec with ⟨_, o, e⟩ | ⟨_, e | ⟨out, _, _, e⟩⟩ | ⟨_, hno⟩
    · cases e
    · cases e
    · cases e
    · exact .inr (.inr ⟨⟨m', hp'⟩, by rw [hct]; exact hno⟩)

/-- **C18 `server_timeout`, on the generated `update_client`.**  State: `GInv g`; slot `i` holds `gc`, `gc.client_id = id`;
    the clock is not within 2^31 s of `Duration::MAX`.  A session from which nothing authentic arrived for more than its
    timeout (`GTimedOut`, intrinsic) is disconnected by the next generated `update_client`: `ClientDisconnected id addr`,
    the slot is freed, nothing else changes. -/
theorem server_timeout {ε : Type} (a : AEAD) (hl : a.Laws) {g : SNetcodeServer} (hg : GInv g) {id i : Nat}
    {gc : SConnection} (hi : g.clients[i]? = some (some gc)) (hid : gc.client_id = id)
    (hclock : g.current_time + RustSem.Duration.from_secs (2 ^ 31) ≤ RustSem.Duration.MAX)
    (hto : GTimedOut gc g.current_time) :
    ∃ g' o, @NetcodeServer.update_client (aeadOf a) ε g id = .ok (g', .ClientDisconnected id gc.addr o) ∧
      g' = { g with out := g'.out, clients := g.clients.set i none } := by
  obtain ⟨s, hr, hinv⟩ := hg
  obtain ⟨c, hc, rfl⟩ := slot_of_repr hr hi
  have hct := hr.current_time
  obtain ⟨o, hm⟩ := NS.server_timeout a hinv hc hid (by rw [← hct]; exact hclock) (by rw [← hct]; exact hto)
  rcases update_client_tie (ε := ε) a hl hr (inv_timeouts hinv) id with ⟨r, s', g', hm2, hr', hg'⟩ | ⟨⟨m, hp⟩, _⟩
  · rw [hm] at hm2; cases hm2
    exact ⟨g', o.map toNats, hg', repr_set_client hr hr'⟩
  · rw [hm] at hp; cases hp

/-- **C18 `server_timeout_only`**: the generated `update_client` reports `ClientDisconnected` only for a timed-out session,
    with that session's address, and frees exactly its slot -/
theorem server_timeout_only {ε : Type} (a : AEAD) (hl : a.Laws) {g : SNetcodeServer} (hg : GInv g) {id i : Nat}
    {gc : SConnection} (hi : g.clients[i]? = some (some gc)) (hid : gc.client_id = id) {g' : SNetcodeServer}
    {gad : RustSem.SocketAddr} {o : Option (List Nat)}
    (h : @NetcodeServer.update_client (aeadOf a) ε g id = .ok (g', .ClientDisconnected id gad o)) :
    gad = gc.addr ∧ GTimedOut gc g.current_time ∧ g' = { g with out := g'.out, clients := g.clients.set i none } := by
  rcases update_client_spec (ε := ε) a hl hg hi hid with ⟨hto, g2, o2, e, hg2, _⟩ | ⟨_, ⟨g2, e, _⟩ | ⟨g2, o2, _, _, e, _⟩⟩ |
      ⟨⟨m, e⟩, _⟩
  · rw [e] at h
    simp only [Res.ok.injEq, Prod.mk.injEq, ServerResult.ClientDisconnected.injEq] at h
    obtain ⟨rfl, _, rfl, _⟩ := h
    exact ⟨rfl, hto, hg2⟩
  · rw [e] at h; simp at h
  · rw [e] at h; simp at h
  · rw [e] at h; cases h

/-- **C18 `server_keeps`** (with `no_spurious_timeout`: C18 `never_timed_out`, one round): a connected session that is
    not timed out is kept by the generated `update_client` — the sessions of all slots are as before; the result is
    `None` or a keep-alive `PacketToSend` to the session's address. -/
theorem server_keeps {ε : Type} (a : AEAD) (hl : a.Laws) {g : SNetcodeServer} (hg : GInv g) {id i : Nat}
    {gc : SConnection} (hi : g.clients[i]? = some (some gc)) (hid : gc.client_id = id)
    (hnt : ¬ GTimedOut gc g.current_time) {g' : SNetcodeServer} {gr : SServerResult}
    (h : @NetcodeServer.update_client (aeadOf a) ε g id = .ok (g', gr)) :
    g'.clients.map (Option.map gIdent) = g.clients.map (Option.map gIdent) ∧
      (gr = .None ∨ ∃ o, gr = .PacketToSend gc.addr o) := by
  obtain ⟨s, hr, hinv⟩ := hg
  obtain ⟨c, hc, rfl⟩ := slot_of_repr hr hi
  have hct := hr.current_time
  rcases update_client_tie (ε := ε) a hl hr (inv_timeouts hinv) id with ⟨r, s', g2, hm, hr', hg'⟩ | ⟨_, m, hp⟩
  · rw [hg'] at h
    simp only [Res.ok.injEq, Prod.mk.injEq] at h
    obtain ⟨rfl, rfl⟩ := h
    obtain ⟨hses, hres⟩ := NS.server_no_timeout a hinv hc hid (by rw [← hct]; exact hnt) hm
    refine ⟨by rw [hr'.clients, hr.clients, gSessions_repr, gSessions_repr, hses], ?_⟩
    rcases hres with rfl | ⟨out, rfl⟩
    · exact .inl rfl
    · exact .inr ⟨toNats out, rfl⟩
  · rw [hp] at h; cases h

/-- **C17 (server), `generate_payload_packet`: the nonce discipline of one call.**  State: `GInv g`.  When the generated
    `generate_payload_packet(id, p)` returns `Ok((addr, o))` then `id` is connected in some slot `i` holding `gc`;
    `addr = gc.addr`; `o` is the generated encoding of `Payload(p)` under `(gc.sequence, gc.send_key)` — the sequence number is
    the nonce —; and afterwards slot `i` holds `gc` with `sequence + 1` (send timer := now; key unchanged), nothing
    else changes.  So consecutive datagrams sealed for a session carry `n, n+1, n+2, …` under one key. -/
theorem generate_payload_spec (a : AEAD) (hl : a.Laws) {g : SNetcodeServer} (hg : GInv g) (id : Nat) {gp : List Nat}
    (hb : BytesOk gp) {g' : SNetcodeServer} {gad : RustSem.SocketAddr} {o : List Nat}
    (h : @NetcodeServer.generate_payload_packet (aeadOf a) g id gp = .ok (g', (gad, o))) :
    ∃ i gc, g.clients[i]? = some (some gc) ∧ gc.client_id = id ∧ gad = gc.addr ∧
      GEncodes a g (.Payload gp) gc.sequence gc.send_key o ∧
      g' = { g with out := g'.out, clients := g.clients.set i (some (gSent gc g.current_time)) } := by
  obtain ⟨s, hr, hinv⟩ := hg
  obtain ⟨payload, rfl⟩ := (bytesOk_iff gp).1 hb
  have hct := hr.current_time
  rcases generate_payload_tie a hl hr id payload with ⟨addr, out, s', g2, hm, hr', hg'⟩ | ⟨e, g2, hm, hr', hg'⟩ | ⟨_, m, hp⟩
  · rw [hg'] at h
    simp only [Res.ok.injEq, Prod.mk.injEq] at h
    obtain ⟨rfl, rfl, rfl⟩ := h
    obtain ⟨i, c, _, hc, hid, had, henc, rfl⟩ := NS.generatePayload_ok hm
    refine ⟨i, reprNConn c, slot_to_repr hr hc, hid, by rw [had]; rfl, gencodes_push a hl hr henc, ?_⟩
    have h3 := repr_set_client hr hr'
    rw [← hct] at h3
    exact h3
  · rw [hg'] at h; cases h
  · rw [hp] at h; cases h

/-! ### C17, run level: the datagrams sealed for one session carry consecutive sequence numbers under one key -/

/-- `o` is what the generated `Packet::encode` makes of `pkt` into SOME `NETCODE_MAX_PACKET_BYTES`-byte buffer under protocol
    id `pid`, sequence number `sq`, key `key` (`GEncodes` without reference to a server state) -/
def PEncodes (a : AEAD) (pid : Nat) (pkt : SNcPacket) (sq : Nat) (key o : List Nat) : Prop :=
  ∃ buffer st : List Nat, buffer.length = C.NETCODE_MAX_PACKET_BYTES ∧
    @Src.renetcode.packet.Packet.encode (aeadOf a) pkt buffer pid (some (sq, key)) = .ok (st, o.length) ∧ st.take o.length = o

/-- the datagrams `outs` are the payload packets for `ps`, sealed under `key` with the sequence numbers `n, n+1, n+2, …` -/
def SealedSeq (a : AEAD) (pid : Nat) (key : List Nat) : Nat → List (List Nat) → List (List Nat) → Prop
  | _, [], [] => True
  | n, p :: ps, o :: outs => PEncodes a pid (.Payload p) n key o ∧ SealedSeq a pid key (n + 1) ps outs
  | _, _, _ => False

/-- call the generated `generate_payload_packet` for client `id` once per payload and collect the datagrams (`none` as
    soon as a call returns `Err` or panics) -/
def sendRun (a : AEAD) (id : Nat) : SNetcodeServer → List (List Nat) → Option (SNetcodeServer × List (List Nat))
  | g, [] => some (g, [])
  | g, p :: ps =>
    match @NetcodeServer.generate_payload_packet (aeadOf a) g id p with
    | .ok (g', (_, o)) => (sendRun a id g' ps).map fun r => (r.1, o :: r.2)
    | _ => none

/-- **C17 `server_session_nonces_strict`, on runs of the generated `generate_payload_packet`.**  State: `GInv g`; slot `i`
    holds `gc` with `gc.client_id = id` (send key `k`, counter `n`).  However many payloads are sent to the session, the
    datagrams are — in order — the generated encodings of the payloads under the ONE key `k` with the sequence numbers
    `n, n+1, n+2, …` (no nonce is used twice), and the session's counter ends at `n + #payloads` with the same key. -/
theorem session_nonces_consecutive (a : AEAD) (hl : a.Laws) (id i : Nat) :
    ∀ (ps : List (List Nat)) (g : SNetcodeServer) (gc : SConnection) {g' : SNetcodeServer} {outs : List (List Nat)},
      GInv g → g.clients[i]? = some (some gc) → gc.client_id = id → (∀ p ∈ ps, BytesOk p) →
      sendRun a id g ps = some (g', outs) →
      SealedSeq a g.protocol_id gc.send_key gc.sequence ps outs ∧ GInv g' ∧
        ∃ gc', g'.clients[i]? = some (some gc') ∧ gc'.sequence = gc.sequence + ps.length ∧
          gc'.send_key = gc.send_key ∧ gc'.client_id = id := by
  intro ps
  induction ps with
  | nil =>
    intro g gc g' outs hg hi hid _ h
    simp only [sendRun, Option.some.injEq, Prod.mk.injEq] at h
    obtain ⟨rfl, rfl⟩ := h
    exact ⟨trivial, hg, gc, hi, rfl, rfl, hid⟩
  | cons p ps ih =>
    intro g gc g' outs hg hi hid hbs h
    have hbp : BytesOk p := hbs p (by simp)
    have hbps : ∀ q ∈ ps, BytesOk q := fun q hq => hbs q (by simp [hq])
    simp only [sendRun] at h
    cases hgen : @NetcodeServer.generate_payload_packet (aeadOf a) g id p with
    | ok v =>
      obtain ⟨g1, ad, o⟩ := v
      rw [hgen] at h
      simp only [Option.map_eq_some_iff] at h
      obtain ⟨⟨g2, outs'⟩, hrun, hpair⟩ := h
      simp only [Prod.mk.injEq] at hpair
      obtain ⟨rfl, rfl⟩ := hpair
      obtain ⟨i', gc', hi', hid', _, henc, hg1⟩ := generate_payload_spec a hl hg id hbp hgen
      have hii : i' = i := (table_distinct hg).1 i' i gc' gc hi' hi (by rw [hid', hid])
      subst hii
      rw [hi] at hi'
      simp only [Option.some.injEq] at hi'
      subst hi'
      have hg1inv : GInv g1 := ((generate_payload_inv a hl hg id hbp).1 g1 _ hgen).1
      have hlt : i' < g.clients.length := by
        rcases Nat.lt_or_ge i' g.clients.length with h | h
        · exact h
        · rw [List.getElem?_eq_none h] at hi; cases hi
      have hi1 : g1.clients[i']? = some (some (gSent gc g.current_time)) := by
        rw [hg1]; simp [hlt]
      have hpid : g1.protocol_id = g.protocol_id := by rw [hg1]
      obtain ⟨hseq, hginv, gcf, hf1, hf2, hf3, hf4⟩ := ih g1 (gSent gc g.current_time) hg1inv hi1 hid hbps hrun
      rw [hpid] at hseq
      refine ⟨⟨?_, hseq⟩, hginv, gcf, hf1, ?_, hf3, hf4⟩
      · obtain ⟨st, h1, h2⟩ := henc
        obtain ⟨s, hr, _⟩ := hg
        exact ⟨g.out, st, hr.1, h1, h2⟩
      · rw [hf2]; simp only [gSent, List.length_cons]; omega
    | err e => rw [hgen] at h; cases h
    | panic m => rw [hgen] at h; cases h

/-! ## concrete instances: the hypotheses are satisfiable (example states of Props/C19, C05/C10/C18 (`NcExamples`), C07, C04
    through the representation map, zeroed scratch buffer); evaluations run on the generated text -/
set_option maxRecDepth 100000
section examples
open NS.Ex

/-! ### C19 / C07: the fresh 2-slot server of Props/C19 and a client's 1078-byte connection request (toy AEAD) -/
def gC19 : SNetcodeServer := reprNS out0 C19.srv0
theorem gC19_repr : SrvRepr gC19 C19.srv0 := srvRepr_mk out0_len _
theorem req_len : C19.req.length = 1078 := by decide +kernel

example : ∃ g' buf' gr, @NetcodeServer.process_packet (aeadOf AEAD.toy) Empty gC19 (reprAddr C19.cliAddr) (toNats C19.req)
      = .ok (g', buf', gr) ∧ WfS g' ∧ SeqRoom 2 g' ∧
      (gr = .None ∨ (∃ o, gr = .PacketToSend (reprAddr C19.cliAddr) o ∧ ReplyBound o (toNats C19.req)) ∨
        ∃ id ud o, gr = .ClientConnected id (reprAddr C19.cliAddr) ud o ∧ ReplyBound o (toNats C19.req)) :=
  no_amplification AEAD.toy AEAD.toy_laws ⟨_, gC19_repr⟩ ((seqRoom_iff gC19_repr).2 C19.srv0_inv) (by decide)
    (addrOk_reprAddr _) (bytesOk_toNats _) (by rw [toNats_length, req_len]; decide)
    ((find_by_addr_none gC19_repr).2 C19.srv0_find)

/-- evaluated on the generated text: the valid request is answered with a 333-byte challenge to the sender -/
example : (match @NetcodeServer.process_packet (aeadOf AEAD.toy) Empty gC19 (reprAddr C19.cliAddr) (toNats C19.req) with
    | .ok (_, _, .PacketToSend to o) => some (to, o.length)
    | _ => none) = some (reprAddr C19.cliAddr, 333) := by decide +kernel

/-- 1078 zero bytes (invalid version) from the same address: total, and no answer -/
example : NoPanic (@NetcodeServer.process_packet (aeadOf AEAD.toy) Empty gC19 (reprAddr C19.cliAddr)
    (toNats (List.replicate 1078 0))) :=
  process_packet_no_panic AEAD.toy AEAD.toy_laws ⟨_, gC19_repr⟩ ((seqRoom_iff gC19_repr).2 C19.srv0_inv) (by decide)
    (addrOk_reprAddr _) (bytesOk_toNats _) (by rw [toNats_length]; decide)

/-! ### C05 / C10: the world of `Lemmas/NcExamples.lean` (AEAD `Ex.a`): `s1` = after A's request, `s2` = A connected -/
def g1 : SNetcodeServer := reprNS out0 s1
def g2 : SNetcodeServer := reprNS out0 s2
theorem g1_repr : SrvRepr g1 s1 := srvRepr_mk out0_len _
theorem g2_repr : SrvRepr g2 s2 := srvRepr_mk out0_len _
theorem g1_inv : GInv g1 := ⟨s1, g1_repr, C05.inv_s1⟩
theorem g2_inv : GInv g2 := ⟨s2, g2_repr, inv_s2⟩

/-- A's response at `g1`: the generated `process_packet` reports `ClientConnected 11 addrA udA` with the keep-alive `kaA` -/
theorem g1_response : ∃ g' buf', @NetcodeServer.process_packet (aeadOf a) Empty g1 (reprAddr addrA) (toNats respA)
    = .ok (g', buf', .ClientConnected 11 (reprAddr addrA) (toNats udA) (toNats kaA)) := by
  obtain ⟨g', buf', _, h⟩ := process_packet_push (ε := Empty) a exA_laws g1_repr (by decide) (buf := respA)
    (by decide +kernel) (pp_of_step s_response)
  exact ⟨g', buf', h⟩

/-- … and `connected_only_if` applies to it: pending entry for A with id 11, the datagram decodes (generated `decode`) as a
    `Response` whose challenge token the generated `ChallengeToken::decode` opens to exactly `(11, udA)` -/
example : ∃ gp, RustSem.AMap.find? g1.pending_clients (reprAddr addrA) = some gp ∧ gp.client_id = 11 ∧
    gp.user_data = toNats udA ∧
    ∃ dbuf w' sq ts gtd, decodeWith a (toNats respA) g1.protocol_id gp = .ok (dbuf, some w', (sq, .Response ts gtd)) ∧
      @Src.renetcode.packet.ChallengeToken.decode (aeadOf a) gtd ts g1.challenge_key = .ok ⟨11, toNats udA⟩ := by
  obtain ⟨g', buf', h⟩ := g1_response
  obtain ⟨_, gp, h1, h2, h3, _, _, _, dbuf, w', sq, ts, gtd, h4, h5, _⟩ :=
    connected_only_if (ε := Empty) a exA_laws g1_inv (addrOk_reprAddr _) (bytesOk_toNats _)
      (by rw [toNats_length]; decide +kernel) h
  exact ⟨gp, h1, h2, h3, dbuf, w', sq, ts, gtd, h4, h5⟩

/-- expired token: the server's clock is at the expiry second (30 s); A's request is refused (C05 `expired`) -/
def gLate : SNetcodeServer := reprNS out0 sLate
theorem reqA_len : reqA.length + 16 < 2 ^ 64 := by decide +kernel
example : ∀ g' buf' gr, @NetcodeServer.process_packet (aeadOf a) Empty gLate (reprAddr addrA) (toNats reqA)
    = .ok (g', buf', gr) → gr = .None ∧ g'.clients.map (Option.map gIdent) = gLate.clients.map (Option.map gIdent) := by
  intro g' buf' gr h
  obtain ⟨dbuf, drp, hd⟩ := decode_push_ok' a exA_laws reqA reqA_len 42 none none (reqA_decodes 42)
  have := rejected_request (ε := Empty) a exA_laws ⟨sLate, srvRepr_mk out0_len _, sLate_empty.inv⟩ (addrOk_reprAddr _)
    (bytesOk_toNats _) (by rw [toNats_length]; exact reqA_len) hd (.inr (.inr (.inl (by decide)))) h
  exact ⟨this.1, this.2.2.1⟩
example : (match @NetcodeServer.process_packet (aeadOf a) Empty gLate (reprAddr addrA) (toNats reqA) with
    | .ok (_, _, r) => some r | _ => none) = some .None := by decide +kernel
/-- tampered token (last tag byte changed): the generated `PrivateConnectToken::decode` returns `Err` -/
example : GRejected a (reprNS out0 s0) (toNats C.NETCODE_VERSION_INFO) 42 30 (toNats xnA) (toNats privDataT) :=
  .inr (.inr (.inr (.inl ⟨.CryptoError, by decide +kernel⟩)))

/-- C10: the table invariant at `g2` (A connected) and after any datagram -/
example : TableOK g2 := table_distinct g2_inv
example : ∀ g' buf' gr, @NetcodeServer.process_packet (aeadOf a) Empty g2 (reprAddr addrB) (toNats reqB)
    = .ok (g', buf', gr) → GInv g' ∧ TableOK g' :=
  fun g' buf' gr h => process_packet_inv (ε := Empty) a exA_laws g2_inv (addrOk_reprAddr _) (bytesOk_toNats _)
    (by rw [toNats_length]; decide +kernel) h
example : ∀ g' gr, @NetcodeServer.update_client (aeadOf a) Empty g2 11 = .ok (g', gr) → GInv g' ∧ TableOK g' :=
  fun _ _ h => update_client_inv (ε := Empty) a exA_laws g2_inv 11 h
example : ∀ g', (Src.renetcode.server.NetcodeServer.update g2 1000 : Res Empty _) = .ok (g', ()) → GInv g' ∧ TableOK g' :=
  fun _ h => update_inv (ε := Empty) g2_inv 1000 h

/-- C10 `full_refuses`: the one-slot server `f3` (A connected, B half-open): B's response changes no slot and is answered
    with `ConnectionDenied` -/
def gF3 : SNetcodeServer := reprNS out0 f3
theorem gF3_inv : GInv gF3 := by
  obtain ⟨log, hl⟩ := C10.reachNL_f3.reach
  exact ⟨f3, srvRepr_mk out0_len _, hl.inv⟩
example : ∀ g' buf' gr, @NetcodeServer.process_packet (aeadOf a) Empty gF3 (reprAddr addrB) (toNats respB)
    = .ok (g', buf', gr) → g'.clients = gF3.clients ∧ (gr = .None ∨ ∃ o, gr = .PacketToSend (reprAddr addrB) o ∧ GIsDenied a gF3 o) :=
  fun g' buf' gr h => full_refuses (ε := Empty) a exA_laws gF3_inv
    (by intro i; rcases i with _ | i <;> simp [gF3, reprNS, f3])
    (addrOk_reprAddr _) (bytesOk_toNats _) (by rw [toNats_length]; decide +kernel)
    ((find_by_addr_none (srvRepr_mk out0_len _)).2 (by decide +kernel)) h
example : (match @NetcodeServer.process_packet (aeadOf a) Empty gF3 (reprAddr addrB) (toNats respB) with
    | .ok (g', _, r) => some (r, g'.clients == gF3.clients) | _ => none)
    = some (.PacketToSend (reprAddr addrB) (toNats deniedB), true) := by decide +kernel

/-! ### C07 / C04: the server of Props/C07 (client 77 connected in slot 1, a pending handshake), toy AEAD -/
def gC07 : SNetcodeServer := reprNS out0 C07.srv
theorem gC07_repr : SrvRepr gC07 C07.srv := srvRepr_mk out0_len _
/-- a payload-shaped forgery to the connected client's address: the generated `decode` says `CryptoError`; nothing changes -/
example : ∃ g' buf', @NetcodeServer.process_packet (aeadOf AEAD.toy) Empty gC07 (reprAddr C07.cliAddr) (toNats C07.forged)
    = .ok (g', buf', .None) ∧ g' = { gC07 with out := g'.out } := by
  obtain ⟨g', buf', h, hcase⟩ := decode_error_noop_connected (ε := Empty) AEAD.toy AEAD.toy_laws ⟨_, gC07_repr⟩ (by decide)
    (addrOk_reprAddr C07.cliAddr) (bytesOk_toNats C07.forged) (by rw [toNats_length]; decide) (i := 1)
    (gc := reprNConn C07.conn) (by decide +kernel) (by decide +kernel) (ge := .CryptoError)
    (st := (toNats C07.forged, some (reprRP RP.new))) (by decide +kernel)
  rcases hcase with ⟨_, h2⟩ | ⟨h2, _⟩
  · exact ⟨g', buf', h, h2⟩
  · cases h2
/-- … and from an unknown address -/
example : ∃ g' buf', @NetcodeServer.process_packet (aeadOf AEAD.toy) Empty gC07 (reprAddr C07.otherAddr) (toNats C07.forged)
    = .ok (g', buf', .None) ∧ g' = { gC07 with out := g'.out } :=
  no_answer_undecodable_unknown (ε := Empty) AEAD.toy AEAD.toy_laws ⟨_, gC07_repr⟩ (by decide)
    (addrOk_reprAddr C07.otherAddr) (bytesOk_toNats C07.forged) (by rw [toNats_length]; decide) (by decide +kernel)
    (by decide +kernel) (ge := .UnavailablePrivateKey) (st := (toNats C07.forged, none)) (by decide +kernel)

/-- C04 on the server of Props/C04 (client 77 in slot 1): the genuine payload `[1,2,3]`, sequence 0 -/
def gC04 : SNetcodeServer := reprNS out0 C04.srv
theorem gC04_repr : SrvRepr gC04 C04.srv := srvRepr_mk out0_len _
theorem gC04_room : SeqRoom 1 gC04 := (seqRoom_iff gC04_repr).2 C04.srv_inv
example : GEncodes AEAD.toy gC04 (.Payload [1, 2, 3]) 0 (reprNConn C04.conn).receive_key (toNats C04.d0) :=
  ⟨toNats C04.d0 ++ List.replicate (1400 - 21) 0, by decide +kernel, by decide +kernel⟩
example : ∃ g' buf' w', (Src.renetcode.replay_protection.ReplayProtection.advance_sequence (reprRP RP.new) 0 : Res Empty _)
      = .ok (w', ()) ∧
    @NetcodeServer.process_packet (aeadOf AEAD.toy) Empty gC04 (reprAddr C04.cliAddr) (toNats C04.d0)
      = .ok (g', buf', .Payload 77 [1, 2, 3]) ∧
    g' = { gC04 with out := g'.out, clients := gC04.clients.set 1 (some (gReceived (reprNConn C04.conn) w' gC04.current_time)) } :=
  genuine_accepted (ε := Empty) AEAD.toy AEAD.toy_laws ⟨_, gC04_repr⟩ (by decide) (addrOk_reprAddr C04.cliAddr) (i := 1)
    (gc := reprNConn C04.conn) (by decide +kernel) (by decide +kernel) rfl (gp := [1, 2, 3]) (by decide) (sq := 0) (by decide)
    ⟨toNats C04.d0 ++ List.replicate (1400 - 21) 0, by decide +kernel, by decide +kernel⟩ (by decide +kernel)
/-- on the state after it the same datagram (sequence 0 now in the window) cannot surface a payload again -/
def gC04' : SNetcodeServer := reprNS out0 C04.srv'
example (g' : SNetcodeServer) (buf' : List Nat) (cid : Nat) (gp : List Nat) :
    @NetcodeServer.process_packet (aeadOf AEAD.toy) Empty gC04' (reprAddr C04.cliAddr) (toNats C04.d0)
      ≠ .ok (g', buf', .Payload cid gp) :=
  replay_rejected (ε := Empty) AEAD.toy AEAD.toy_laws ⟨C04.srv', srvRepr_mk out0_len _⟩
    ((seqRoom_iff (srvRepr_mk out0_len _)).2 ⟨by decide, by decide, fun x hx => by cases hx⟩) (by decide)
    (addrOk_reprAddr C04.cliAddr) (bytesOk_toNats C04.d0) (by rw [toNats_length]; decide +kernel) (i := 1)
    (gc := reprNConn (C04.conn.received (RP.new.advance 0) 1000)) (by decide +kernel) (by decide +kernel) (by decide +kernel)
    g' buf' cid gp

/-! ### C18 / C17: `s2late` (A's last packet 5 s + 1 ns ago, timeout 5 s), `s2at5` (exactly 5 s), `s2` -/
def gLate2 : SNetcodeServer := reprNS out0 s2late
def gAt5 : SNetcodeServer := reprNS out0 s2at5
theorem gLate2_inv : GInv gLate2 := ⟨s2late, srvRepr_mk out0_len _, C18.inv_s2late⟩
theorem gAt5_inv : GInv gAt5 := ⟨s2at5, srvRepr_mk out0_len _, C18.inv_s2at5⟩
/-- timed out: the generated `update_client(11)` frees slot 0 and reports `ClientDisconnected 11 addrA` -/
example : ∃ g' o, @NetcodeServer.update_client (aeadOf a) Empty gLate2 11
      = .ok (g', .ClientDisconnected 11 (reprAddr addrA) o) ∧
    g' = { gLate2 with out := g'.out, clients := gLate2.clients.set 0 none } :=
  server_timeout (ε := Empty) a exA_laws gLate2_inv (i := 0) (gc := reprNConn connA) (by decide +kernel) rfl (by decide)
    (by decide)
/-- exactly 5 s: not timed out (`no_spurious_timeout`), kept -/
example : ¬ GTimedOut (reprNConn connA) gAt5.current_time := no_spurious_timeout (.inr (by decide))
example : ∀ g' gr, @NetcodeServer.update_client (aeadOf a) Empty gAt5 11 = .ok (g', gr) →
    g'.clients.map (Option.map gIdent) = gAt5.clients.map (Option.map gIdent) ∧
      (gr = .None ∨ ∃ o, gr = .PacketToSend (reprNConn connA).addr o) :=
  fun _ _ h => server_keeps (ε := Empty) a exA_laws gAt5_inv (i := 0) (gc := reprNConn connA) (by decide +kernel) rfl
    (no_spurious_timeout (.inr (by decide))) h
/-- the complete case analysis at `gAt5` -/
example := update_client_spec (ε := Empty) a exA_laws gAt5_inv (id := 11) (i := 0) (gc := reprNConn connA)
  (by decide +kernel) rfl
/-- evaluated: at 5 s the keep-alive (sequence 1 = A's session counter) goes out and the counter becomes 2 -/
example : (match @NetcodeServer.update_client (aeadOf a) Empty gAt5 11 with
    | .ok (g', .PacketToSend _ o) => some (o.take 2, g'.clients.map (Option.map (·.sequence)))
    | _ => none) = some ([20, 1], [some 2, none]) := by decide +kernel

/-- C17: `generate_payload_packet(11, [9, 9])` at `g2`: sealed under A's counter 1, which then becomes 2 -/
example : ∃ g' o, @NetcodeServer.generate_payload_packet (aeadOf a) g2 11 (toNats [9, 9]) = .ok (g', (reprAddr addrA, o)) ∧
    ∃ i gc, g2.clients[i]? = some (some gc) ∧ gc.client_id = 11 ∧ GEncodes a g2 (.Payload (toNats [9, 9])) gc.sequence gc.send_key o ∧
      g' = { g2 with out := g'.out, clients := g2.clients.set i (some (gSent gc g2.current_time)) } := by
  rcases generate_payload_tie a exA_laws g2_repr 11 [9, 9] with ⟨addr, out, s', g', hm, _, hg⟩ | ⟨e, g', hm, _⟩ | ⟨⟨m, hp⟩, _⟩
  · rw [s_sendPayload] at hm
    simp only [Res.ok.injEq, Prod.mk.injEq] at hm
    obtain ⟨⟨rfl, rfl⟩, rfl⟩ := hm
    obtain ⟨i, gc, h1, h2, _, h4, h5⟩ := generate_payload_spec a exA_laws g2_inv 11 (bytesOk_toNats [9, 9]) hg
    exact ⟨g', _, hg, i, gc, h1, h2, h4, h5⟩
  · rw [s_sendPayload] at hm; cases hm
  · rw [s_sendPayload] at hp; cases hp
example : (match @NetcodeServer.generate_payload_packet (aeadOf a) g2 11 [9, 9] with
    | .ok (g', (_, o)) => some (o, g'.clients.map (Option.map (·.sequence)))
    | _ => none) = some (toNats payToA, [some 2, none]) := by decide +kernel

/-- C17, run level: three payloads to A's session at `g2` (counter 1): sealed under 1, 2, 3 -/
example : ∀ g' outs, sendRun a 11 g2 [[9, 9], [1], [2, 3]] = some (g', outs) →
    SealedSeq a g2.protocol_id (reprNConn connA).send_key 1 [[9, 9], [1], [2, 3]] outs :=
  fun _ _ h => (session_nonces_consecutive a exA_laws 11 0 _ g2 (reprNConn connA) g2_inv (by decide +kernel) rfl
    (by decide) h).1
example : (sendRun a 11 g2 [[9, 9], [1], [2, 3]]).map (fun r => (r.2.map (·.take 2), r.1.clients.map (Option.map (·.sequence))))
    = some ([[21, 1], [21, 2], [21, 3]], [some 4, none]) := by decide +kernel

end examples

end RenetVerif.SrcPropsNc.Server
