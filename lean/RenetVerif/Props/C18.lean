/-
  C18 — Netcode liveness, the safety / single-step half: silent peers time out (both sides), half-open sessions vanish
  when their token expires, a peer whose authentic packets keep arriving is not timed out, forged or replayed packets
  do not postpone a time-out; client failover to the next server address.
  (The handshake-progress half — request ⇒ challenge ⇒ response ⇒ ClientConnected + keep-alive ⇒ Connected under
  `AEAD.Laws` — is in Props/C18P.lean; it uses the wire round-trip lemmas of Lemmas/NcWire.lean / NcAead.lean.)

  Model: RenetVerif/Netcode/Server.lean, Client.lean (renetcode/src/{server,client}.rs; repaired: D12 — only authentic
  KeepAlive / Payload packets refresh a session's receive timer; D11 — `set_max_clients` grows the slot list).
  Proofs: Lemmas/NcTimeout.lean.  `ServerInv`: Props/C10.lean.  Durations are nanoseconds.
-/
import RenetVerif.Lemmas.NcExamples
namespace RenetVerif.C18
open RenetVerif RenetVerif.Netcode RenetVerif.Netcode.NS

/-! ## server side -/

/-- **`server_timeout`** — a connected peer from which no authentic packet arrived for more than the token's timeout
    (`timeout_seconds > 0` and `last_packet_received_time + timeout < now`) is disconnected by the next
    `update_client`: the slot is freed and `ClientDisconnected id addr` is reported.
    (`hclock`: the clock is not within 2^31 s of `Duration::MAX` — otherwise the deadline addition would unwind.) -/
theorem server_timeout (a : AEAD) {s : NetcodeServer} {id i : Nat} {c : Connection} (hi : ServerInv s)
    (hc : At s.clients i c) (hid : c.clientId = id) (hclock : s.currentTime + fromSecs (2 ^ 31) ≤ DURATION_MAX)
    (hto : c.timeoutSeconds > 0 ∧ c.lastPacketReceivedTime + fromSecs c.timeoutSeconds.toNat < s.currentTime) :
    ∃ o, s.updateClient a id = .ok (.clientDisconnected id c.addr o, { s with clients := s.clients.set i none }) :=
  NS.server_timeout a hi hc hid hclock hto

/-- conversely `update_client` reports `ClientDisconnected` only for a timed-out session, frees exactly its slot, and
    the accompanying datagram is that session's `Disconnect` packet whenever it encodes -/
theorem server_timeout_only (a : AEAD) {s s' : NetcodeServer} {id i : Nat} {c : Connection} {ad : Addr}
    {o : Option Bytes} (hi : ServerInv s) (hc : At s.clients i c) (hid : c.clientId = id)
    (h : s.updateClient a id = .ok (.clientDisconnected id ad o, s')) :
    ad = c.addr ∧ TimedOut c s.currentTime ∧ s' = { s with clients := s.clients.set i none } ∧
    (∀ out, Packet.disconnect.encode a Netcode.C.NETCODE_MAX_PACKET_BYTES s.protocolId (some (c.sequence, c.sendKey)) = .ok out →
      o = some out) := server_timeout_packet a hi hc hid h

/-- **a connected session that is not timed out is kept** (result: nothing, or a keep-alive to its address) -/
theorem server_keeps (a : AEAD) {s s' : NetcodeServer} {id i : Nat} {c : Connection} {r : ServerResult}
    (hi : ServerInv s) (hc : At s.clients i c) (hid : c.clientId = id) (hnt : ¬ TimedOut c s.currentTime)
    (h : s.updateClient a id = .ok (r, s')) :
    sessions s'.clients = sessions s.clients ∧ (r = .none ∨ ∃ out, r = .packetToSend c.addr out) :=
  server_no_timeout a hi hc hid hnt h

/-- **`no_spurious_timeout`** — if the receive timer was refreshed at time `t` and `now ≤ t + timeout` (or the token's
    timeout is not positive) the session is not timed out -/
theorem no_spurious_timeout {c : Connection} {now : Nat}
    (h : c.timeoutSeconds ≤ 0 ∨ now ≤ c.lastPacketReceivedTime + fromSecs c.timeoutSeconds.toNat) :
    ¬ TimedOut c now := NS.no_spurious_timeout h

/-- **`pending_expire`** — `update(d)` advances the clock by `d`, leaves the slots alone and keeps exactly the
    half-open sessions with `now.secs ≤ expire_timestamp`: a half-open session vanishes at the first update after its
    token's expiry second -/
theorem pending_expire {s s' : NetcodeServer} {d : Nat} (h : s.update d = .ok s') :
    s'.currentTime = s.currentTime + d ∧ s'.clients = s.clients ∧
    (∀ p, p ∈ s'.pendingClients ↔ p ∈ s.pendingClients ∧ asSecs (s.currentTime + d) ≤ p.2.expireTimestamp) ∧
    (∀ x p, pendingFind s.pendingClients x = some p → asSecs (s.currentTime + d) > p.expireTimestamp →
      (s.pendingClients.map (·.1)).Nodup → pendingFind s'.pendingClients x = none) := NS.pending_expire h

/-- **`refresh_only_authentic`** — `process_packet` moves the receive timer of a connected slot only when the datagram
    came from that session's address and decoded, under that session's receive key and replay window, to a KeepAlive
    or a Payload (`Authentic`); the timer then becomes the current time and the session's identity is unchanged.
    Everything else — forged (the AEAD does not open), replayed (sequence already in the window), type-0 junk
    (connection requests decode without key), Challenge / Response / Denied kinds, datagrams from other addresses —
    leaves it as it is. -/
theorem refresh_only_authentic {a : AEAD} {s s' : NetcodeServer} {addr : Addr} {buf : Bytes} {r : ServerResult}
    (hi : ServerInv s) (h : s.processPacket a addr buf = .ok (r, s')) {i : Nat} {c c' : Connection}
    (hc : At s.clients i c) (hc' : At s'.clients i c') :
    c'.lastPacketReceivedTime = c.lastPacketReceivedTime ∨
    (c.addr = addr ∧ Authentic a s c buf ∧ c'.lastPacketReceivedTime = s.currentTime ∧ ident c' = ident c) :=
  NS.refresh_only_authentic hi h hc hc'

/-- `Authentic` means: the AEAD opened the body under the session's receive key with nonce = the datagram's sequence
    number and AAD = version ‖ protocol id ‖ prefix byte, **and** the replay window had not seen that sequence number -/
theorem authentic_means {a : AEAD} {s : NetcodeServer} {c : Connection} {buf : Bytes} (h : Authentic a s c buf) :
    ∃ pfx rest sq body plain, buf = pfx :: rest ∧
      Packet.readSequence rest (pfx.toNat / 16) = some (sq, body) ∧
      a.open c.receiveKey (Packet.nonce sq) (Packet.additionalData pfx s.protocolId) body = some plain ∧
      c.replayProtection.alreadyReceived sq = false := authentic_opens h

/-- **forged or replayed packets do not postpone a time-out**: a datagram whose body the AEAD does not open under the
    session's key, or whose sequence number the window has already seen, is not `Authentic` -/
theorem forged_or_replayed_not_authentic {a : AEAD} {s : NetcodeServer} {c : Connection} {buf : Bytes}
    (h : ∀ pfx rest sq body, buf = pfx :: rest → Packet.readSequence rest (pfx.toNat / 16) = some (sq, body) →
      a.open c.receiveKey (Packet.nonce sq) (Packet.additionalData pfx s.protocolId) body = none ∨
      c.replayProtection.alreadyReceived sq = true) : ¬ Authentic a s c buf := by
  intro hau
  obtain ⟨pfx, rest, sq, body, plain, hb, hrs, hop, hw⟩ := authentic_opens hau
  rcases h pfx rest sq body hb hrs with h1 | h1
  · rw [h1] at hop; cases hop
  · rw [h1] at hw; cases hw

/-- an `Authentic` datagram from a connected address does refresh that session's timer (and changes no session) -/
theorem authentic_refreshes {a : AEAD} {s : NetcodeServer} {addr : Addr} {buf : Bytes} (hi : ServerInv s)
    (hg : s.globalSequence < U64_MAX) (hcs : s.challengeSequence < U64_MAX) {i : Nat} {c : Connection}
    (hc : At s.clients i c) (had : c.addr = addr) (hau : Authentic a s c buf) :
    ∃ r s' c', s.processPacket a addr buf = .ok (r, s') ∧ At s'.clients i c' ∧
      c'.lastPacketReceivedTime = s.currentTime ∧ ident c' = ident c ∧ sessions s'.clients = sessions s.clients :=
  NS.authentic_refreshes hi hg hcs hc had hau

/-- **`never_timed_out_partial`** — one round of "a peer from which authentic packets keep arriving within every
    timeout period is never timed out": after an authentic packet at time `t` (timer := t), an `update_client` at any
    `now ≤ t + timeout` keeps the session.  MISSING: the induction over a whole trace (arbitrary interleaving of other
    operations between the refresh and the `update_client`); each other operation preserves the timer
    (`refresh_only_authentic`, `Lemmas/NcTableEvents.step_table`: sessions are untouched), so the composition is
    routine but not written. -/
theorem never_timed_out_partial (a : AEAD) {s s' : NetcodeServer} {id i : Nat} {c : Connection} {r : ServerResult}
    (hi : ServerInv s) (hc : At s.clients i c) (hid : c.clientId = id)
    (hfresh : s.currentTime ≤ c.lastPacketReceivedTime + fromSecs c.timeoutSeconds.toNat)
    (h : s.updateClient a id = .ok (r, s')) :
    sessions s'.clients = sessions s.clients ∧ (r = .none ∨ ∃ out, r = .packetToSend c.addr out) :=
  server_no_timeout a hi hc hid (NS.no_spurious_timeout (Or.inr hfresh)) h

/-! ## client side -/

/-- **`client_timeout`** — a connected client that received nothing decodable for more than the token's timeout
    disconnects at the next `update` with reason `ConnectionTimedOut` and sends nothing.
    (`ClockOK`: none of the three `Duration` operations of `update(d)` overflows.) -/
theorem client_timeout (a : AEAD) {c : NetcodeClient} {d : Nat} (hst : c.state = .connected) (hok : ClockOK c d)
    (hto : CTimedOut c (c.currentTime + d)) :
    c.update a d = .ok (none, { c with currentTime := c.currentTime + d, state := .disconnected .connectionTimedOut }) :=
  NS.client_timeout a hst hok hto

/-- a connected client that is not timed out stays connected -/
theorem client_keeps {c : NetcodeClient} {d : Nat} (hst : c.state = .connected) (hok : ClockOK c d)
    (hto : ¬ CTimedOut c (c.currentTime + d)) :
    c.updateInternalState d = .ok (none, { c with currentTime := c.currentTime + d }) := client_no_timeout hst hok hto

/-- **`failover`** — a connecting client (request or response phase) whose current server stayed silent for the
    timeout, with token time left, moves to the next listed server address and starts over there: state
    `SendingConnectionRequest`, fresh connect-start / receive timers, send timer cleared (so the request goes out in
    the same `update`) -/
theorem failover {c : NetcodeClient} {d : Nat} {next : Addr} (hst : Connecting c) (hok : ClockOK c d)
    (hwin : asSecs (c.currentTime + d - c.connectStartTime) < tokenWindow c)
    (hto : CTimedOut c (c.currentTime + d))
    (hnext : c.connectToken.serverAddresses[c.serverAddrIndex + 1]? = some (some next))
    (hidx : c.serverAddrIndex + 1 < Netcode.C.NETCODE_TOKEN_MAX_ADDRESSES) :
    ∃ c', c.updateInternalState d = .ok (none, c') ∧ c'.state = .sendingConnectionRequest ∧ c'.serverAddr = next ∧
      c'.serverAddrIndex = c.serverAddrIndex + 1 ∧ c'.connectStartTime = c.currentTime + d ∧
      c'.lastPacketReceivedTime = c.currentTime + d ∧ c'.lastPacketSendTime = none ∧
      c'.currentTime = c.currentTime + d ∧ c'.connectToken = c.connectToken ∧ c'.sequence = c.sequence :=
  NS.failover hst hok hwin hto hnext hidx

/-- no further address: `Disconnected(ConnectionRequestTimedOut)` resp. `Disconnected(ConnectionResponseTimedOut)`
    (the call returns `NoMoreServers`) -/
theorem client_connect_timeout {c : NetcodeClient} {d : Nat} (hst : Connecting c) (hok : ClockOK c d)
    (hwin : asSecs (c.currentTime + d - c.connectStartTime) < tokenWindow c)
    (hto : CTimedOut c (c.currentTime + d))
    (hlast : Netcode.C.NETCODE_TOKEN_MAX_ADDRESSES ≤ c.serverAddrIndex + 1 ∨
      c.connectToken.serverAddresses[c.serverAddrIndex + 1]? = some none) :
    ∃ c', c.updateInternalState d = .ok (some .noMoreServers, c') ∧
      c'.state = .disconnected (if c.state = .sendingConnectionResponse then .connectionResponseTimedOut
                                else .connectionRequestTimedOut) := NS.client_connect_timeout hst hok hwin hto hlast

/-- the token's lifetime is over before the handshake completed: `Disconnected(ConnectTokenExpired)` -/
theorem client_token_expired {c : NetcodeClient} {d : Nat} (hst : Connecting c) (hok : ClockOK c d)
    (hwin : tokenWindow c ≤ asSecs (c.currentTime + d - c.connectStartTime)) :
    c.updateInternalState d =
      .ok (some .expired, { c with currentTime := c.currentTime + d, state := .disconnected .connectTokenExpired }) :=
  NS.client_token_expired hst hok hwin

/-- neither expired nor timed out: the connecting client keeps its state (and `update` goes on to resend) -/
theorem client_connecting_continues {c : NetcodeClient} {d : Nat} (hst : Connecting c) (hok : ClockOK c d)
    (hwin : asSecs (c.currentTime + d - c.connectStartTime) < tokenWindow c)
    (hto : ¬ CTimedOut c (c.currentTime + d)) :
    c.updateInternalState d = .ok (none, { c with currentTime := c.currentTime + d }) :=
  NS.client_connecting_continues hst hok hwin hto

/-- the client's receive timer moves only on a datagram that decoded under the server-to-client key and the client's
    replay window (so forged / replayed datagrams do not postpone the client's time-out either) -/
theorem client_refresh_only_decoded {a : AEAD} {c c' : NetcodeClient} {buf : Bytes} {r : Option Bytes}
    (h : c.processPacket a buf = .ok (r, c')) (hne : c'.lastPacketReceivedTime ≠ c.lastPacketReceivedTime) :
    ∃ sq pk w', Packet.decode a buf c.connectToken.protocolId (some c.connectToken.serverToClientKey)
        (some c.replayProtection) = (.ok (sq, pk), w') ∧ c'.lastPacketReceivedTime = c.currentTime :=
  NS.client_refresh_only_decoded h hne

/-! ## examples (toy AEAD `Ex.a`, world of Lemmas/NcExamples.lean; A's timeout is 5 s) -/
section Examples
open Ex

theorem inv_s2late : ServerInv s2late := step_inv inv_s2 s_wait5'
theorem inv_s2at5 : ServerInv s2at5 := step_inv inv_s2 s_wait5

/-- 5 s + 1 ns after A's last packet: timed out -/
example : ∃ o, s2late.updateClient a 11 =
    .ok (.clientDisconnected 11 addrA o, { s2late with clients := s2late.clients.set 0 none }) :=
  server_timeout a inv_s2late (c := connA) rfl rfl (by decide) (by decide)
/-- exactly 5 s after: kept -/
example : ∀ r s', s2at5.updateClient a 11 = .ok (r, s') → sessions s'.clients = sessions s2at5.clients :=
  fun r s' h => (never_timed_out_partial a inv_s2at5 (i := 0) (c := connA) rfl rfl (by decide) h).1

/-- the half-open session of `s1` (token expiry second 30) survives an update to 30.9 s, not one to 31 s -/
example : ∀ s', s1.update 30900000000 = .ok s' → (addrA, pendA) ∈ s'.pendingClients :=
  fun s' h => ((pending_expire h).2.2.1 (addrA, pendA)).mpr ⟨by simp [s1], by decide⟩
example : ∀ s', s1.update 31000000000 = .ok s' → pendingFind s'.pendingClients addrA = none :=
  fun s' h => (pending_expire h).2.2.2 addrA pendA (by decide +kernel) (by decide) (by decide +kernel)

/-- A's keep-alive (sequence 2) is authentic and refreshes the timer; the same datagram again is a replay -/
example : Authentic a s2 connA kaFromA := ⟨2, .keepAlive 0 0, RP.new.advance 2, by decide +kernel, Or.inl rfl⟩
example : (s2k.processPacket a addrA kaFromA).isPanic = false ∧
    ¬ Authentic a s2k (refreshed connA (RP.new.advance 2) 0) kaFromA := by
  refine ⟨by decide +kernel, ?_⟩
  rintro ⟨sq, pk, w', hd, _⟩
  have : (Packet.decode a kaFromA 42 (some kc2s) (some (RP.new.advance 2))).1 = .err .duplicatedSequence := by
    decide +kernel
  have hd' : (Packet.decode a kaFromA 42 (some kc2s) (some (RP.new.advance 2))).1 = .ok (sq, pk) := by
    have := congrArg Prod.fst hd; exact this
  rw [this] at hd'; cases hd'
/-- a datagram with a wrong tag is not authentic and leaves the timer alone -/
example : ∀ r s' c', s2late.processPacket a addrA forgedKa = .ok (r, s') → At s'.clients 0 c' →
    c'.lastPacketReceivedTime = connA.lastPacketReceivedTime := by
  intro r s' c' h hc'
  rcases refresh_only_authentic inv_s2late h (i := 0) (c := connA) rfl hc' with h1 | ⟨_, ⟨sq, pk, w', hd, _⟩, _⟩
  · exact h1
  · have : (Packet.decode a forgedKa 42 (some kc2s) (some RP.new)).1 = .err .cryptoError := by decide +kernel
    have hd' : (Packet.decode a forgedKa 42 (some kc2s) (some RP.new)).1 = .ok (sq, pk) := by
      have := congrArg Prod.fst hd; exact this
    rw [this] at hd'; cases hd'

/-- client A, connected, last packet at 0.25 s, silent server: times out 5 s + 1 ns later -/
example : cA4.update a 5000000001 =
    .ok (none, { cA4 with currentTime := 5250000001, state := .disconnected .connectionTimedOut }) :=
  client_timeout a rfl ⟨by decide, by decide, by decide⟩ (by decide)
/-- … and stays connected at exactly 5 s -/
example : cA4.updateInternalState 5000000000 = .ok (none, { cA4 with currentTime := 5250000000 }) :=
  client_keeps rfl ⟨by decide, by decide, by decide⟩ (by decide)

/-- a requesting client whose first server is silent for 5 s + 1 ns moves to the second listed address -/
example : ∃ c', cF.updateInternalState 5000000001 = .ok (none, c') ∧ c'.state = .sendingConnectionRequest ∧
    c'.serverAddr = srv2 ∧ c'.serverAddrIndex = 1 := by
  obtain ⟨c', h1, h2, h3, h4, _⟩ := failover (c := cF) (d := 5000000001) (next := srv2) (Or.inl rfl)
    ⟨by decide, by decide, by decide⟩ (by decide) (by decide) (by decide +kernel) (by decide)
  exact ⟨c', h1, h2, h3, h4⟩
/-- with a single listed address it gives up: `ConnectionRequestTimedOut` -/
example : ∃ c', cA0.updateInternalState 5000000001 = .ok (some .noMoreServers, c') ∧
    c'.state = .disconnected .connectionRequestTimedOut :=
  client_connect_timeout (c := cA0) (Or.inl rfl) ⟨by decide, by decide, by decide⟩ (by decide) (by decide)
    (Or.inr (by decide +kernel))
/-- after the token's 30 s: `ConnectTokenExpired` -/
example : cA0.updateInternalState 30000000000 =
    .ok (some .expired, { cA0 with currentTime := 30000000000, state := .disconnected .connectTokenExpired }) :=
  client_token_expired (Or.inl rfl) ⟨by decide, by decide, by decide⟩ (by decide)

/-- the converse direction and the keep-alive case on the same states -/
example : ∀ ad o s', s2late.updateClient a 11 = .ok (.clientDisconnected 11 ad o, s') →
    ad = addrA ∧ TimedOut connA s2late.currentTime :=
  fun ad o s' h => ⟨(server_timeout_only a inv_s2late (i := 0) (c := connA) rfl rfl h).1,
    (server_timeout_only a inv_s2late (i := 0) (c := connA) rfl rfl h).2.1⟩
example : ∀ r s', s2at5.updateClient a 11 = .ok (r, s') → r = .none ∨ ∃ out, r = .packetToSend addrA out :=
  fun r s' h => (server_keeps a inv_s2at5 (i := 0) (c := connA) rfl rfl (by decide) h).2
example : ¬ TimedOut connA 5000000000 := no_spurious_timeout (Or.inr (by decide))
example : ∃ pfx rest sq body plain, kaFromA = pfx :: rest ∧
    Packet.readSequence rest (pfx.toNat / 16) = some (sq, body) ∧
    a.open connA.receiveKey (Packet.nonce sq) (Packet.additionalData pfx s2.protocolId) body = some plain ∧
    connA.replayProtection.alreadyReceived sq = false :=
  authentic_means ⟨2, .keepAlive 0 0, RP.new.advance 2, by decide +kernel, Or.inl rfl⟩
/-- the forged keep-alive: the AEAD does not open it -/
example : ¬ Authentic a s2 connA forgedKa := forged_or_replayed_not_authentic (by
  intro pfx rest sq body hb hrs
  simp only [forgedKa, List.cons.injEq] at hb
  obtain ⟨rfl, rfl⟩ := hb
  have h1 : Packet.readSequence (3 :: (leBytes 0 4 ++ leBytes 0 4 ++ List.replicate 15 0 ++ [1])) ((20 : UInt8).toNat / 16)
      = some (3, leBytes 0 4 ++ leBytes 0 4 ++ List.replicate 15 0 ++ [1]) := by decide +kernel
  rw [h1] at hrs
  simp only [Option.some.injEq, Prod.mk.injEq] at hrs
  obtain ⟨rfl, rfl⟩ := hrs
  left
  decide +kernel)
example : ∃ r s' c', s2.processPacket a addrA kaFromA = .ok (r, s') ∧ At s'.clients 0 c' ∧
    c'.lastPacketReceivedTime = s2.currentTime ∧ ident c' = ident connA ∧ sessions s'.clients = sessions s2.clients :=
  authentic_refreshes inv_s2 (by decide) (by decide) (i := 0) (c := connA) rfl rfl
    ⟨2, .keepAlive 0 0, RP.new.advance 2, by decide +kernel, Or.inl rfl⟩
/-- a requesting client 1 s into its 30 s token, 5 s timeout: goes on -/
example : cA0.updateInternalState 1000000000 = .ok (none, { cA0 with currentTime := 1000000000 }) :=
  client_connecting_continues (Or.inl rfl) ⟨by decide, by decide, by decide⟩ (by decide) (by decide)
/-- the keep-alive moved client A's receive timer (`cA3` → `cA4`): it decoded under the server-to-client key -/
example : ∃ sq pk w', Packet.decode a kaA cA3.connectToken.protocolId (some cA3.connectToken.serverToClientKey)
    (some cA3.replayProtection) = (.ok (sq, pk), w') ∧ cA4.lastPacketReceivedTime = cA3.currentTime :=
  client_refresh_only_decoded cA_keepalive (by decide)

end Examples
end RenetVerif.C18
