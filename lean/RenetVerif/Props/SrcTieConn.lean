/-
  Source tie, group Conn: `renet/src/remote_connection.rs` `RenetClient::{from_channels, new, new_from_server,
  is_connected, is_connecting, is_disconnected, disconnect_reason, disconnect_with_reason, set_connected, set_connecting,
  disconnect, disconnect_due_to_transport, channel_available_memory, can_send_message, send_message, receive_message}`
  ↔ `Conn` of `Renet/Conn.lean`.

  The generated `RenetClient` (group ConnTypes) is the Rust struct WITHOUT its statistics fields `stats` and `rtt`
  (manifest "ignored fields": statements that only write them are dropped like `log::…!`, any other read of them is a
  translation error; see the header of `Base/RustSem.lean`).  `reprConn mrs c` maps a model connection to it: the four
  `HashMap<u8, channel>` tables (only keyed access) are key-sorted association lists on both sides; `mrs` gives, per
  receive-reliable channel, the never-read Rust field `most_recent_message_id` that the model omits.
  `I: Into<u8>` / `B: Into<Bytes>` parameters are values of type `u8` / `Bytes`.
  `SameOutcome` compares `ok` values exactly and panics up to the text of the site.
-/
import RenetVerif.Lemmas.SrcEquiv.Conn
namespace RenetVerif.SrcTie
open RenetVerif RenetVerif.SrcEquiv RenetVerif.RustSem
open Src.renet.remote_connection

/-- `from_channels`: the tables and the send order built from the two config lists.  The ids must be distinct within
    the unreliable and within the reliable configs of each direction: otherwise an `assert!` fires. -/
theorem conn_from_channels {ε : Type} (budget : Nat) (send recv : List ChanCfg)
    (hsu : ((send.filter (·.kind == .unreliable)).map (·.id)).Nodup)
    (hsr : ((send.filter (·.kind != .unreliable)).map (·.id)).Nodup)
    (hru : ((recv.filter (·.kind == .unreliable)).map (·.id)).Nodup)
    (hrr : ((recv.filter (·.kind != .unreliable)).map (·.id)).Nodup) :
    (RenetClient.from_channels budget (send.map reprCfg) (recv.map reprCfg) : Res ε _) =
      .ok (reprConn (fun _ => 0) (Conn.fromChannels budget send recv)) :=
  conn_from_channels_eq budget send recv hsu hsr hru hrr

theorem conn_new {ε : Type} (budget : Nat) (server client : List ChanCfg)
    (hsu : ((client.filter (·.kind == .unreliable)).map (·.id)).Nodup)
    (hsr : ((client.filter (·.kind != .unreliable)).map (·.id)).Nodup)
    (hru : ((server.filter (·.kind == .unreliable)).map (·.id)).Nodup)
    (hrr : ((server.filter (·.kind != .unreliable)).map (·.id)).Nodup) :
    (RenetClient.new ⟨budget, server.map reprCfg, client.map reprCfg⟩ : Res ε _) =
      .ok (reprConn (fun _ => 0) (Conn.fromChannels budget client server)) :=
  conn_new_eq budget server client hsu hsr hru hrr

theorem conn_new_from_server {ε : Type} (budget : Nat) (server client : List ChanCfg)
    (hsu : ((server.filter (·.kind == .unreliable)).map (·.id)).Nodup)
    (hsr : ((server.filter (·.kind != .unreliable)).map (·.id)).Nodup)
    (hru : ((client.filter (·.kind == .unreliable)).map (·.id)).Nodup)
    (hrr : ((client.filter (·.kind != .unreliable)).map (·.id)).Nodup) :
    (RenetClient.new_from_server ⟨budget, server.map reprCfg, client.map reprCfg⟩ : Res ε _) =
      .ok (reprConn (fun _ => 0) (Conn.fromChannels budget server client)) :=
  conn_new_from_server_eq budget server client hsu hsr hru hrr

/-! status -/
theorem conn_is_connected {ε : Type} (mrs : Nat → Nat) (c : Conn) :
    (RenetClient.is_connected (reprConn mrs c) : Res ε Bool) = .ok c.isConnected := conn_is_connected_eq mrs c
theorem conn_is_connecting {ε : Type} (mrs : Nat → Nat) (c : Conn) :
    (RenetClient.is_connecting (reprConn mrs c) : Res ε Bool) = .ok (decide (c.status = .connecting)) :=
  conn_is_connecting_eq mrs c
theorem conn_is_disconnected {ε : Type} (mrs : Nat → Nat) (c : Conn) :
    (RenetClient.is_disconnected (reprConn mrs c) : Res ε Bool) = .ok c.isDisconnected := conn_is_disconnected_eq mrs c
theorem conn_disconnect_reason {ε : Type} (mrs : Nat → Nat) (c : Conn) :
    (RenetClient.disconnect_reason (reprConn mrs c) : Res ε _) = .ok (c.disconnectReason.map reprReason) :=
  conn_disconnect_reason_eq mrs c
/-- a disconnected client stays disconnected with its first reason -/
theorem conn_disconnect_with_reason {ε : Type} (mrs : Nat → Nat) (c : Conn) (r : Reason) :
    (RenetClient.disconnect_with_reason (reprConn mrs c) (reprReason r) : Res ε _) =
      .ok (reprConn mrs (c.disconnectWith r), ()) := conn_disconnect_with_eq mrs c r
theorem conn_set_connected {ε : Type} (mrs : Nat → Nat) (c : Conn) :
    (RenetClient.set_connected (reprConn mrs c) : Res ε _) = .ok (reprConn mrs c.setConnected, ()) :=
  conn_set_connected_eq mrs c
theorem conn_set_connecting {ε : Type} (mrs : Nat → Nat) (c : Conn) :
    (RenetClient.set_connecting (reprConn mrs c) : Res ε _) = .ok (reprConn mrs c.setConnecting, ()) :=
  conn_set_connecting_eq mrs c
theorem conn_disconnect {ε : Type} (mrs : Nat → Nat) (c : Conn) :
    (RenetClient.disconnect (reprConn mrs c) : Res ε _) = .ok (reprConn mrs (c.disconnectWith .byClient), ()) :=
  conn_disconnect_eq mrs c
theorem conn_disconnect_due_to_transport {ε : Type} (mrs : Nat → Nat) (c : Conn) :
    (RenetClient.disconnect_due_to_transport (reprConn mrs c) : Res ε _) =
      .ok (reprConn mrs (c.disconnectWith .transport), ()) := conn_disconnect_transport_eq mrs c

/-! per-channel entry points (hypotheses: counters of the addressed channel fit their integer types) -/
theorem conn_channel_available_memory {ε : Type} (mrs : Nat → Nat) (c : Conn) (ch : Nat)
    (hr : ∀ s, SMap.find? c.sendRel ch = some s → s.mem ≤ s.maxMem)
    (hu : ∀ s, SMap.find? c.sendUnrel ch = some s → s.mem ≤ s.maxMem) :
    SameOutcome (RenetClient.channel_available_memory (reprConn mrs c) ch : Res ε Nat)
      (mapRes id (fun e => nomatch e) (c.availableMemory ch)) := conn_available_eq mrs c ch hr hu

theorem conn_can_send_message {ε : Type} (mrs : Nat → Nat) (c : Conn) (ch n : Nat)
    (hr : ∀ s, SMap.find? c.sendRel ch = some s → n + s.mem < 2 ^ 64)
    (hu : ∀ s, SMap.find? c.sendUnrel ch = some s → n + s.mem < 2 ^ 64) :
    SameOutcome (RenetClient.can_send_message (reprConn mrs c) ch n : Res ε Bool)
      (match SMap.find? c.sendRel ch with
       | some s => .ok (s.canSend n)
       | none => match SMap.find? c.sendUnrel ch with
         | some s => .ok (s.canSend n)
         | none => .panic "can_send_message: invalid channel") := conn_can_send_eq mrs c ch n hr hu

/-- `send_message`: queued on the channel; a reliable channel that is out of memory disconnects the client with
    `SendChannelError`; an unknown channel id panics; a disconnected client ignores the call -/
theorem conn_send_message {ε : Type} (mrs : Nat → Nat) (c : Conn) (ch : Nat) (m : Bytes) (hs : MSorted c.sendRel)
    (hr : ∀ s, SMap.find? c.sendRel ch = some s → s.mem + m.length < 2 ^ 64 ∧ s.nextId + 1 < 2 ^ 64)
    (hu : ∀ s, SMap.find? c.sendUnrel ch = some s → s.mem + m.length < 2 ^ 64) :
    SameOutcome (RenetClient.send_message (reprConn mrs c) ch (toNats m) : Res ε _)
      (mapRes (fun c' => (reprConn mrs c', ())) (fun e => nomatch e) (c.sendMessage ch m)) :=
  conn_send_message_eq mrs c ch m hs hr hu

theorem conn_receive_message {ε : Type} (mrs : Nat → Nat) (c : Conn) (ch : Nat) (hs : MSorted c.recvRel)
    (hr : ∀ r, SMap.find? c.recvRel ch = some r → r.oldest + r.received.length + 1 < 2 ^ 64 ∧ r.received.Nodup) :
    SameOutcome (RenetClient.receive_message (reprConn mrs c) ch : Res ε _)
      (mapRes (fun x => (reprConn mrs x.1, x.2.map toNats)) (fun e => nomatch e) (c.receiveMessage ch)) :=
  conn_receive_message_eq mrs c ch hs hr

/-- the default configuration: unreliable 0, reliable unordered 1, reliable ordered 2 (5 MB each, resend 300 ms) -/
def exCfgs : List Src.renet.channel.ChannelConfig :=
  [⟨0, 5000000, .Unreliable⟩, ⟨1, 5000000, .ReliableUnordered 300000000⟩, ⟨2, 5000000, .ReliableOrdered 300000000⟩]

example : (RenetClient.from_channels 60000 exCfgs exCfgs : Res Empty _) =
    .ok ⟨0, 0, [], [], [.Unreliable 0, .Reliable 1, .Reliable 2],
         [(0, ⟨0, [], 0, 5000000, 0⟩)], [(0, ⟨0, [], [], [], 5000000, 0⟩)],
         [(1, ⟨1, [], 0, 300000000, 5000000, 0⟩), (2, ⟨2, [], 0, 300000000, 5000000, 0⟩)],
         [(1, ⟨[], [], 0, .Unordered 0 [], 0, 5000000⟩), (2, ⟨[], [], 0, .Ordered, 0, 5000000⟩)],
         60000, .Connecting⟩ := by decide +kernel
/-- a duplicated channel id in the send configs trips the `assert!` -/
example : ∃ s, (RenetClient.from_channels 60000 [⟨0, 10, .Unreliable⟩, ⟨0, 10, .Unreliable⟩] [] : Res Empty _) = .panic s :=
  ⟨_, rfl⟩

/-- a small connected client with one reliable send channel (id 1, 4 bytes of memory) -/
def exConn : RenetClient :=
  ⟨0, 0, [], [], [.Reliable 1], [], [], [(1, ⟨1, [], 0, 100, 4, 0⟩)], [], 60000, .Connected⟩

example : (RenetClient.send_message exConn 1 [7, 8] : Res Empty _) =
    .ok ({ exConn with send_reliable_channels := [(1, ⟨1, [(0, .Small [7, 8] none)], 1, 100, 4, 2⟩)] }, ()) := by
  decide +kernel
/-- the message does not fit the channel's memory: the client is disconnected with `SendChannelError` -/
example : (RenetClient.send_message exConn 1 [1, 2, 3, 4, 5] : Res Empty _) =
    .ok ({ exConn with connection_status :=
            .Disconnected (.SendChannelError 1 .ReliableChannelMaxMemoryReached) }, ()) := by decide +kernel
example : ∃ s, (RenetClient.send_message exConn 9 [1] : Res Empty _) = .panic s := ⟨_, rfl⟩

end RenetVerif.SrcTie
