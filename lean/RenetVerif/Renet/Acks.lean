/- remote_connection.rs: add_pending_ack (615-661) and acked_largest (663-687) -/
import RenetVerif.Renet.Packet
namespace RenetVerif
namespace Acks

/-- the `for index in 0..len` loop of add_pending_ack; `none` = fell through the loop. -/
def addAux (seq : Nat) : List AckRange → Option (List AckRange)
  | [] => none
  | (s, e) :: rest =>
    if s ≤ seq ∧ seq < e then some ((s, e) :: rest)
    else if s = seq + 1 then some ((seq, e) :: rest)
    else if e = seq then
      match rest with
      | (s2, e2) :: rest2 => if seq + 1 = s2 then some ((s, e2) :: rest2) else some ((s, seq + 1) :: rest)
      | [] => some [(s, seq + 1)]
    else if s > seq + 1 then some ((seq, seq + 1) :: (s, e) :: rest)
    else (addAux seq rest).map ((s, e) :: ·)

def capFront (cap : Nat) (l : List AckRange) : List AckRange :=
  if l.length > cap then l.tail else l

def add (cap : Nat) (seq : Nat) (l : List AckRange) : List AckRange :=
  match l with
  | [] => [(seq, seq + 1)]
  | _ =>
    match addAux seq l with
    | some l' => capFront cap l'
    | none => capFront cap (l ++ [(seq, seq + 1)])

/-- acked_largest: the `while` loop as structural recursion -/
def ackedLargest (largest : Nat) : List AckRange → List AckRange
  | [] => []
  | (s, e) :: rest =>
    if largest < s then (s, e) :: rest
    else if e ≤ largest then ackedLargest largest rest
    else if largest + 1 ≥ e then rest else (largest + 1, e) :: rest

end Acks
end RenetVerif
