/-
  renet/src/channel/{slice_constructor,reliable,unreliable}.rs
  State-in/state-out; every operation whose Rust original can unwind returns `Res`.
-/
import RenetVerif.Base.Res
import RenetVerif.Base.SMap
import RenetVerif.Renet.Packet
namespace RenetVerif
open C

inductive ChanErr where
  | maxMemory | invalidSlice
  deriving Repr, DecidableEq

def ChanErr.name : ChanErr → String
  | .maxMemory => "ReliableChannelMaxMemoryReached"
  | .invalidSlice => "InvalidSliceMessage"

/-! ### SliceConstructor (flat buffer) -/
structure SliceCtor where
  numSlices : Nat
  numReceived : Nat
  received : List Bool
  data : Bytes
  deriving Repr, DecidableEq

def SliceCtor.new (n : Nat) : SliceCtor :=
  ⟨n, 0, List.replicate n false, List.replicate (n * SLICE_SIZE) 0⟩

/-- `Vec::resize(len, 0)` -/
def resize (l : Bytes) (len : Nat) : Bytes := l.take len ++ List.replicate (len - l.length) 0

/-- `dst[start..start+src.len()].copy_from_slice(src)`; out of range = panic -/
def setRange {ε} (l : Bytes) (start : Nat) (src : Bytes) (site : String) : Res ε Bytes :=
  if start + src.length ≤ l.length then .ok (l.take start ++ src ++ l.drop (start + src.length))
  else .panic site

def SliceCtor.processSlice (c : SliceCtor) (idx : Nat) (bytes : Bytes) :
    Res ChanErr (SliceCtor × Option Bytes) :=
  if idx ≥ c.numSlices then .err .invalidSlice else
  let isLast := idx == c.numSlices - 1
  if isLast ∧ bytes.length > SLICE_SIZE then .err .invalidSlice else
  if ¬ isLast ∧ bytes.length ≠ SLICE_SIZE then .err .invalidSlice else
  match c.received[idx]? with
  | none => .panic "slice_constructor.rs received[slice_index] out of bounds"
  | some got => do
    let c' ← if got then pure c else do
      let data := if isLast then resize c.data ((c.numSlices - 1) * SLICE_SIZE + bytes.length) else c.data
      let data ← setRange data (idx * SLICE_SIZE) bytes "slice_constructor.rs sliced_data[start..end].copy_from_slice"
      pure { c with received := c.received.set idx true, numReceived := c.numReceived + 1, data := data }
    if c'.numReceived = c'.numSlices then pure ({ c' with data := [] }, some c'.data)
    else pure (c', none)

/-! ### SendChannelReliable -/
inductive Unacked where
  | small (msg : Bytes) (lastSent : Option Nat)
  | sliced (msg : Bytes) (numSlices numAcked nextSlice : Nat) (acked : List Bool) (lastSent : List (Option Nat))
  deriving Repr, DecidableEq

def Unacked.msg : Unacked → Bytes
  | .small m _ => m
  | .sliced m .. => m

def divCeil (a b : Nat) : Nat := (a + b - 1) / b

def Unacked.newSliced (m : Bytes) : Unacked :=
  let n := divCeil m.length SLICE_SIZE
  .sliced m n 0 0 (List.replicate n false) (List.replicate n none)

structure SendRel where
  ch : Nat
  unacked : SMap Unacked
  nextId : Nat
  resend : Nat
  maxMem : Nat
  mem : Nat
  deriving Repr, DecidableEq

def SendRel.new (ch resend maxMem : Nat) : SendRel := ⟨ch, [], 0, resend, maxMem, 0⟩

def SendRel.available (s : SendRel) : Nat := s.maxMem - s.mem
def SendRel.canSend (s : SendRel) (n : Nat) : Bool := n + s.mem ≤ s.maxMem

def SendRel.sendMessage (s : SendRel) (m : Bytes) : Except ChanErr SendRel :=
  if s.mem + m.length > s.maxMem then .error .maxMemory else
  let u := if m.length > SLICE_SIZE then Unacked.newSliced m else .small m none
  .ok { s with mem := s.mem + m.length, unacked := SMap.insert s.unacked s.nextId u, nextId := s.nextId + 1 }

/-- accumulator threaded through one `get_packets_to_send` -/
structure GP where
  packets : List Packet
  small : List (Nat × Bytes)
  smallBytes : Nat
  seq : Nat
  avail : Nat
  deriving Repr

def varintLen (v : Nat) : Nat := (Varint.len? v).getD 8

def sliceBytes (m : Bytes) (n i : Nat) : Bytes :=
  let start := i * SLICE_SIZE
  let stop := if i = n - 1 then m.length else (i + 1) * SLICE_SIZE
  (m.drop start).take (stop - start)

/-- the `for i in 0..num_slices` loop for one sliced message; the list argument is the remaining
    values of the loop variable.  Returns early (`continue 'messages`) when the budget is below one slice. -/
def slicedLoop (ch id now resend : Nat) (msg : Bytes) (n start : Nat) (acked : List Bool) :
    List Nat → List (Option Nat) × Nat × GP → List (Option Nat) × Nat × GP
  | [], st => st
  | i0 :: rest, (lastSent, next, gp) =>
    if gp.avail < SLICE_SIZE then (lastSent, next, gp) else
    let i := (start + i0) % n
    if acked.getD i false then slicedLoop ch id now resend msg n start acked rest (lastSent, next, gp) else
    let due : Bool := match lastSent.getD i none with
      | some t => !decide (now - t < resend)
      | none => true
    if !due then slicedLoop ch id now resend msg n start acked rest (lastSent, next, gp) else
    let payload := sliceBytes msg n i
    let gp' := { gp with
      avail := gp.avail - payload.length,
      packets := gp.packets ++ [Packet.reliableSlice gp.seq ch ⟨id, i, n, payload⟩],
      seq := gp.seq + 1 }
    slicedLoop ch id now resend msg n start acked rest (lastSent.set i (some now), i + 1 % n, gp')

def flushSmall (ch : Nat) (gp : GP) : GP :=
  { gp with packets := gp.packets ++ [Packet.smallReliable gp.seq ch gp.small], small := [], smallBytes := 0, seq := gp.seq + 1 }

/-- the `'messages` loop over the unacked map in id order -/
def relLoop (ch now resend : Nat) : SMap Unacked → GP → SMap Unacked × GP
  | [], gp => ([], gp)
  | (id, .small m lastSent) :: rest, gp =>
    let due : Bool := match lastSent with
      | some t => !decide (now - t < resend)
      | none => true
    if gp.avail < m.length ∨ due = false then
      let (r, gp') := relLoop ch now resend rest gp
      ((id, .small m lastSent) :: r, gp')
    else
      let gp := { gp with avail := gp.avail - m.length }
      let ser := m.length + varintLen m.length + varintLen id
      let gp := if gp.smallBytes + ser > SLICE_SIZE then flushSmall ch gp else gp
      let gp := { gp with smallBytes := gp.smallBytes + ser, small := gp.small ++ [(id, m)] }
      let (r, gp') := relLoop ch now resend rest gp
      ((id, .small m (some now)) :: r, gp')
  | (id, .sliced m n numAcked next acked lastSent) :: rest, gp =>
    let (lastSent', next', gp) := slicedLoop ch id now resend m n next acked (List.range n) (lastSent, next, gp)
    let (r, gp') := relLoop ch now resend rest gp
    ((id, .sliced m n numAcked next' acked lastSent') :: r, gp')

/-- returns (channel, packets, packet_sequence, available_bytes) -/
def SendRel.getPackets (s : SendRel) (seq avail now : Nat) : SendRel × List Packet × Nat × Nat :=
  if s.unacked.isEmpty then (s, [], seq, avail) else
  let (un, gp) := relLoop s.ch now s.resend s.unacked ⟨[], [], 0, seq, avail⟩
  let gp := if gp.small.isEmpty then gp else flushSmall s.ch gp
  ({ s with unacked := un }, gp.packets, gp.seq, gp.avail)

def SendRel.processMessageAck (s : SendRel) (id : Nat) : Res Empty SendRel :=
  match SMap.find? s.unacked id with
  | none => .ok s
  | some (.small m _) => do
    let mem ← Res.csub s.mem m.length "reliable.rs memory_usage_bytes -= payload.len() (message ack)"
    pure { s with unacked := SMap.erase s.unacked id, mem := mem }
  | some (.sliced ..) => .panic "reliable.rs unreachable!: called ack on small message but found sliced"

def SendRel.processSliceAck (s : SendRel) (id idx : Nat) : Res Empty SendRel :=
  match SMap.find? s.unacked id with
  | none => .ok s
  | some (.small ..) => .panic "reliable.rs unreachable!: called ack on sliced message but found small"
  | some (.sliced m n numAcked next acked lastSent) =>
    match acked[idx]? with
    | none => .panic "reliable.rs acked[slice_index] out of bounds"
    | some true => .ok s
    | some false =>
      let acked := acked.set idx true
      let numAcked := numAcked + 1
      if numAcked = n then do
        let mem ← Res.csub s.mem m.length "reliable.rs memory_usage_bytes -= message.len() (slice ack)"
        pure { s with unacked := SMap.erase s.unacked id, mem := mem }
      else pure { s with unacked := SMap.insert s.unacked id (.sliced m n numAcked next acked lastSent) }

/-! ### ReceiveChannelReliable -/
structure RecvRel where
  slices : SMap SliceCtor
  messages : SMap Bytes
  oldest : Nat
  ordered : Bool
  received : List Nat
  mem : Nat
  maxMem : Nat
  deriving Repr, DecidableEq

def RecvRel.new (maxMem : Nat) (ordered : Bool) : RecvRel := ⟨[], [], 0, ordered, [], 0, maxMem⟩

/-- Errors carry the channel state at the moment of the `return Err(..)`: the Rust code may already
    have mutated the channel (e.g. reserved memory) before failing. -/
abbrev RecvRelRes := Res (ChanErr × RecvRel) RecvRel

def RecvRel.processMessage (r : RecvRel) (m : Bytes) (id : Nat) : RecvRelRes :=
  if id < r.oldest then .ok r else
  if r.ordered then
    if SMap.contains r.messages id then .ok r else
    if r.mem + m.length > r.maxMem then .err (.maxMemory, r) else
    .ok { r with mem := r.mem + m.length, messages := SMap.insert r.messages id m }
  else
    -- (`most_recent_message_id` is written here but never read anywhere: not modelled)
    if r.received.contains id then .ok r else
    if r.mem + m.length > r.maxMem then .err (.maxMemory, r) else
    .ok { r with mem := r.mem + m.length, received := id :: r.received, messages := SMap.insert r.messages id m }

def RecvRel.processSlice (r : RecvRel) (sl : Slice) : RecvRelRes :=
  if SMap.contains r.messages sl.messageId ∨ sl.messageId < r.oldest then .ok r else
  -- unordered: a message already handed to the application is remembered in `received`
  if ¬ r.ordered ∧ r.received.contains sl.messageId then .ok r else do
  let r ← if SMap.contains r.slices sl.messageId then (pure r : RecvRelRes) else
    let len := sl.numSlices * SLICE_SIZE
    if r.mem + len > r.maxMem then Res.err (ChanErr.maxMemory, r)
    else pure { r with mem := r.mem + len, slices := SMap.insert r.slices sl.messageId (SliceCtor.new sl.numSlices) }
  match SMap.find? r.slices sl.messageId with
  | none => .panic "unreachable: constructor just inserted"
  | some c =>
    if c.numSlices ≠ sl.numSlices then .err (.invalidSlice, r) else
    match c.processSlice sl.sliceIndex sl.payload with
    | .panic s => .panic s
    | .err e => .err (e, r)
    | .ok (c', none) => pure { r with slices := SMap.insert r.slices sl.messageId c' }
    | .ok (c', some m) => do
      let mem ← Res.csub r.mem (c.numSlices * SLICE_SIZE) "reliable.rs memory_usage_bytes -= num_slices * SLICE_SIZE"
      let r := { r with mem := mem, slices := SMap.insert r.slices sl.messageId c' }
      let r ← r.processMessage m sl.messageId
      pure { r with slices := SMap.erase r.slices sl.messageId }

/-- `while received_messages.contains(&oldest) { remove; oldest += 1 }` -/
def advanceOldest : Nat → Nat → List Nat → Nat × List Nat
  | 0, o, rec => (o, rec)
  | f + 1, o, rec => if rec.contains o then advanceOldest f (o + 1) (rec.erase o) else (o, rec)

def RecvRel.receive (r : RecvRel) : Res Empty (RecvRel × Option Bytes) :=
  if r.ordered then
    match SMap.find? r.messages r.oldest with
    | none => .ok (r, none)
    | some m => do
      let mem ← Res.csub r.mem m.length "reliable.rs memory_usage_bytes -= message.len() (receive ordered)"
      pure ({ r with messages := SMap.erase r.messages r.oldest, oldest := r.oldest + 1, mem := mem }, some m)
  else
    match r.messages with
    | [] => .ok (r, none)
    | (id, m) :: rest => do
      let (o, rec) := if r.oldest = id then advanceOldest (r.received.length) r.oldest r.received else (r.oldest, r.received)
      let mem ← Res.csub r.mem m.length "reliable.rs memory_usage_bytes -= message.len() (receive unordered)"
      pure ({ r with messages := rest, oldest := o, received := rec, mem := mem }, some m)

/-! ### unreliable channels -/
structure SendUnrel where
  ch : Nat
  queue : List Bytes
  slicedId : Nat
  maxMem : Nat
  mem : Nat
  deriving Repr, DecidableEq

def SendUnrel.new (ch maxMem : Nat) : SendUnrel := ⟨ch, [], 0, maxMem, 0⟩
def SendUnrel.available (s : SendUnrel) : Nat := s.maxMem - s.mem
def SendUnrel.canSend (s : SendUnrel) (n : Nat) : Bool := n + s.mem ≤ s.maxMem

def SendUnrel.sendMessage (s : SendUnrel) (m : Bytes) : SendUnrel :=
  if s.mem + m.length > s.maxMem then s else { s with mem := s.mem + m.length, queue := s.queue ++ [m] }

structure GPU where
  packets : List Packet
  small : List Bytes
  smallBytes : Nat
  seq : Nat
  avail : Nat
  slicedId : Nat
  mem : Nat

def unrelSlices (ch id : Nat) (m : Bytes) (n : Nat) : List Nat → Nat → List Packet
  | [], _ => []
  | i :: rest, seq => Packet.unreliableSlice seq ch ⟨id, i, n, sliceBytes m n i⟩ :: unrelSlices ch id m n rest (seq + 1)

def unrelLoop (ch : Nat) : List Bytes → GPU → GPU
  | [], g => g
  | m :: rest, g =>
    let g := { g with mem := g.mem - m.length }
    if g.avail < m.length then unrelLoop ch rest g else
    let g := { g with avail := g.avail - m.length }
    if m.length > SLICE_SIZE then
      let n := divCeil m.length SLICE_SIZE
      let g := { g with packets := g.packets ++ unrelSlices ch g.slicedId m n (List.range n) g.seq,
                        seq := g.seq + n, slicedId := g.slicedId + 1 }
      unrelLoop ch rest g
    else
      let ser := m.length + varintLen m.length
      let g := if g.smallBytes + ser > SLICE_SIZE then
          { g with packets := g.packets ++ [Packet.smallUnreliable g.seq ch g.small], small := [], smallBytes := 0, seq := g.seq + 1 }
        else g
      unrelLoop ch rest { g with smallBytes := g.smallBytes + ser, small := g.small ++ [m] }

def SendUnrel.getPackets (s : SendUnrel) (seq avail : Nat) : SendUnrel × List Packet × Nat × Nat :=
  let g := unrelLoop s.ch s.queue ⟨[], [], 0, seq, avail, s.slicedId, s.mem⟩
  let g := if g.small.isEmpty then g else
    { g with packets := g.packets ++ [Packet.smallUnreliable g.seq s.ch g.small], small := [], seq := g.seq + 1 }
  ({ s with queue := [], slicedId := g.slicedId, mem := g.mem }, g.packets, g.seq, g.avail)

structure RecvUnrel where
  ch : Nat
  messages : List Bytes
  slices : SMap SliceCtor
  lastReceived : SMap Nat
  maxMem : Nat
  mem : Nat
  deriving Repr, DecidableEq

def RecvUnrel.new (ch maxMem : Nat) : RecvUnrel := ⟨ch, [], [], [], maxMem, 0⟩

def RecvUnrel.processMessage (r : RecvUnrel) (m : Bytes) : RecvUnrel :=
  if r.mem + m.length > r.maxMem then r else { r with mem := r.mem + m.length, messages := r.messages ++ [m] }

def RecvUnrel.processSlice (r : RecvUnrel) (sl : Slice) (now : Nat) : Res (ChanErr × RecvUnrel) RecvUnrel :=
  let r? : Option RecvUnrel := if SMap.contains r.slices sl.messageId then some r else
    let len := sl.numSlices * SLICE_SIZE
    if r.mem + len > r.maxMem then none
    else some { r with mem := r.mem + len, slices := SMap.insert r.slices sl.messageId (SliceCtor.new sl.numSlices) }
  match r? with
  | none => .ok r      -- dropped: channel is memory limited
  | some r =>
  match SMap.find? r.slices sl.messageId with
  | none => .panic "unreachable: constructor just inserted"
  | some c =>
    if c.numSlices ≠ sl.numSlices then .err (.invalidSlice, r) else
    match c.processSlice sl.sliceIndex sl.payload with
    | .panic s => .panic s
    | .err e => .err (e, r)
    | .ok (_, some m) => do
      let mem ← Res.csub r.mem (c.numSlices * SLICE_SIZE) "unreliable.rs memory_usage_bytes -= num_slices * SLICE_SIZE"
      pure { r with slices := SMap.erase r.slices sl.messageId, lastReceived := SMap.erase r.lastReceived sl.messageId,
                    mem := mem + m.length, messages := r.messages ++ [m] }
    | .ok (c', none) =>
      pure { r with slices := SMap.insert r.slices sl.messageId c', lastReceived := SMap.insert r.lastReceived sl.messageId now }

def discardLoop : List Nat → RecvUnrel → Res Empty RecvUnrel
  | [], r => .ok r
  | id :: rest, r =>
    match SMap.find? r.slices id with
    | none => .panic "unreliable.rs discarded slice should exist"
    | some c => do
      let mem ← Res.csub r.mem (c.numSlices * SLICE_SIZE) "unreliable.rs memory_usage_bytes -= num_slices * SLICE_SIZE (discard)"
      discardLoop rest { r with lastReceived := SMap.erase r.lastReceived id, slices := SMap.erase r.slices id, mem := mem }

def RecvUnrel.discardOld (r : RecvUnrel) (now : Nat) : Res Empty RecvUnrel :=
  let lost := (r.lastReceived.filter (fun (_, t) => now - t ≥ DISCARD_FRAGMENT_AFTER_NS)).map (·.1)
  discardLoop lost r

def RecvUnrel.receive (r : RecvUnrel) : Res Empty (RecvUnrel × Option Bytes) :=
  match r.messages with
  | [] => .ok (r, none)
  | m :: rest => do
    let mem ← Res.csub r.mem m.length "unreliable.rs memory_usage_bytes -= message.len() (receive)"
    pure ({ r with messages := rest, mem := mem }, some m)

end RenetVerif
