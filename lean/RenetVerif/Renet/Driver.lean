/- Line-protocol driver for the renet engine (E2/E3): same op lines as the Rust harness. -/
import RenetVerif.Base.Hex
import RenetVerif.Renet.Server
namespace RenetVerif
namespace RDriver

def bits (l : List Bool) : String := String.ofList (l.map (fun b => if b then '1' else '0'))
def optNat : Option Nat → String
  | none => "-"
  | some n => toString n
def joinWith (sep : String) (l : List String) : String := sep.intercalate l

def dumpCtor (c : SliceCtor) : String :=
  s!"{c.numReceived}/{c.numSlices}:{bits c.received}:{c.data.length}"

def dumpSendRel (s : SendRel) : String :=
  let un := s.unacked.map fun (id, u) =>
    match u with
    | .small m ls => s!"{id}:S{m.length}@{optNat ls}"
    | .sliced m n na nx acked ls => s!"{id}:L{m.length},{n},{na},{nx},{bits acked}@{joinWith "," (ls.map optNat)}"
  s!"mem={s.mem},max={s.maxMem},next={s.nextId},un=[{joinWith ";" un}]"

def sortNat (l : List Nat) : List Nat := l.mergeSort (· ≤ ·)

def dumpRecvRel (r : RecvRel) : String :=
  let msgs := r.messages.map fun (id, m) => s!"{id}:{m.length}"
  let sl := r.slices.map fun (id, c) => s!"{id}={dumpCtor c}"
  let recv := (sortNat r.received).map toString
  s!"mem={r.mem},max={r.maxMem},old={r.oldest},msgs=[{joinWith ";" msgs}],sl=[{joinWith ";" sl}],rec=[{joinWith ";" recv}]"

def dumpSendUnrel (s : SendUnrel) : String :=
  s!"mem={s.mem},max={s.maxMem},sid={s.slicedId},q=[{joinWith ";" (s.queue.map (toString ·.length))}]"

def dumpRecvUnrel (r : RecvUnrel) : String :=
  let sl := r.slices.map fun (id, c) => s!"{id}={dumpCtor c}"
  let last := r.lastReceived.map fun (id, t) => s!"{id}@{t}"
  s!"mem={r.mem},max={r.maxMem},msgs=[{joinWith ";" (r.messages.map (toString ·.length))}],sl=[{joinWith ";" sl}],last=[{joinWith ";" last}]"

def dumpInfo : SentInfo → String
  | .none => "N"
  | .relMsgs ch ids => s!"M{ch}:{joinWith "," (ids.map toString)}"
  | .relSlice ch id idx => s!"S{ch}:{id}:{idx}"
  | .ack l => s!"A{l}"

def dumpConn (c : Conn) : String :=
  let acks := c.pendingAcks.map fun (s, e) => s!"{s}-{e}"
  let sent := c.sent.map fun (seq, (t, info)) => s!"{seq}@{t}={dumpInfo info}"
  let head := s!"seq={c.packetSeq} now={c.now} acks=[{joinWith ";" acks}] sent=[{joinWith ";" sent}]"
  let su := c.sendUnrel.map fun (id, s) => s!" su{id}\{{dumpSendUnrel s}}"
  let sr := c.sendRel.map fun (id, s) => s!" sr{id}\{{dumpSendRel s}}"
  let ru := c.recvUnrel.map fun (id, s) => s!" ru{id}\{{dumpRecvUnrel s}}"
  let rr := c.recvRel.map fun (id, s) => s!" rr{id}\{{dumpRecvRel s}}"
  head ++ String.join su ++ String.join sr ++ String.join ru ++ String.join rr

def statusStr : Status → String
  | .connected => "connected"
  | .connecting => "connecting"
  | .disconnected r => s!"disconnected:{r.name}"

/-! wire terms (E1) -/
def showTerm : Packet → String
  | .smallReliable seq ch msgs =>
    s!"SR {seq} {ch} {msgs.length}" ++ String.join (msgs.map fun (id, m) => s!" {id} {toHex m}")
  | .smallUnreliable seq ch msgs =>
    s!"SU {seq} {ch} {msgs.length}" ++ String.join (msgs.map fun m => s!" {toHex m}")
  | .reliableSlice seq ch sl => s!"RS {seq} {ch} {sl.messageId} {sl.sliceIndex} {sl.numSlices} {toHex sl.payload}"
  | .unreliableSlice seq ch sl => s!"US {seq} {ch} {sl.messageId} {sl.sliceIndex} {sl.numSlices} {toHex sl.payload}"
  | .ack seq ranges => s!"AK {seq} {ranges.length}" ++ String.join (ranges.map fun (s, e) => s!" {s} {e}")

def u64? (s : String) : Option Nat := do
  let n ← s.toNat?
  if n < 2 ^ 64 then some n else none

def u8? (s : String) : Option Nat := do
  let n ← s.toNat?
  if n < 256 then some n else none

def parseRelMsgs : Nat → List String → Option (List (Nat × Bytes))
  | 0, [] => some []
  | n + 1, id :: h :: rest => do
    let id ← u64? id
    let m ← fromHex h
    let r ← parseRelMsgs n rest
    pure ((id, m) :: r)
  | _, _ => none

def parseUnrelMsgs : Nat → List String → Option (List Bytes)
  | 0, [] => some []
  | n + 1, h :: rest => do
    let m ← fromHex h
    let r ← parseUnrelMsgs n rest
    pure (m :: r)
  | _, _ => none

def parseRanges : Nat → List String → Option (List AckRange)
  | 0, [] => some []
  | n + 1, s :: e :: rest => do
    let s ← u64? s
    let e ← u64? e
    let r ← parseRanges n rest
    pure ((s, e) :: r)
  | _, _ => none

def parseTerm : List String → Option Packet
  | "SR" :: seq :: ch :: n :: rest => do
    let msgs ← parseRelMsgs (← n.toNat?) rest
    pure (.smallReliable (← u64? seq) (← u8? ch) msgs)
  | "SU" :: seq :: ch :: n :: rest => do
    let msgs ← parseUnrelMsgs (← n.toNat?) rest
    pure (.smallUnreliable (← u64? seq) (← u8? ch) msgs)
  | ["RS", seq, ch, id, idx, n, h] => do
    pure (.reliableSlice (← u64? seq) (← u8? ch) ⟨← u64? id, ← u64? idx, ← u64? n, ← fromHex h⟩)
  | ["US", seq, ch, id, idx, n, h] => do
    pure (.unreliableSlice (← u64? seq) (← u8? ch) ⟨← u64? id, ← u64? idx, ← u64? n, ← fromHex h⟩)
  | "AK" :: seq :: n :: rest => do
    let r ← parseRanges (← n.toNat?) rest
    pure (.ack (← u64? seq) r)
  | _ => none

structure RWorld where
  server : Option Server := none
  clients : SMap Conn := []
  hist : List (String × List Bytes) := []
  dead : Bool := false

def histOf (w : RWorld) (who : String) : List Bytes :=
  match w.hist.find? (·.1 == who) with
  | some (_, l) => l
  | none => []

def histPush (w : RWorld) (who : String) (ps : List Bytes) : RWorld :=
  if w.hist.any (·.1 == who) then
    { w with hist := w.hist.map fun (k, l) => if k == who then (k, l ++ ps) else (k, l) }
  else { w with hist := w.hist ++ [(who, ps)] }

def parseKind : String → Option Kind
  | "U" => some .unreliable
  | "RO" => some .ordered
  | "RU" => some .unordered
  | _ => none

def parseChans : Nat → List String → Option (List ChanCfg × List String)
  | 0, rest => some ([], rest)
  | n + 1, id :: k :: mm :: rs :: rest => do
    let id ← id.toNat?
    let k ← parseKind k
    let mm ← mm.toNat?
    let rs ← rs.toNat?
    let (cs, rest) ← parseChans n rest
    pure (⟨id, k, mm, rs * 1000⟩ :: cs, rest)
  | _, _ => none

inductive Who where
  | client (h : Nat)
  | sconn (id : Nat)
  | srv

def parseWho (s : String) : Option Who :=
  if s == "srv" then some .srv
  else match s.toList with
    | 'c' :: r => (String.ofList r).toNat?.map .client
    | 's' :: r => (String.ofList r).toNat?.map .sconn
    | _ => none

def applyMut (b : Bytes) (m : String) : Option Bytes :=
  match m.splitOn ":" with
  | ["flip", bit] => do
    let bit ← bit.toNat?
    if bit / 8 < b.length then
      some (b.set (bit / 8) ((b.getD (bit / 8) 0) ^^^ (UInt8.ofNat (1 <<< (bit % 8)))))
    else some b
  | ["trunc", n] => do
    let n ← n.toNat?
    some (b.take n)
  | ["xor", off, v] => do
    let off ← off.toNat?
    let v ← v.toNat?
    if off < b.length then some (b.set off ((b.getD off 0) ^^^ UInt8.ofNat v)) else some b
  | _ => none

/-- lift a `Res Empty` step: panic ⇒ output "panic" and the world dies -/
def lift (w : RWorld) (r : Res Empty (RWorld × String)) : RWorld × String :=
  match r with
  | .ok x => x
  | .panic _ => ({ w with dead := true }, "panic")

def withServer (w : RWorld) (f : Server → Res Empty (Server × String)) : RWorld × String :=
  match w.server with
  | none => (w, "bad-op")
  | some s => lift w (do let (s', o) ← f s; pure ({ w with server := some s' }, o))

def withClient (w : RWorld) (h : Nat) (f : Conn → Res Empty (Conn × String)) : RWorld × String :=
  match SMap.find? w.clients h with
  | none => (w, "bad-op")
  | some c => lift w (do let (c', o) ← f c; pure ({ w with clients := SMap.insert w.clients h c' }, o))

def process (w : RWorld) (to : Who) (bytes : Bytes) : RWorld × String :=
  match to with
  | .client h => withClient w h fun c => do let c' ← c.processPacket bytes; pure (c', "ok")
  | .sconn id => withServer w fun s => do
      let (s', ok) ← s.processPacketFrom bytes id
      pure (s', if ok then "ok" else "notfound")
  | .srv => (w, "bad-op")

def eventStr : Option Event → String
  | none => "none"
  | some (.connected id) => s!"connected {id}"
  | some (.disconnected id r) => s!"disconnected {id} {r.name}"

def step (w : RWorld) (toks : List String) : Option (RWorld × String) :=
  match toks with
  | "cfg" :: budget :: "S" :: ns :: rest => some <|
    match (do
      let budget ← budget.toNat?
      let ns ← ns.toNat?
      let (sc, rest) ← parseChans ns rest
      match rest with
      | "C" :: nc :: rest => do
        let nc ← nc.toNat?
        let (cc, rest) ← parseChans nc rest
        if rest.isEmpty then some (Server.new budget sc cc) else none
      | _ => none : Option Server) with
    | some s => ({ w with server := some s }, "ok")
    | none => (w, "bad-op")
  | ["cli", h] => some <|
    match h.toNat?, w.server with
    | some h, some s => ({ w with clients := SMap.insert w.clients h s.newClient }, "ok")
    | _, _ => (w, "bad-op")
  | ["add", id] => some <| match id.toNat? with
    | some id => withServer w fun s => pure (s.addConnection id, "ok")
    | none => (w, "bad-op")
  | ["rem", id] => some <| match id.toNat? with
    | some id => withServer w fun s => pure (s.removeConnection id, "ok")
    | none => (w, "bad-op")
  | ["sdisc", id] => some <| match id.toNat? with
    | some id => withServer w fun s => pure (s.disconnect id, "ok")
    | none => (w, "bad-op")
  | ["sdiscall"] => some <| withServer w fun s => pure (s.disconnectAll, "ok")
  | ["lnew", id, h] => some <| match id.toNat?, h.toNat?, w.server with
    | some id, some h, some s =>
      let (s', c) := s.newLocalClient id
      ({ w with server := some s', clients := SMap.insert w.clients h c }, "ok")
    | _, _, _ => (w, "bad-op")
  | ["ldisc", id, h] => some <| match id.toNat?, h.toNat?, w.server with
    | some id, some h, some s =>
      match SMap.find? w.clients h with
      | none => (w, "bad-op")
      | some c =>
        let (s', c') := s.disconnectLocalClient id c
        ({ w with server := some s', clients := SMap.insert w.clients h c' }, "ok")
    | _, _, _ => (w, "bad-op")
  | ["lproc", id, h] => some <| match id.toNat?, h.toNat?, w.server with
    | some id, some h, some s =>
      match SMap.find? w.clients h with
      | none => (w, "bad-op")
      | some c => lift w (do
        let (s', c', ok) ← s.processLocalClient id c
        pure ({ w with server := some s', clients := SMap.insert w.clients h c' }, if ok then "ok" else "notfound"))
    | _, _, _ => (w, "bad-op")
  | ["ev"] => some <| withServer w fun s => let (s', e) := s.getEvent; pure (s', eventStr e)
  | ["ids"] => some <| withServer w fun s =>
      pure (s, s!"ids [{joinWith "," (s.clientsId.map toString)}] disc [{joinWith "," (s.disconnectionsId.map toString)}]")
  | ["sq", id] => some <| match id.toNat? with
    | some id => withServer w fun s =>
      let reason := match SMap.find? s.conns id with
        | none => "none"
        | some c => match c.disconnectReason with | none => "none" | some r => r.name
      let isC := match SMap.find? s.conns id with | none => false | some c => c.isConnected
      pure (s, s!"has={!s.conns.isEmpty} n={s.clientsId.length} is={isC} reason={reason}")
    | none => (w, "bad-op")
  | ["send", who, ch, hex] => some <| match parseWho who, ch.toNat?, fromHex hex with
    | some (.client h), some ch, some m => withClient w h fun c => do let c' ← c.sendMessage ch m; pure (c', "ok")
    | some (.sconn id), some ch, some m => withServer w fun s => do let s' ← s.sendMessage id ch m; pure (s', "ok")
    | _, _, _ => (w, "bad-op")
  | ["bcast", ch, hex] => some <| match ch.toNat?, fromHex hex with
    | some ch, some m => withServer w fun s => do let s' ← s.broadcast ch m; pure (s', "ok")
    | _, _ => (w, "bad-op")
  | ["bcastx", id, ch, hex] => some <| match id.toNat?, ch.toNat?, fromHex hex with
    | some id, some ch, some m => withServer w fun s => do let s' ← s.broadcastExcept id ch m; pure (s', "ok")
    | _, _, _ => (w, "bad-op")
  | ["recv", who, ch] => some <|
    let fmt : Option Bytes → String := fun m => match m with | none => "none" | some m => s!"msg {toHex m}"
    match parseWho who, ch.toNat? with
    | some (.client h), some ch => withClient w h fun c => do let (c', m) ← c.receiveMessage ch; pure (c', fmt m)
    | some (.sconn id), some ch => withServer w fun s => do let (s', m) ← s.receiveMessage id ch; pure (s', fmt m)
    | _, _ => (w, "bad-op")
  | ["upd", who, us] => some <| match parseWho who, us.toNat? with
    | some (.client h), some us => withClient w h fun c => do let c' ← c.update (us * 1000); pure (c', "ok")
    | some .srv, some us => withServer w fun s => do let s' ← s.update (us * 1000); pure (s', "ok")
    | _, _ => (w, "bad-op")
  | ["flush", who] => some <|
    let fmt : List Bytes → String := fun ps => s!"pkts {ps.length}" ++ String.join (ps.map fun p => " " ++ toHex p)
    match parseWho who with
    | some (.client h) =>
      match SMap.find? w.clients h with
      | none => (w, "bad-op")
      | some c => lift w (do
        let (c', ps) ← c.getPacketsToSend
        pure (histPush { w with clients := SMap.insert w.clients h c' } who ps, fmt ps))
    | some (.sconn id) =>
      match w.server with
      | none => (w, "bad-op")
      | some s => lift w (do
        let (s', ps) ← s.getPacketsToSend id
        match ps with
        | none => pure ({ w with server := some s' }, "notfound")
        | some ps => pure (histPush { w with server := some s' } who ps, fmt ps))
    | _ => (w, "bad-op")
  | ["dlv", to, from_, k] => some <| match parseWho to, k.toNat? with
    | some to, some k =>
      match (histOf w from_)[k]? with
      | none => (w, "nohist")
      | some b => process w to b
    | _, _ => (w, "bad-op")
  | ["dlvm", to, from_, k, m] => some <| match parseWho to, k.toNat? with
    | some to, some k =>
      match (histOf w from_)[k]? with
      | none => (w, "nohist")
      | some b => match applyMut b m with
        | some b' => process w to b'
        | none => (w, "bad-op")
    | _, _ => (w, "bad-op")
  | ["raw", to, hex] => some <| match parseWho to, fromHex hex with
    | some to, some b => process w to b
    | _, _ => (w, "bad-op")
  | ["stat", who] => some <| match parseWho who with
    | some (.client h) => withClient w h fun c => pure (c, statusStr c.status)
    | some (.sconn id) => withServer w fun s => pure (s, match SMap.find? s.conns id with | none => "notfound" | some c => statusStr c.status)
    | _ => (w, "bad-op")
  | ["dump", who] => some <| match parseWho who with
    | some (.client h) => withClient w h fun c => pure (c, dumpConn c)
    | some (.sconn id) => withServer w fun s => pure (s, match SMap.find? s.conns id with | none => "notfound" | some c => dumpConn c)
    | _ => (w, "bad-op")
  | ["avail", who, ch] => some <| match parseWho who, ch.toNat? with
    | some (.client h), some ch => withClient w h fun c => do let n ← c.availableMemory ch; pure (c, toString n)
    | some (.sconn id), some ch => withServer w fun s =>
      match SMap.find? s.conns id with
      | none => pure (s, "0")
      | some c => do let n ← c.availableMemory ch; pure (s, toString n)
    | _, _ => (w, "bad-op")
  | ["note", _] => some (w, "ok")
  | ["sendn", who, ch, n, tag] => some <| match parseWho who, ch.toNat?, n.toNat?, tag.toNat? with
    | some tgt, some ch, some n, some tag =>
      let msg (i : Nat) : Bytes := [UInt8.ofNat tag, UInt8.ofNat (i % 256), UInt8.ofNat (i / 256 % 256), UInt8.ofNat (i / 65536 % 256), UInt8.ofNat (i / 16777216 % 256)]
      let rec go (fuel : Nat) (i : Nat) (w : RWorld) : RWorld × String :=
        match fuel with
        | 0 => (w, "ok")
        | fuel + 1 =>
          let (w', out) := match tgt with
            | .client h => withClient w h fun c => do let c' ← c.sendMessage ch (msg i); pure (c', "ok")
            | .sconn id => withServer w fun s => do let s' ← s.sendMessage id ch (msg i); pure (s', "ok")
            | .srv => (w, "bad-op")
          if out == "ok" then go fuel (i + 1) w' else (w', out)
      go n 0 w
    | _, _, _, _ => (w, "bad-op")
  | ["recvn", who, ch, mx] => some <| match parseWho who, ch.toNat?, mx.toNat? with
    | some tgt, some ch, some mx =>
      let rec goR (fuel : Nat) (n sum : Nat) (w : RWorld) : RWorld × String :=
        match fuel with
        | 0 => (w, s!"msgs {n} {sum}")
        | fuel + 1 =>
          let r : Option (RWorld × Option Bytes) := match tgt with
            | .client h => match SMap.find? w.clients h with
              | none => none
              | some c => match c.receiveMessage ch with
                | .ok (c', m) => some ({ w with clients := SMap.insert w.clients h c' }, m)
                | _ => none
            | .sconn id => match w.server with
              | none => none
              | some s => match s.receiveMessage id ch with
                | .ok (s', m) => some ({ w with server := some s' }, m)
                | _ => none
            | .srv => none
          match r with
          | none => ({ w with dead := true }, "panic")
          | some (w', none) => (w', s!"msgs {n} {sum}")
          | some (w', some m) => goR fuel (n + 1) (m.foldl (fun acc b => (acc * 31 + b.toNat) % 1000000007) sum) w'
      goR mx 0 0 w
    | _, _, _ => (w, "bad-op")
  | "enc" :: term => some <| match parseTerm term with
    | none => (w, "bad-op")
    | some p => match p.toBytes C.SER_BUFFER with
      | .ok b => (w, toHex b)
      | .err e => (w, s!"err:{e.name}")
      | .panic _ => ({ w with dead := true }, "panic")
  | ["dec", h] => some <| match fromHex h with
    | none => (w, "bad-op")
    | some b => match Packet.fromBytes b with
      | .ok p => (w, showTerm p)
      | .error e => (w, s!"err:{e.name}")
  | ["cansend", who, ch, n] => some <| match parseWho who, ch.toNat?, n.toNat? with
    | some tgt, some ch, some n =>
      let ans (c : Conn) : Option String :=
        match SMap.find? c.sendRel ch with
        | some s => some (toString (s.canSend n))
        | none => match SMap.find? c.sendUnrel ch with
          | some s => some (toString (s.canSend n))
          | none => none
      match tgt with
      | .client h => match SMap.find? w.clients h with
        | none => (w, "bad-op")
        | some c => match ans c with
          | some o => (w, o)
          | none => ({ w with dead := true }, "panic")
      | .sconn id => match w.server with
        | none => (w, "bad-op")
        | some s => match SMap.find? s.conns id with
          | none => (w, "false")
          | some c => match ans c with
            | some o => (w, o)
            | none => ({ w with dead := true }, "panic")
      | .srv => (w, "bad-op")
    | _, _, _ => (w, "bad-op")
  | ["setc", h] => some <| match h.toNat? with
    | some h => withClient w h fun c => pure (c.setConnected, "ok")
    | none => (w, "bad-op")
  | ["setg", h] => some <| match h.toNat? with
    | some h => withClient w h fun c => pure (c.setConnecting, "ok")
    | none => (w, "bad-op")
  | ["disc", h] => some <| match h.toNat? with
    | some h => withClient w h fun c => pure (c.disconnectWith .byClient, "ok")
    | none => (w, "bad-op")
  | ["disct", h] => some <| match h.toNat? with
    | some h => withClient w h fun c => pure (c.disconnectWith .transport, "ok")
    | none => (w, "bad-op")
  | _ => none

end RDriver
end RenetVerif
