/-
  renet/src/packet.rs  +  the octets varint / cursor functions it uses.
  Encoding is a pure function guarded by explicit panic sites (varint ≥ 2^62, malformed ack list);
  `toBytes cap` adds the `BufferTooShort` check of the fixed-size serialisation buffer.
-/
import RenetVerif.Base.Res
import RenetVerif.Generated.Consts
namespace RenetVerif

inductive SerErr where
  | bufferTooShort | invalidNumSlices | sliceSizeAboveLimit | emptySlice | invalidAckRange | invalidPacketType
  deriving Repr, DecidableEq

def SerErr.name : SerErr → String
  | .bufferTooShort => "BufferTooShort"
  | .invalidNumSlices => "InvalidNumSlices"
  | .sliceSizeAboveLimit => "SliceSizeAboveLimit"
  | .emptySlice => "EmptySlice"
  | .invalidAckRange => "InvalidAckRange"
  | .invalidPacketType => "InvalidPacketType"

structure Slice where
  messageId : Nat
  sliceIndex : Nat
  numSlices : Nat
  payload : Bytes
  deriving Repr, DecidableEq

/-- half-open range [start, end) of packet sequence numbers -/
abbrev AckRange := Nat × Nat

inductive Packet where
  | smallReliable (seq : Nat) (ch : Nat) (msgs : List (Nat × Bytes))
  | smallUnreliable (seq : Nat) (ch : Nat) (msgs : List Bytes)
  | reliableSlice (seq : Nat) (ch : Nat) (slice : Slice)
  | unreliableSlice (seq : Nat) (ch : Nat) (slice : Slice)
  | ack (seq : Nat) (ranges : List AckRange)
  deriving Repr, DecidableEq

def Packet.sequence : Packet → Nat
  | .smallReliable s _ _ | .smallUnreliable s _ _ | .reliableSlice s _ _ | .unreliableSlice s _ _ | .ack s _ => s

/-! ### octets varints -/
namespace Varint

def MAX : Nat := 4611686018427387903   -- 2^62 - 1

/-- `octets::varint_len`; `none` = `unreachable!()` (value above 2^62-1) -/
def len? (v : Nat) : Option Nat :=
  if v ≤ 63 then some 1 else if v ≤ 16383 then some 2 else if v ≤ 1073741823 then some 4
  else if v ≤ MAX then some 8 else none

def beBytes (n : Nat) : Nat → Bytes
  | 0 => []
  | k + 1 => UInt8.ofNat (n / 256 ^ k % 256) :: beBytes n k

/-- canonical encoding (`put_varint`), defined for v ≤ MAX -/
def enc (v : Nat) : Bytes :=
  if v ≤ 63 then beBytes v 1
  else if v ≤ 16383 then beBytes (v + 0x4000) 2
  else if v ≤ 1073741823 then beBytes (v + 0x80000000) 4
  else beBytes (v % 2^62 + 0xc000000000000000) 8

def beVal : Bytes → Nat → Nat
  | [], acc => acc
  | b :: r, acc => beVal r (acc * 256 + b.toNat)

/-- `get_varint`: value and rest; `none` = BufferTooShort -/
def get (b : Bytes) : Option (Nat × Bytes) :=
  match b with
  | [] => none
  | first :: _ =>
    let len := match first.toNat / 64 with | 0 => 1 | 1 => 2 | 2 => 4 | _ => 8
    if len > b.length then none
    else some (beVal (b.take len) 0 % 2 ^ (8 * len - 2), b.drop len)

end Varint

/-! ### writer side -/
abbrev EncRes := Res SerErr Bytes

def putVarint (v : Nat) : EncRes :=
  if v ≤ Varint.MAX then .ok (Varint.enc v) else .panic "octets::varint_len unreachable (value >= 2^62)"

def u16be (n : Nat) : Bytes := [UInt8.ofNat (n / 256 % 256), UInt8.ofNat (n % 256)]

def encSmallRel : List (Nat × Bytes) → EncRes
  | [] => .ok []
  | (id, m) :: r => do
    let a ← putVarint id
    let b ← putVarint m.length
    let rest ← encSmallRel r
    pure (a ++ b ++ m ++ rest)

def encSmallUnrel : List Bytes → EncRes
  | [] => .ok []
  | m :: r => do
    let b ← putVarint m.length
    let rest ← encSmallUnrel r
    pure (b ++ m ++ rest)

def encSlice (s : Slice) : EncRes := do
  let a ← putVarint s.messageId
  let b ← putVarint s.sliceIndex
  let c ← putVarint s.numSlices
  let d ← putVarint s.payload.length
  pure (a ++ b ++ c ++ d ++ s.payload)

/-- the `for range in it` loop of the Ack arm, over the remaining ranges in reverse order -/
def encAckRest (prevStart : Nat) : List AckRange → EncRes
  | [] => .ok []
  | (s, e) :: r => do
    -- let gap = previous_range_start - range.end - 1;
    let g0 ← Res.csub prevStart e "packet.rs:194 previous_range_start - range.end"
    let gap ← Res.csub g0 1 "packet.rs:194 gap - 1"
    -- let range_size = (range.end - 1) - range.start;
    let e1 ← Res.csub e 1 "packet.rs:195 range.end - 1"
    let size ← Res.csub e1 s "packet.rs:195 (end-1) - start"
    let a ← putVarint gap
    let b ← putVarint size
    let rest ← encAckRest s r
    pure (a ++ b ++ rest)

def Packet.enc : Packet → EncRes
  | .smallReliable seq ch msgs => do
    let s ← putVarint seq
    let body ← encSmallRel msgs
    pure ([0] ++ s ++ [UInt8.ofNat ch] ++ u16be msgs.length ++ body)
  | .smallUnreliable seq ch msgs => do
    let s ← putVarint seq
    let body ← encSmallUnrel msgs
    pure ([1] ++ s ++ [UInt8.ofNat ch] ++ u16be msgs.length ++ body)
  | .reliableSlice seq ch sl => do
    let s ← putVarint seq
    let body ← encSlice sl
    pure ([2] ++ s ++ [UInt8.ofNat ch] ++ body)
  | .unreliableSlice seq ch sl => do
    let s ← putVarint seq
    let body ← encSlice sl
    pure ([3] ++ s ++ [UInt8.ofNat ch] ++ body)
  | .ack seq ranges => do
    let s ← putVarint seq
    match ranges.reverse with
    | [] => .panic "packet.rs:181 it.next().unwrap() on empty ack_ranges"
    | (ls, le) :: rest => do
      let le1 ← Res.csub le 1 "packet.rs:182 last.end - 1"
      let size ← Res.csub le1 ls "packet.rs:182 (last.end-1) - last.start"
      let a ← putVarint le1
      let b ← putVarint size
      let c ← putVarint rest.length
      let r ← encAckRest ls rest
      pure ([4] ++ s ++ a ++ b ++ c ++ r)

/-- `Packet::to_bytes` into a buffer of `cap` bytes -/
def Packet.toBytes (cap : Nat) (p : Packet) : EncRes := do
  let b ← p.enc
  if b.length ≤ cap then pure b else .err .bufferTooShort

/-! ### reader side (total: `Except`) -/
abbrev Dec (α : Type) := Bytes → Except SerErr (α × Bytes)

def getU8 : Dec Nat
  | [] => .error .bufferTooShort
  | b :: r => .ok (b.toNat, r)

def getU16 : Dec Nat
  | a :: b :: r => .ok (a.toNat * 256 + b.toNat, r)
  | _ => .error .bufferTooShort

def getVarint : Dec Nat := fun b =>
  match Varint.get b with
  | none => .error .bufferTooShort
  | some x => .ok x

def getBytesVar : Dec Bytes := fun b =>
  match getVarint b with
  | .error e => .error e
  | .ok (len, r) => if r.length < len then .error .bufferTooShort else .ok (r.take len, r.drop len)

def decSmallRel : Nat → Bytes → Except SerErr (List (Nat × Bytes) × Bytes)
  | 0, b => .ok ([], b)
  | n + 1, b => do
    let (id, b) ← getVarint b
    let (m, b) ← getBytesVar b
    let (rest, b) ← decSmallRel n b
    pure ((id, m) :: rest, b)

def decSmallUnrel : Nat → Bytes → Except SerErr (List Bytes × Bytes)
  | 0, b => .ok ([], b)
  | n + 1, b => do
    let (m, b) ← getBytesVar b
    let (rest, b) ← decSmallUnrel n b
    pure (m :: rest, b)

/-- the `for _ in 0..num_remaining_ranges` loop; accumulates in push order (descending ranges,
    so the accumulator is already the reversed = ascending list) -/
def decAckRest (n : Nat) (prevStart : Nat) (b : Bytes) (acc : List AckRange) :
    Except SerErr (List AckRange × Bytes) :=
  match n with
  | 0 => .ok (acc, b)
  | n + 1 => do
    let (gap, b) ← getVarint b
    if prevStart < 2 + gap then .error .invalidAckRange else
    let rangeEnd := (prevStart - gap) - 2
    let (size, b) ← getVarint b
    if rangeEnd < size then .error .invalidAckRange else
    let rangeStart := rangeEnd - size
    decAckRest n rangeStart b ((rangeStart, rangeEnd + 1) :: acc)

def Packet.decode (b : Bytes) : Except SerErr (Packet × Bytes) := do
  let (ty, b) ← getU8 b
  match ty with
  | 0 => do
    let (seq, b) ← getVarint b
    let (ch, b) ← getU8 b
    let (n, b) ← getU16 b
    let (msgs, b) ← decSmallRel n b
    pure (.smallReliable seq ch msgs, b)
  | 1 => do
    let (seq, b) ← getVarint b
    let (ch, b) ← getU8 b
    let (n, b) ← getU16 b
    let (msgs, b) ← decSmallUnrel n b
    pure (.smallUnreliable seq ch msgs, b)
  | 2 => do
    let (seq, b) ← getVarint b
    let (ch, b) ← getU8 b
    let (id, b) ← getVarint b
    let (idx, b) ← getVarint b
    let (n, b) ← getVarint b
    if n = 0 ∨ n > C.MAX_NUM_SLICES then .error .invalidNumSlices else
    let (payload, b) ← getBytesVar b
    if payload.isEmpty then .error .emptySlice else
    if payload.length > C.SLICE_SIZE then .error .sliceSizeAboveLimit else
    pure (.reliableSlice seq ch ⟨id, idx, n, payload⟩, b)
  | 3 => do
    let (seq, b) ← getVarint b
    let (ch, b) ← getU8 b
    let (id, b) ← getVarint b
    let (idx, b) ← getVarint b
    let (n, b) ← getVarint b
    if n = 0 ∨ n > C.MAX_NUM_SLICES then .error .invalidNumSlices else
    let (payload, b) ← getBytesVar b
    pure (.unreliableSlice seq ch ⟨id, idx, n, payload⟩, b)
  | 4 => do
    let (seq, b) ← getVarint b
    let (firstEnd, b) ← getVarint b
    let (firstSize, b) ← getVarint b
    let (nRest, b) ← getVarint b
    if firstEnd < firstSize then .error .invalidAckRange else
    let firstStart := firstEnd - firstSize
    let (ranges, b) ← decAckRest nRest firstStart b [(firstStart, firstEnd + 1)]
    pure (.ack seq ranges, b)
  | _ => .error .invalidPacketType

/-- `Packet::from_bytes` (trailing bytes are ignored, as in the Rust code) -/
def Packet.fromBytes (b : Bytes) : Except SerErr Packet :=
  match Packet.decode b with
  | .ok (p, _) => .ok p
  | .error e => .error e

end RenetVerif
