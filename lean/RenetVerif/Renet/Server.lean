/- renet/src/server.rs : RenetServer (connection table + event queue) -/
import RenetVerif.Renet.Conn
namespace RenetVerif

inductive Event where
  | connected (id : Nat)
  | disconnected (id : Nat) (r : Reason)
  deriving Repr, DecidableEq

structure Server where
  conns : SMap Conn
  budget : Nat
  serverCh : List ChanCfg     -- server → client
  clientCh : List ChanCfg     -- client → server
  events : List Event
  deriving Repr

namespace Server

def new (budget : Nat) (serverCh clientCh : List ChanCfg) : Server := ⟨[], budget, serverCh, clientCh, []⟩

/-- `RenetClient::new_from_server` -/
def newConn (s : Server) : Conn := Conn.fromChannels s.budget s.serverCh s.clientCh
/-- `RenetClient::new` -/
def newClient (s : Server) : Conn := Conn.fromChannels s.budget s.clientCh s.serverCh

def addConnection (s : Server) (id : Nat) : Server :=
  if SMap.contains s.conns id then s else
  { s with conns := SMap.insert s.conns id s.newConn.setConnected, events := s.events ++ [.connected id] }

def getEvent (s : Server) : Server × Option Event :=
  match s.events with
  | [] => (s, none)
  | e :: rest => ({ s with events := rest }, some e)

def removeConnection (s : Server) (id : Nat) : Server :=
  match SMap.find? s.conns id with
  | none => s
  | some c => { s with conns := SMap.erase s.conns id,
                       events := s.events ++ [.disconnected id (c.disconnectReason.getD .transport)] }

def disconnect (s : Server) (id : Nat) : Server :=
  match SMap.find? s.conns id with
  | none => s
  | some c => { s with conns := SMap.insert s.conns id (c.disconnectWith .byServer) }

def disconnectAll (s : Server) : Server :=
  { s with conns := s.conns.map (fun (k, c) => (k, c.disconnectWith .byServer)) }

def mapConnsM (f : Nat → Conn → Res Empty Conn) : SMap Conn → Res Empty (SMap Conn)
  | [] => .ok []
  | (k, c) :: rest => do
    let c' ← f k c
    let rest' ← mapConnsM f rest
    pure ((k, c') :: rest')

def broadcast (s : Server) (ch : Nat) (m : Bytes) : Res Empty Server := do
  let cs ← mapConnsM (fun _ c => c.sendMessage ch m) s.conns
  pure { s with conns := cs }

def broadcastExcept (s : Server) (ex : Nat) (ch : Nat) (m : Bytes) : Res Empty Server := do
  let cs ← mapConnsM (fun k c => if k = ex then .ok c else c.sendMessage ch m) s.conns
  pure { s with conns := cs }

def sendMessage (s : Server) (id ch : Nat) (m : Bytes) : Res Empty Server :=
  match SMap.find? s.conns id with
  | none => .ok s
  | some c => do
    let c' ← c.sendMessage ch m
    pure { s with conns := SMap.insert s.conns id c' }

def receiveMessage (s : Server) (id ch : Nat) : Res Empty (Server × Option Bytes) :=
  match SMap.find? s.conns id with
  | none => .ok (s, none)
  | some c => do
    let (c', m) ← c.receiveMessage ch
    pure ({ s with conns := SMap.insert s.conns id c' }, m)

def clientsId (s : Server) : List Nat := (s.conns.filter (·.2.isConnected)).map (·.1)
def disconnectionsId (s : Server) : List Nat := (s.conns.filter (·.2.isDisconnected)).map (·.1)

def update (s : Server) (dt : Nat) : Res Empty Server := do
  let cs ← mapConnsM (fun _ c => c.update dt) s.conns
  pure { s with conns := cs }

/-- `none` = Err(ClientNotFound) -/
def getPacketsToSend (s : Server) (id : Nat) : Res Empty (Server × Option (List Bytes)) :=
  match SMap.find? s.conns id with
  | none => .ok (s, none)
  | some c => do
    let (c', ps) ← c.getPacketsToSend
    pure ({ s with conns := SMap.insert s.conns id c' }, some ps)

/-- `false` = Err(ClientNotFound) -/
def processPacketFrom (s : Server) (bytes : Bytes) (id : Nat) : Res Empty (Server × Bool) :=
  match SMap.find? s.conns id with
  | none => .ok (s, false)
  | some c => do
    let c' ← c.processPacket bytes
    pure ({ s with conns := SMap.insert s.conns id c' }, true)

def newLocalClient (s : Server) (id : Nat) : Server × Conn :=
  (s.addConnection id, s.newConn.setConnected)

/-- disconnect_local_client: reports the connection's stored first reason when there is one -/
def disconnectLocalClient (s : Server) (id : Nat) (cl : Conn) : Server × Conn :=
  if cl.isDisconnected then (s, cl) else
  let cl := cl.disconnectWith .byClient
  match SMap.find? s.conns id with
  | none => (s, cl)
  | some c => ({ s with conns := SMap.erase s.conns id,
                        events := s.events ++ [.disconnected id (c.disconnectReason.getD .byClient)] }, cl)

def feedClient (cl : Conn) : List Bytes → Res Empty Conn
  | [] => .ok cl
  | p :: rest => do
    let cl' ← cl.processPacket p
    feedClient cl' rest

def feedServer (s : Server) (id : Nat) : List Bytes → Res Empty (Server × Bool)
  | [] => .ok (s, true)
  | p :: rest => do
    let (s', ok) ← s.processPacketFrom p id
    if ok then feedServer s' id rest else pure (s', false)

/-- process_local_client; Bool = Ok(()) -/
def processLocalClient (s : Server) (id : Nat) (cl : Conn) : Res Empty (Server × Conn × Bool) := do
  let (s, ps) ← s.getPacketsToSend id
  match ps with
  | none => pure (s, cl, false)
  | some ps => do
    let cl ← feedClient cl ps
    let (cl, out) ← cl.getPacketsToSend
    let (s, ok) ← feedServer s id out
    pure (s, cl, ok)

end Server
end RenetVerif
