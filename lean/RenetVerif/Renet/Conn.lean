/- renet/src/remote_connection.rs : RenetClient -/
import RenetVerif.Renet.Channels
import RenetVerif.Renet.Acks
namespace RenetVerif
open C

inductive Reason where
  | transport | byClient | byServer
  | packetSer (e : SerErr) | packetDeser (e : SerErr)
  | invalidChannel (ch : Nat)
  | sendChan (ch : Nat) (e : ChanErr)
  | recvChan (ch : Nat) (e : ChanErr)
  deriving Repr, DecidableEq

def Reason.name : Reason → String
  | .transport => "Transport"
  | .byClient => "DisconnectedByClient"
  | .byServer => "DisconnectedByServer"
  | .packetSer e => s!"PacketSerialization({e.name})"
  | .packetDeser e => s!"PacketDeserialization({e.name})"
  | .invalidChannel ch => s!"ReceivedInvalidChannelId({ch})"
  | .sendChan ch e => s!"SendChannelError({ch},{e.name})"
  | .recvChan ch e => s!"ReceiveChannelError({ch},{e.name})"

inductive Status where
  | connected | connecting | disconnected (r : Reason)
  deriving Repr, DecidableEq

inductive SentInfo where
  | none
  | relMsgs (ch : Nat) (ids : List Nat)
  | relSlice (ch id idx : Nat)
  | ack (largest : Nat)
  deriving Repr, DecidableEq

inductive Kind where
  | unreliable | ordered | unordered
  deriving Repr, DecidableEq

structure ChanCfg where
  id : Nat
  kind : Kind
  maxMem : Nat
  resend : Nat    -- nanoseconds (ignored for unreliable)
  deriving Repr, DecidableEq

structure Conn where
  packetSeq : Nat
  now : Nat
  sent : SMap (Nat × SentInfo)
  pendingAcks : List AckRange
  order : List (Bool × Nat)          -- (reliable?, channel id), configuration order
  sendUnrel : SMap SendUnrel
  recvUnrel : SMap RecvUnrel
  sendRel : SMap SendRel
  recvRel : SMap RecvRel
  budget : Nat
  status : Status
  deriving Repr, DecidableEq

namespace Conn

def fromChannels (budget : Nat) (send recv : List ChanCfg) : Conn :=
  { packetSeq := 0, now := 0, sent := [], pendingAcks := [],
    order := send.map (fun c => (c.kind != .unreliable, c.id)),
    sendUnrel := (send.filter (·.kind == .unreliable)).foldl (fun m c => SMap.insert m c.id (SendUnrel.new c.id c.maxMem)) [],
    sendRel := (send.filter (·.kind != .unreliable)).foldl (fun m c => SMap.insert m c.id (SendRel.new c.id c.resend c.maxMem)) [],
    recvUnrel := (recv.filter (·.kind == .unreliable)).foldl (fun m c => SMap.insert m c.id (RecvUnrel.new c.id c.maxMem)) [],
    recvRel := (recv.filter (·.kind != .unreliable)).foldl (fun m c => SMap.insert m c.id (RecvRel.new c.maxMem (c.kind == .ordered))) [],
    budget := budget, status := .connecting }

def isDisconnected (c : Conn) : Bool := match c.status with | .disconnected _ => true | _ => false
def isConnected (c : Conn) : Bool := match c.status with | .connected => true | _ => false

def disconnectWith (c : Conn) (r : Reason) : Conn :=
  if c.isDisconnected then c else { c with status := .disconnected r }

def setConnected (c : Conn) : Conn := if c.isDisconnected then c else { c with status := .connected }
def setConnecting (c : Conn) : Conn := if c.isDisconnected then c else { c with status := .connecting }

def disconnectReason (c : Conn) : Option Reason := match c.status with | .disconnected r => some r | _ => none

/-- `channel_available_memory`; `panic` = invalid channel id -/
def availableMemory (c : Conn) (ch : Nat) : Res Empty Nat :=
  match SMap.find? c.sendRel ch with
  | some s => .ok s.available
  | none => match SMap.find? c.sendUnrel ch with
    | some s => .ok s.available
    | none => .panic "channel_available_memory: invalid channel"

def sendMessage (c : Conn) (ch : Nat) (m : Bytes) : Res Empty Conn :=
  if c.isDisconnected then .ok c else
  match SMap.find? c.sendRel ch with
  | some s =>
    match s.sendMessage m with
    | .ok s' => .ok { c with sendRel := SMap.insert c.sendRel ch s' }
    | .error e => .ok (c.disconnectWith (.sendChan ch e))
  | none => match SMap.find? c.sendUnrel ch with
    | some s => .ok { c with sendUnrel := SMap.insert c.sendUnrel ch (s.sendMessage m) }
    | none => .panic "send_message: invalid channel"

def receiveMessage (c : Conn) (ch : Nat) : Res Empty (Conn × Option Bytes) :=
  if c.isDisconnected then .ok (c, none) else
  match SMap.find? c.recvRel ch with
  | some r => do
    let (r', m) ← r.receive
    pure ({ c with recvRel := SMap.insert c.recvRel ch r' }, m)
  | none => match SMap.find? c.recvUnrel ch with
    | some r => do
      let (r', m) ← r.receive
      pure ({ c with recvUnrel := SMap.insert c.recvUnrel ch r' }, m)
    | none => .panic "receive_message: invalid channel"

def discardAll (now : Nat) : SMap RecvUnrel → Res Empty (SMap RecvUnrel)
  | [] => .ok []
  | (k, r) :: rest => do
    let r' ← r.discardOld now
    let rest' ← discardAll now rest
    pure ((k, r') :: rest')

def update (c : Conn) (dt : Nat) : Res Empty Conn := do
  let now := c.now + dt
  let ru ← discardAll now c.recvUnrel
  -- lost packets: leading entries (in sequence order) older than DISCARD_AFTER
  let sent := c.sent.dropWhile (fun (_, (t, _)) => now - t ≥ DISCARD_AFTER_NS)
  pure { c with now := now, recvUnrel := ru, sent := sent }

/-! #### process_packet -/
def relMsgLoop (r : RecvRel) : List (Nat × Bytes) → RecvRelRes
  | [] => .ok r
  | (id, m) :: rest =>
    match r.processMessage m id with
    | .ok r' => relMsgLoop r' rest
    | .err e => .err e
    | .panic s => .panic s

def ackMsgLoop (s : SendRel) : List Nat → Res Empty SendRel
  | [] => .ok s
  | id :: rest => do
    let s' ← s.processMessageAck id
    ackMsgLoop s' rest

def ackOne (c : Conn) (seq : Nat) : Res Empty Conn :=
  match SMap.find? c.sent seq with
  | none => .panic "remote_connection.rs sent_packets.remove(seq).unwrap()"
  | some (_, info) =>
    let c := { c with sent := SMap.erase c.sent seq }
    match info with
    | .relMsgs ch ids =>
      match SMap.find? c.sendRel ch with
      | none => .panic "remote_connection.rs send_reliable_channels.get_mut(ch).unwrap()"
      | some s => do
        let s' ← ackMsgLoop s ids
        pure { c with sendRel := SMap.insert c.sendRel ch s' }
    | .relSlice ch id idx =>
      match SMap.find? c.sendRel ch with
      | none => .panic "remote_connection.rs send_reliable_channels.get_mut(ch).unwrap()"
      | some s => do
        let s' ← s.processSliceAck id idx
        pure { c with sendRel := SMap.insert c.sendRel ch s' }
    | .ack largest => .ok { c with pendingAcks := Acks.ackedLargest largest c.pendingAcks }
    | .none => .ok c

def ackLoop (c : Conn) : List Nat → Res Empty Conn
  | [] => .ok c
  | seq :: rest => do
    let c' ← ackOne c seq
    ackLoop c' rest

/-- `for range in ack_ranges { for (&sequence, _) in self.sent_packets.range(range) {..} }` -/
def newAcks (sent : SMap (Nat × SentInfo)) : List AckRange → Res Empty (List Nat)
  | [] => .ok []
  | (s, e) :: rest =>
    if s > e then .panic "BTreeMap::range start is greater than range end" else do
    let here := (sent.filter (fun (k, _) => s ≤ k ∧ k < e)).map (·.1)
    let more ← newAcks sent rest
    pure (here ++ more)

def processPacket (c : Conn) (bytes : Bytes) : Res Empty Conn :=
  if c.isDisconnected then .ok c else
  match Packet.fromBytes bytes with
  | .error e => .ok (c.disconnectWith (.packetDeser e))
  | .ok p =>
    let c := { c with pendingAcks := Acks.add ACK_RANGE_CAP p.sequence c.pendingAcks }
    match p with
    | .smallReliable _ ch msgs =>
      match SMap.find? c.recvRel ch with
      | none => .ok (c.disconnectWith (.invalidChannel ch))
      | some r =>
        match relMsgLoop r msgs with
        | .ok r' => .ok { c with recvRel := SMap.insert c.recvRel ch r' }
        | .err (e, r') => .ok ({ c with recvRel := SMap.insert c.recvRel ch r' }.disconnectWith (.recvChan ch e))
        | .panic s => .panic s
    | .smallUnreliable _ ch msgs =>
      match SMap.find? c.recvUnrel ch with
      | none => .ok (c.disconnectWith (.invalidChannel ch))
      | some r => .ok { c with recvUnrel := SMap.insert c.recvUnrel ch (msgs.foldl RecvUnrel.processMessage r) }
    | .reliableSlice _ ch sl =>
      match SMap.find? c.recvRel ch with
      | none => .ok (c.disconnectWith (.invalidChannel ch))
      | some r =>
        match r.processSlice sl with
        | .ok r' => .ok { c with recvRel := SMap.insert c.recvRel ch r' }
        | .err (e, r') => .ok ({ c with recvRel := SMap.insert c.recvRel ch r' }.disconnectWith (.recvChan ch e))
        | .panic s => .panic s
    | .unreliableSlice _ ch sl =>
      match SMap.find? c.recvUnrel ch with
      | none => .ok (c.disconnectWith (.invalidChannel ch))
      | some r =>
        match r.processSlice sl c.now with
        | .ok r' => .ok { c with recvUnrel := SMap.insert c.recvUnrel ch r' }
        | .err (e, r') => .ok ({ c with recvUnrel := SMap.insert c.recvUnrel ch r' }.disconnectWith (.recvChan ch e))
        | .panic s => .panic s
    | .ack _ ranges => do
      let acks ← newAcks c.sent ranges
      ackLoop c acks

/-! #### get_packets_to_send -/
def chanLoop (now : Nat) : List (Bool × Nat) → (SMap SendRel × SMap SendUnrel × List Packet × Nat × Nat) →
    Res Empty (SMap SendRel × SMap SendUnrel × List Packet × Nat × Nat)
  | [], st => .ok st
  | (true, ch) :: rest, (sr, su, pk, seq, avail) =>
    match SMap.find? sr ch with
    | none => .panic "remote_connection.rs send_reliable_channels.get_mut(channel_id).unwrap()"
    | some s =>
      let (s', ps, seq', avail') := s.getPackets seq avail now
      chanLoop now rest (SMap.insert sr ch s', su, pk ++ ps, seq', avail')
  | (false, ch) :: rest, (sr, su, pk, seq, avail) =>
    match SMap.find? su ch with
    | none => .panic "remote_connection.rs send_unreliable_channels.get_mut(channel_id).unwrap()"
    | some s =>
      let (s', ps, seq', avail') := s.getPackets seq avail
      chanLoop now rest (sr, SMap.insert su ch s', pk ++ ps, seq', avail')

def sentInfoOf : Packet → Res Empty SentInfo
  | .smallReliable _ ch msgs => .ok (.relMsgs ch (msgs.map (·.1)))
  | .reliableSlice _ ch sl => .ok (.relSlice ch sl.messageId sl.sliceIndex)
  | .smallUnreliable .. => .ok .none
  | .unreliableSlice .. => .ok .none
  | .ack _ ranges =>
    match ranges.getLast? with
    | none => .panic "remote_connection.rs ack_ranges.last().unwrap()"
    | some (_, e) => do
      let l ← Res.csub e 1 "remote_connection.rs last_range.end - 1"
      pure (.ack l)

def recordSent (now : Nat) : List Packet → SMap (Nat × SentInfo) → Res Empty (SMap (Nat × SentInfo))
  | [], m => .ok m
  | p :: rest, m => do
    let info ← sentInfoOf p
    recordSent now rest (SMap.insert m p.sequence (now, info))

/-- serialise each packet into the `[0u8; SER_BUFFER]` scratch buffer -/
def serialiseAll : List Packet → Res SerErr (List Bytes)
  | [] => .ok []
  | p :: rest => do
    let b ← p.toBytes SER_BUFFER
    let bs ← serialiseAll rest
    pure (b :: bs)

def getPacketsToSend (c : Conn) : Res Empty (Conn × List Bytes) :=
  if c.isDisconnected then .ok (c, []) else do
  let (sr, su, pk, seq, _) ← chanLoop c.now c.order (c.sendRel, c.sendUnrel, [], c.packetSeq, c.budget)
  let (pk, seq) := if c.pendingAcks.isEmpty then (pk, seq) else (pk ++ [Packet.ack seq c.pendingAcks], seq + 1)
  let sent ← recordSent c.now pk c.sent
  let c := { c with sendRel := sr, sendUnrel := su, packetSeq := seq, sent := sent }
  match serialiseAll pk with
  | .ok bs => pure (c, bs)
  | .err e => pure (c.disconnectWith (.packetSer e), [])
  | .panic s => .panic s

end Conn
end RenetVerif
