/-
  The AEAD the netcode model is parametric in.  Argument order everywhere: key nonce aad text.
  `seal` returns ciphertext ‖ 16-byte tag, `open` takes ciphertext ‖ tag.
  `x…` = the 24-byte-nonce variant used for the private connect token.
  Only the driver instantiates it (with ChaCha20-Poly1305 / XChaCha20-Poly1305).
-/
import RenetVerif.Base.Res
import RenetVerif.Netcode.ChaCha
namespace RenetVerif.Netcode

structure AEAD where
  «seal»  : Bytes → Bytes → Bytes → Bytes → Bytes
  «open»  : Bytes → Bytes → Bytes → Bytes → Option Bytes
  xseal : Bytes → Bytes → Bytes → Bytes → Bytes
  xopen : Bytes → Bytes → Bytes → Bytes → Option Bytes

def AEAD.chacha : AEAD where
  «seal» := ChaCha.seal
  «open» := ChaCha.open
  xseal := ChaCha.xseal
  xopen := ChaCha.xopen

end RenetVerif.Netcode
