/-
  The AEAD the netcode model is parametric in.  Argument order everywhere: key nonce aad text.
  `seal` returns ciphertext ‖ 16-byte tag, `open` takes ciphertext ‖ tag.
  `x…` = the 24-byte-nonce variant used for the private connect token.
  Only the driver instantiates it (with ChaCha20-Poly1305 / XChaCha20-Poly1305).
-/
import RenetVerif.Base.Res
import RenetVerif.Netcode.ChaCha2
namespace RenetVerif.Netcode

structure AEAD where
  «seal»  : Bytes → Bytes → Bytes → Bytes → Bytes
  «open»  : Bytes → Bytes → Bytes → Bytes → Option Bytes
  xseal : Bytes → Bytes → Bytes → Bytes → Bytes
  xopen : Bytes → Bytes → Bytes → Bytes → Option Bytes

def AEAD.chacha : AEAD where
  «seal» := ChaCha2.seal
  «open» := ChaCha2.open
  xseal := ChaCha2.xseal
  xopen := ChaCha2.xopen

/-- The functional laws the netcode theorems may assume of the AEAD (no authenticity claim: that is a
    per-run `NoForgery` hypothesis, never a law).  `MAC = 16` bytes. -/
structure AEAD.Laws (a : AEAD) : Prop where
  open_seal : ∀ k n ad p, a.open k n ad (a.seal k n ad p) = some p
  seal_length : ∀ k n ad p, (a.seal k n ad p).length = p.length + 16
  open_length : ∀ k n ad c p, a.open k n ad c = some p → p.length + 16 = c.length
  xopen_xseal : ∀ k n ad p, a.xopen k n ad (a.xseal k n ad p) = some p
  xseal_length : ∀ k n ad p, (a.xseal k n ad p).length = p.length + 16
  xopen_length : ∀ k n ad c p, a.xopen k n ad c = some p → p.length + 16 = c.length

/-- A toy instance (identity cipher, constant tag) showing the laws are satisfiable. -/
def AEAD.toy : AEAD where
  «seal» _ _ _ p := p ++ List.replicate 16 0
  «open» _ _ _ c :=
    if c.length < 16 then none
    else if c.drop (c.length - 16) = List.replicate 16 0 then some (c.take (c.length - 16)) else none
  xseal _ _ _ p := p ++ List.replicate 16 0
  xopen _ _ _ c :=
    if c.length < 16 then none
    else if c.drop (c.length - 16) = List.replicate 16 0 then some (c.take (c.length - 16)) else none

theorem AEAD.toy_laws : AEAD.toy.Laws := by
  have hlen : ∀ (c p : Bytes), (if c.length < 16 then none
      else if c.drop (c.length - 16) = List.replicate 16 0 then some (c.take (c.length - 16)) else none) = some p →
      p.length + 16 = c.length := by
    intro c p h
    by_cases hc : c.length < 16
    · simp [hc] at h
    · simp only [hc, if_false] at h
      split at h
      · cases h; simp [List.length_take]; omega
      · cases h
  refine ⟨?_, ?_, ?_, ?_, ?_, ?_⟩
  · intro k n ad p; simp [AEAD.toy]
  · intro k n ad p; simp [AEAD.toy]
  · intro k n ad c p h; exact hlen c p h
  · intro k n ad p; simp [AEAD.toy]
  · intro k n ad p; simp [AEAD.toy]
  · intro k n ad c p h; exact hlen c p h

end RenetVerif.Netcode
