/-
  renetcode/src/server.rs : NetcodeServer.
  `clients: Box<[Option<Connection>]>` is a list of slots, `pending_clients: HashMap<SocketAddr, _>` an
  association list (iteration order is never observable), `connect_token_entries` a list of 2048 slots.
  The random `challenge_key` is a constructor argument.
  Functions that return `Err` after having changed the state return the state inside the error.
-/
import RenetVerif.Netcode.Token
namespace RenetVerif.Netcode

inductive ConnectionState where
  | disconnected | pendingResponse | connected
  deriving Repr, DecidableEq

def ConnectionState.name : ConnectionState → String
  | .disconnected => "Disconnected" | .pendingResponse => "PendingResponse" | .connected => "Connected"

structure Connection where
  confirmed : Bool
  clientId : Nat
  state : ConnectionState
  sendKey : Bytes
  receiveKey : Bytes
  userData : Bytes
  addr : Addr
  lastPacketReceivedTime : Nat
  lastPacketSendTime : Nat
  timeoutSeconds : Int
  sequence : Nat
  expireTimestamp : Nat
  replayProtection : RP
  deriving Repr, DecidableEq

structure ConnectTokenEntry where
  time : Nat
  address : Addr
  mac : Bytes
  deriving Repr, DecidableEq

structure NetcodeServer where
  clients : List (Option Connection)
  pendingClients : List (Addr × Connection)
  connectTokenEntries : List (Option ConnectTokenEntry)
  protocolId : Nat
  connectKey : Bytes
  maxClients : Nat
  challengeSequence : Nat
  challengeKey : Bytes
  publicAddresses : List Addr
  currentTime : Nat
  globalSequence : Nat
  secure : Bool
  deriving Repr

inductive ServerResult where
  | none
  | packetToSend (addr : Addr) (payload : Bytes)
  | payload (clientId : Nat) (payload : Bytes)
  | clientConnected (clientId : Nat) (addr : Addr) (userData : Bytes) (payload : Bytes)
  | clientDisconnected (clientId : Nat) (addr : Addr) (payload : Option Bytes)
  deriving Repr, DecidableEq

/-! ### slot / map helpers (the free functions at the end of server.rs) -/

def findClientById (clients : List (Option Connection)) (clientId : Nat) : Option Connection :=
  match clients with
  | [] => none
  | some c :: rest => if c.clientId = clientId then some c else findClientById rest clientId
  | none :: rest => findClientById rest clientId

def findClientSlotById (clients : List (Option Connection)) (clientId : Nat) : Option Nat :=
  go clients 0
where
  go : List (Option Connection) → Nat → Option Nat
    | [], _ => none
    | some c :: rest, i => if c.clientId = clientId then some i else go rest (i + 1)
    | none :: rest, i => go rest (i + 1)

def findClientByAddr (clients : List (Option Connection)) (addr : Addr) : Option (Nat × Connection) :=
  go clients 0
where
  go : List (Option Connection) → Nat → Option (Nat × Connection)
    | [], _ => none
    | some c :: rest, i => if c.addr = addr then some (i, c) else go rest (i + 1)
    | none :: rest, i => go rest (i + 1)

/-- `clients.iter().position(|c| c.is_none())` -/
def firstFreeSlot (clients : List (Option Connection)) : Option Nat :=
  go clients 0
where
  go : List (Option Connection) → Nat → Option Nat
    | [], _ => none
    | none :: _, i => some i
    | some _ :: rest, i => go rest (i + 1)

def countConnected (clients : List (Option Connection)) : Nat :=
  (clients.filter Option.isSome).length

def pendingFind (m : List (Addr × Connection)) (addr : Addr) : Option Connection :=
  match m with
  | [] => none
  | (a, c) :: rest => if a = addr then some c else pendingFind rest addr

def pendingRemove (m : List (Addr × Connection)) (addr : Addr) : List (Addr × Connection) :=
  m.filter fun p => p.1 ≠ addr

/-- insert or replace -/
def pendingSet (m : List (Addr × Connection)) (addr : Addr) (c : Connection) : List (Addr × Connection) :=
  match m with
  | [] => [(addr, c)]
  | (a, c') :: rest => if a = addr then (a, c) :: rest else (a, c') :: pendingSet rest addr c

namespace NetcodeServer

/-- `NetcodeServer::new` -/
def new (currentTime maxClients protocolId : Nat) (publicAddresses : List Addr) (secure : Bool)
    (privateKey : Bytes) (challengeKey : Bytes) : Res Empty NetcodeServer :=
  if maxClients > C.NETCODE_MAX_CLIENTS then .panic "server.rs new: The max clients allowed is 1024" else
  .ok { clients := List.replicate maxClients none
        pendingClients := []
        connectTokenEntries := List.replicate C.NETCODE_TOKEN_ENTRIES none
        protocolId
        connectKey := if secure then privateKey else List.replicate C.NETCODE_KEY_BYTES 0
        maxClients
        challengeSequence := 0
        challengeKey
        publicAddresses
        currentTime
        globalSequence := C.NETCODE_GLOBAL_SEQUENCE_START
        secure }

def addresses (s : NetcodeServer) : List Addr := s.publicAddresses

/-- scan state of `find_or_add_connect_token_entry` -/
structure EntryScan where
  min : Nat
  oldestEntry : Nat
  emptyEntry : Bool
  matchingEntry : Option ConnectTokenEntry

def scanEntries (mac : Bytes) : List (Option ConnectTokenEntry) → Nat → EntryScan → EntryScan
  | [], _, st => st
  | some e :: rest, i, st =>
    let st := if e.mac = mac then { st with matchingEntry := some e } else st
    let st := if !st.emptyEntry ∧ e.time < st.min then { st with oldestEntry := i, min := e.time } else st
    scanEntries mac rest (i + 1) st
  | none :: rest, i, st =>
    let st := if !st.emptyEntry then { st with emptyEntry := true, oldestEntry := i } else st
    scanEntries mac rest (i + 1) st

/-- `find_or_add_connect_token_entry` -/
def findOrAddConnectTokenEntry (s : NetcodeServer) (newEntry : ConnectTokenEntry) : NetcodeServer × Bool :=
  let st := scanEntries newEntry.mac s.connectTokenEntries 0 ⟨DURATION_MAX, 0, false, none⟩
  match st.matchingEntry with
  | some e => (s, e.address = newEntry.address)
  | none => ({ s with connectTokenEntries := s.connectTokenEntries.set st.oldestEntry (some newEntry) }, true)

def userData (s : NetcodeServer) (clientId : Nat) : Option Bytes :=
  (findClientById s.clients clientId).map (·.userData)

/-- `time_since_last_received_packet` (`Duration - Duration` panics on underflow) -/
def timeSinceLastReceivedPacket (s : NetcodeServer) (clientId : Nat) : Res Empty (Option Nat) :=
  match findClientById s.clients clientId with
  | some c => do
    let t ← Res.csub s.currentTime c.lastPacketReceivedTime "server.rs time_since_last_received_packet: Duration sub"
    pure (some t)
  | none => .ok none

def clientAddr (s : NetcodeServer) (clientId : Nat) : Option Addr :=
  (findClientById s.clients clientId).map (·.addr)

abbrev SRes := Res (NetcodeError × NetcodeServer) (ServerResult × NetcodeServer)

/-- `?` on a `Result<_, NetcodeError>` while the server state is `s` -/
def lift {α} (s : NetcodeServer) : NRes α → Res (NetcodeError × NetcodeServer) α
  | .ok a => .ok a
  | .err e => .err (e, s)
  | .panic m => .panic m

/-- `handle_connection_request` -/
def handleConnectionRequest (a : AEAD) (s : NetcodeServer) (addr : Addr) (versionInfo : Bytes) (protocolId : Nat)
    (expireTimestamp : Nat) (xnonce : Bytes) (data : Bytes) : SRes :=
  if versionInfo ≠ C.NETCODE_VERSION_INFO then .err (.invalidVersion, s) else
  if protocolId ≠ s.protocolId then .err (.invalidProtocolID, s) else
  if asSecs s.currentTime ≥ expireTimestamp then .err (.expired, s) else
  match PrivateConnectToken.decode a data s.protocolId expireTimestamp xnonce s.connectKey with
  | .panic m => .panic m
  | .err e => .err (.tokenGenerationError e, s)
  | .ok connectToken =>
    let inHostList := connectToken.serverAddresses.any fun h =>
      match h with
      | some x => s.publicAddresses.contains x
      | none => false
    if s.secure ∧ !inHostList then .err (.notInHostList, s) else
    let addrAlreadyConnected := (findClientByAddr s.clients addr).isSome
    let idAlreadyConnected := (findClientById s.clients connectToken.clientId).isSome
    if idAlreadyConnected ∨ addrAlreadyConnected then .ok (.none, s) else
    if (pendingFind s.pendingClients addr).isNone ∧ s.pendingClients.length ≥ C.NETCODE_MAX_PENDING_CLIENTS then
      .ok (.none, s) else
    let mac := data.drop (C.NETCODE_CONNECT_TOKEN_PRIVATE_BYTES - C.NETCODE_MAC_BYTES)
    let (s, added) := s.findOrAddConnectTokenEntry { address := addr, time := s.currentTime, mac }
    if !added then .ok (.none, s) else
    if countConnected s.clients ≥ s.maxClients then do
      let s := { s with pendingClients := pendingRemove s.pendingClients addr }
      let out ← lift s (Packet.connectionDenied.encode a C.NETCODE_MAX_PACKET_BYTES s.protocolId
                          (some (s.globalSequence, connectToken.serverToClientKey)))
      let g ← incU64 s.globalSequence "server.rs handle_connection_request: global_sequence += 1"
      pure (.packetToSend addr out, { s with globalSequence := g })
    else do
      let cs ← incU64 s.challengeSequence "server.rs handle_connection_request: challenge_sequence += 1"
      let s := { s with challengeSequence := cs }
      let packet ← lift s (ChallengeToken.generate a connectToken.clientId connectToken.userData cs s.challengeKey)
      let out ← lift s (packet.encode a C.NETCODE_MAX_PACKET_BYTES s.protocolId
                          (some (s.globalSequence, connectToken.serverToClientKey)))
      let g ← incU64 s.globalSequence "server.rs handle_connection_request: global_sequence += 1"
      let s := { s with globalSequence := g }
      -- `pending_clients.insert(addr, ..)`: a request always (re)starts the handshake of its address
      let pending : Connection :=
        { confirmed := false, sequence := 0, clientId := connectToken.clientId
          lastPacketReceivedTime := s.currentTime, lastPacketSendTime := s.currentTime, addr
          state := .pendingResponse, sendKey := connectToken.serverToClientKey
          receiveKey := connectToken.clientToServerKey, timeoutSeconds := connectToken.timeoutSeconds
          expireTimestamp, userData := connectToken.userData, replayProtection := RP.new }
      pure (.packetToSend addr out, { s with pendingClients := pendingSet s.pendingClients addr pending })

/-- `generate_payload_packet` -/
def generatePayloadPacket (a : AEAD) (s : NetcodeServer) (clientId : Nat) (payload : Bytes) :
    NRes ((Addr × Bytes) × NetcodeServer) :=
  if payload.length > C.NETCODE_MAX_PAYLOAD_BYTES then .err .payloadAboveLimit else
  match findClientSlotById s.clients clientId, findClientById s.clients clientId with
  | some slot, some client => do
    let out ← (Packet.payload payload).encode a C.NETCODE_MAX_PACKET_BYTES s.protocolId (some (client.sequence, client.sendKey))
    let sq ← incU64 client.sequence "server.rs generate_payload_packet: client.sequence += 1"
    let client := { client with sequence := sq, lastPacketSendTime := s.currentTime }
    pure ((client.addr, out), { s with clients := s.clients.set slot (some client) })
  | _, _ => .err .clientNotFound

/-- `process_packet_internal` -/
def processPacketInternal (a : AEAD) (s : NetcodeServer) (addr : Addr) (buffer : Bytes) : SRes :=
  if buffer.length < 2 + C.NETCODE_MAC_BYTES then .err (.packetTooSmall, s) else
  -- connected client
  match findClientByAddr s.clients addr with
  | some (slot, client) =>
    let (r, rp) := Packet.decode a buffer s.protocolId (some client.receiveKey) (some client.replayProtection)
    let client := { client with replayProtection := rp.getD client.replayProtection }
    let s := { s with clients := s.clients.set slot (some client) }
    match r with
    | .panic m => .panic m
    | .err e => .err (e, s)
    | .ok (_, packet) =>
      match client.state with
      | .connected =>
        match packet with
        | .disconnect =>
          .ok (.clientDisconnected client.clientId addr none, { s with clients := s.clients.set slot none })
        | .payload p =>
          let client := { client with lastPacketReceivedTime := s.currentTime, confirmed := true }
          .ok (.payload client.clientId p, { s with clients := s.clients.set slot (some client) })
        | .keepAlive .. =>
          let client := { client with lastPacketReceivedTime := s.currentTime, confirmed := true }
          .ok (.none, { s with clients := s.clients.set slot (some client) })
        | _ => .ok (.none, s)
      | _ => .ok (.none, s)
  | none =>
  -- pending client
  match pendingFind s.pendingClients addr with
  | some pending =>
    let (r, rp) := Packet.decode a buffer s.protocolId (some pending.receiveKey) (some pending.replayProtection)
    let pending := { pending with replayProtection := rp.getD pending.replayProtection }
    let s := { s with pendingClients := pendingSet s.pendingClients addr pending }
    match r with
    | .panic m => .panic m
    | .err e => .err (e, s)
    | .ok (_, packet) =>
      let pending := { pending with lastPacketReceivedTime := s.currentTime }
      let s := { s with pendingClients := pendingSet s.pendingClients addr pending }
      match packet with
      | .connectionRequest versionInfo protocolId expireTimestamp xnonce data =>
        handleConnectionRequest a s addr versionInfo protocolId expireTimestamp xnonce data
      | .response tokenSequence tokenData => do
        let challengeToken ← lift s (ChallengeToken.decode a tokenData tokenSequence s.challengeKey)
        if challengeToken.clientId ≠ pending.clientId ∨ challengeToken.userData ≠ pending.userData then
          pure (.none, s)
        else
        let s := { s with pendingClients := pendingRemove s.pendingClients addr }
        if (findClientSlotById s.clients challengeToken.clientId).isSome then pure (.none, s) else
        match firstFreeSlot s.clients with
        | none =>
          let out ← lift s (Packet.connectionDenied.encode a C.NETCODE_MAX_PACKET_BYTES s.protocolId
                              (some (s.globalSequence, pending.sendKey)))
          let g ← incU64 s.globalSequence "server.rs process_packet_internal: global_sequence += 1"
          pure (.packetToSend addr out, { s with globalSequence := g })
        | some clientIndex =>
          let pending := { pending with state := .connected, userData := challengeToken.userData
                                        lastPacketSendTime := s.currentTime }
          let packet := Packet.keepAlive (clientIndex % 2 ^ 32) (s.maxClients % 2 ^ 32)
          let out ← lift s (packet.encode a C.NETCODE_MAX_PACKET_BYTES s.protocolId (some (pending.sequence, pending.sendKey)))
          let sq ← incU64 pending.sequence "server.rs process_packet_internal: pending.sequence += 1"
          let pending := { pending with sequence := sq }
          pure (.clientConnected pending.clientId addr pending.userData out,
                { s with clients := s.clients.set clientIndex (some pending) })
      | _ => .ok (.none, s)
  | none =>
  -- new client
  let (r, _) := Packet.decode a buffer s.protocolId none none
  match r with
  | .panic m => .panic m
  | .err e => .err (e, s)
  | .ok (_, packet) =>
    match packet with
    | .connectionRequest versionInfo protocolId expireTimestamp xnonce data =>
      handleConnectionRequest a s addr versionInfo protocolId expireTimestamp xnonce data
    | _ => .panic "server.rs process_packet_internal: unreachable!(decode without key)"

/-- `process_packet`: errors are logged and become `ServerResult::None` (state changes made before the error stay) -/
def processPacket (a : AEAD) (s : NetcodeServer) (addr : Addr) (buffer : Bytes) : Res Empty (ServerResult × NetcodeServer) :=
  match processPacketInternal a s addr buffer with
  | .ok r => .ok r
  | .err (_, s') => .ok (.none, s')
  | .panic m => .panic m

/-- the error `process_packet` swallowed (observable only through `log::error!`) -/
def processPacketError (a : AEAD) (s : NetcodeServer) (addr : Addr) (buffer : Bytes) : Option NetcodeError :=
  match processPacketInternal a s addr buffer with
  | .err (e, _) => some e
  | _ => none

def clientsSlot (s : NetcodeServer) : List Nat :=
  (List.range s.clients.length).filter fun i => (s.clients.getD i none).isSome

/-- `clients_id` (slot order) -/
def clientsId (s : NetcodeServer) : List Nat := s.clients.filterMap fun c => c.map (·.clientId)

/-- `set_max_clients` (repaired: grows the slot table) -/
def setMaxClients (s : NetcodeServer) (maxClients : Nat) : NetcodeServer :=
  let maxClients := min maxClients C.NETCODE_MAX_CLIENTS
  let clients := if maxClients > s.clients.length
    then s.clients ++ List.replicate (maxClients - s.clients.length) none else s.clients
  { s with clients, maxClients }

def connectedClients (s : NetcodeServer) : Nat := countConnected s.clients

/-- `update` -/
def update (s : NetcodeServer) (duration : Nat) : Res Empty NetcodeServer := do
  let now ← durAdd s.currentTime duration "server.rs update: current_time += duration"
  pure { s with currentTime := now
                pendingClients := s.pendingClients.filter fun p => !(asSecs now > p.2.expireTimestamp) }

/-- `update_client` -/
def updateClient (a : AEAD) (s : NetcodeServer) (clientId : Nat) : Res Empty (ServerResult × NetcodeServer) :=
  match findClientSlotById s.clients clientId with
  | none => .ok (.none, s)
  | some slot =>
    match s.clients.getD slot none with
    | none => .ok (.none, s)
    | some client => do
      let timedOut ← (if client.timeoutSeconds > 0 then do
          let deadline ← durAdd client.lastPacketReceivedTime (fromSecs client.timeoutSeconds.toNat)
                           "server.rs update_client: last_packet_received_time + timeout"
          pure (decide (deadline < s.currentTime))
        else pure false : Res Empty Bool)
      let client := if timedOut then { client with state := .disconnected } else client
      if client.state = .disconnected then
        let s := { s with clients := s.clients.set slot none }
        match Packet.disconnect.encode a C.NETCODE_MAX_PACKET_BYTES s.protocolId (some (client.sequence, client.sendKey)) with
        | .panic m => .panic m
        | .err _ => pure (.clientDisconnected clientId client.addr none, s)
        | .ok out => pure (.clientDisconnected clientId client.addr (some out), s)
      else do
        let due ← durAdd client.lastPacketSendTime C.NETCODE_SEND_RATE_NS "server.rs update_client: last_packet_send_time + SEND_RATE"
        if due ≤ s.currentTime then
          let packet := Packet.keepAlive (slot % 2 ^ 32) (s.maxClients % 2 ^ 32)
          match packet.encode a C.NETCODE_MAX_PACKET_BYTES s.protocolId (some (client.sequence, client.sendKey)) with
          | .panic m => .panic m
          | .err _ => pure (.none, s)
          | .ok out =>
            let sq ← incU64 client.sequence "server.rs update_client: client.sequence += 1"
            let client := { client with sequence := sq, lastPacketSendTime := s.currentTime }
            pure (.packetToSend client.addr out, { s with clients := s.clients.set slot (some client) })
        else pure (.none, s)

def isClientConnected (s : NetcodeServer) (clientId : Nat) : Bool :=
  (findClientSlotById s.clients clientId).isSome

/-- `disconnect` -/
def disconnect (a : AEAD) (s : NetcodeServer) (clientId : Nat) : Res Empty (ServerResult × NetcodeServer) :=
  match findClientSlotById s.clients clientId with
  | none => .ok (.none, s)
  | some slot =>
    match s.clients.getD slot none with
    | none => .panic "server.rs disconnect: take().unwrap()"
    | some client =>
      let s := { s with clients := s.clients.set slot none }
      match Packet.disconnect.encode a C.NETCODE_MAX_PACKET_BYTES s.protocolId (some (client.sequence, client.sendKey)) with
      | .panic m => .panic m
      | .err _ => .ok (.clientDisconnected clientId client.addr none, s)
      | .ok out => .ok (.clientDisconnected clientId client.addr (some out), s)

end NetcodeServer
/-! ### `verif_dump` (the strings of the Rust hooks, character for character) -/

/-- `verif_hex` (an empty slice prints nothing) -/
def hexRaw (b : Bytes) : String := if b.isEmpty then "" else toHex b

def Connection.dump (c : Connection) : String :=
  "id=" ++ toString c.clientId ++ ",addr=" ++ c.addr.toText ++ ",state=" ++ c.state.name ++
  ",confirmed=" ++ toString c.confirmed ++ ",seq=" ++ toString c.sequence ++
  ",recv=" ++ toString c.lastPacketReceivedTime ++ ",send=" ++ toString c.lastPacketSendTime ++
  ",timeout=" ++ toString c.timeoutSeconds ++ ",expire=" ++ toString c.expireTimestamp ++
  ",ud=" ++ hexRaw (c.userData.take 8) ++ ",sk=" ++ hexRaw (c.sendKey.take 4) ++
  ",rk=" ++ hexRaw (c.receiveKey.take 4) ++ ",rp{" ++ c.replayProtection.dump ++ "}"

def insertSorted (x : String × String) : List (String × String) → List (String × String)
  | [] => [x]
  | y :: r => if x.1 < y.1 ∨ (x.1 = y.1 ∧ x.2 ≤ y.2) then x :: y :: r else y :: insertSorted x r

def enumFrom {α} : Nat → List α → List (Nat × α)
  | _, [] => []
  | i, x :: r => (i, x) :: enumFrom (i + 1) r

def NetcodeServer.dump (s : NetcodeServer) : String :=
  let slots := (enumFrom 0 s.clients).filterMap fun (i, c) => c.map fun c => toString i ++ ":{" ++ c.dump ++ "}"
  let pending := (s.pendingClients.map fun (a, c) => (a.toText, c.dump)).foldr insertSorted []
  let pending := pending.map fun (_, d) => "{" ++ d ++ "}"
  let entries := (enumFrom 0 s.connectTokenEntries).filterMap fun (i, e) => e.map fun e =>
    toString i ++ ":" ++ e.address.toText ++ "@" ++ toString e.time ++ "#" ++ hexRaw (e.mac.take 4)
  "now=" ++ toString s.currentTime ++ " max=" ++ toString s.maxClients ++ " nslots=" ++ toString s.clients.length ++
  " cseq=" ++ toString s.challengeSequence ++ " gseq=" ++ toString s.globalSequence ++
  " slots=[" ++ " ".intercalate slots ++ "] pending=[" ++ " ".intercalate pending ++
  "] entries=[" ++ " ".intercalate entries ++ "]"

end RenetVerif.Netcode
