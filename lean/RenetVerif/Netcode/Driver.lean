/-
  Line-protocol driver of the netcode engine (E4 + the netcode part of E1).
  `step w toks` : `none` = op not recognised here; malformed arguments ⇒ `bad-op`.
  Every datagram an endpoint emits is appended to `history`; a datagram argument is literal hex or `@k`.
-/
import RenetVerif.Netcode.Server
import RenetVerif.Netcode.Client
namespace RenetVerif.Netcode.Driver
open RenetVerif RenetVerif.Netcode

structure NWorld where
  servers : List (Nat × NetcodeServer) := []
  clients : List (Nat × NetcodeClient) := []
  history : Array Bytes := #[]
  dead : Bool := false
  /-- `nc-quiet 1`: emitted datagrams are printed as `#<length>` (the trace then does not depend on key material the
      library draws at random) -/
  quiet : Bool := false
  /-- number of servers created without an explicit challenge key (each gets a key of its own) -/
  made : Nat := 0
  /-- tokens made by `tok-make` (the library's own `ConnectToken::generate`: fresh random keys and nonce per token) -/
  tokens : List (Nat × ConnectToken) := []

def NWorld.init : NWorld := {}

def aead : AEAD := AEAD.chacha

/-! ### parsing -/
def pU64 (s : String) : Option Nat :=
  if s.isEmpty ∨ !s.all Char.isDigit then none else
  match s.toNat? with
  | some n => if n < 2 ^ 64 then some n else none
  | none => none

def pI32 (s : String) : Option Int :=
  let neg := s.startsWith "-"
  let body := if neg then (s.drop 1).toString else s
  if body.isEmpty ∨ !body.all Char.isDigit then none else
  match body.toNat? with
  | some n =>
    let v : Int := if neg then -(n : Int) else n
    if -(2 ^ 31 : Int) ≤ v ∧ v < 2 ^ 31 then some v else none
  | none => none

def pHexN (n : Nat) (s : String) : Option Bytes :=
  match fromHex s with
  | some b => if b.length = n then some b else none
  | none => none

/-- user data: up to 256 bytes, zero-padded on the right -/
def pUserData (s : String) : Option Bytes :=
  match fromHex s with
  | some b => if b.length ≤ 256 then some (b ++ List.replicate (256 - b.length) 0) else none
  | none => none

def pBool (s : String) : Option Bool :=
  if s = "1" then some true else if s = "0" then some false else none

/-- `-` = no address, else comma separated, `_` = empty slot; at most 32 -/
def pAddrsMax (max : Nat) (s : String) : Option (List (Option Addr)) :=
  if s = "-" then some [] else
  let parts := s.splitOn ","
  if parts.length > max then none else
  parts.mapM fun p => if p = "_" then some none else (Addr.parse p).map some

def pAddrs (s : String) : Option (List (Option Addr)) := pAddrsMax 32 s

def padAddrs (l : List (Option Addr)) : AddrArray := l ++ List.replicate (32 - l.length) none

def dropTrailingNone (l : List (Option Addr)) : List (Option Addr) :=
  (l.reverse.dropWhile Option.isNone).reverse

def showAddrs (l : List (Option Addr)) : String :=
  let l := dropTrailingNone l
  if l.isEmpty then "-" else
  ",".intercalate (l.map fun a => match a with | some x => x.toText | none => "_")

/-- datagram argument: hex or `@k` -/
def pDatagram (w : NWorld) (s : String) : Option Bytes :=
  if s.startsWith "@" then
    match pU64 (s.drop 1).toString with
    | some k => w.history[k]?
    | none => none
  else fromHex s

/-- replay window argument: `-` = None, `n[,seq…]` = new window advanced by the sequences in order -/
def pRP (s : String) : Option (Option RP) :=
  if s = "-" then some none else
  match s.splitOn "," with
  | "n" :: seqs =>
    match seqs.mapM pU64 with
    | some l => some (some (l.foldl RP.advance RP.new))
    | none => none
  | _ => none

def pPacket : List String → Option Packet
  | ["req", v, pid, e, x, d] => do
      let v ← pHexN 13 v; let pid ← pU64 pid; let e ← pU64 e; let x ← pHexN 24 x; let d ← pHexN 1024 d
      pure (.connectionRequest v pid e x d)
  | ["denied"] => some .connectionDenied
  | ["chal", s, d] => do let s ← pU64 s; let d ← pHexN 300 d; pure (.challenge s d)
  | ["resp", s, d] => do let s ← pU64 s; let d ← pHexN 300 d; pure (.response s d)
  | ["ka", i, m] => do
      let i ← pU64 i; let m ← pU64 m
      if i < 2 ^ 32 ∧ m < 2 ^ 32 then pure (.keepAlive i m) else none
  | ["pay", p] => do let p ← fromHex p; pure (.payload p)
  | ["disc"] => some .disconnect
  | _ => none

def showPacket : Packet → String
  | .connectionRequest v pid e x d => s!"req {toHex v} {pid} {e} {toHex x} {toHex d}"
  | .connectionDenied => "denied"
  | .challenge s d => s!"chal {s} {toHex d}"
  | .response s d => s!"resp {s} {toHex d}"
  | .keepAlive i m => s!"ka {i} {m}"
  | .payload p => s!"pay {toHex p}"
  | .disconnect => "disc"

def kindName : Packet → String
  | .connectionRequest .. => "req"
  | .connectionDenied => "denied"
  | .challenge .. => "chal"
  | .response .. => "resp"
  | .keepAlive .. => "ka"
  | .payload _ => "pay"
  | .disconnect => "disc"

def showRP : Option RP → String
  | none => "-"
  | some r => r.dump

/-! ### world access -/
def getS (w : NWorld) (h : Nat) : Option NetcodeServer := (w.servers.find? (·.1 = h)).map (·.2)
def setS (w : NWorld) (h : Nat) (s : NetcodeServer) : NWorld :=
  { w with servers := (h, s) :: w.servers.filter (·.1 ≠ h) }
def getC (w : NWorld) (h : Nat) : Option NetcodeClient := (w.clients.find? (·.1 = h)).map (·.2)
def setC (w : NWorld) (h : Nat) (c : NetcodeClient) : NWorld :=
  { w with clients := (h, c) :: w.clients.filter (·.1 ≠ h) }
def emit (w : NWorld) (d : Bytes) : NWorld := { w with history := w.history.push d }

def die (w : NWorld) : NWorld × String := ({ w with dead := true }, "panic")

/-- print a ServerResult, recording emitted datagrams -/
def showResult (w : NWorld) : ServerResult → NWorld × String
  | .none => (w, "none")
  | .packetToSend a p => (emit w p, s!"send {a.toText} {toHex p}")
  | .payload id p => (w, s!"payload {id} {toHex p}")
  | .clientConnected id a ud p => (emit w p, s!"connected {id} {a.toText} {toHex ud} {toHex p}")
  | .clientDisconnected id a none => (w, s!"disconnected {id} {a.toText} none")
  | .clientDisconnected id a (some p) => (emit w p, s!"disconnected {id} {a.toText} {toHex p}")

def srvResult (w : NWorld) (h : Nat) (r : Res Empty (ServerResult × NetcodeServer)) : NWorld × String :=
  match r with
  | .ok (res, s') => showResult (setS w h s') res
  | .panic _ => die w

def showOpt {α} (f : α → String) : Option α → String
  | none => "-"
  | some a => f a

def bit (b : Bool) : String := if b then "1" else "0"

/-! ### ops -/
def rpRun (cmds : List String) : Option String := do
  let rec go (rp : RP) (acc : String) : List String → Option (RP × String)
    | [] => some (rp, acc)
    | c :: rest =>
      if c.startsWith "a" then do
        let s ← pU64 (c.drop 1).toString
        go (rp.advance s) acc rest
      else if c.startsWith "q" then do
        let s ← pU64 (c.drop 1).toString
        go rp (acc ++ bit (rp.alreadyReceived s)) rest
      else none
  let (rp, acc) ← go RP.new "" cmds
  pure s!"{if acc.isEmpty then "-" else acc} {rp.dump}"

def stepOp (w : NWorld) (toks : List String) : Option (NWorld × String) :=
  let bad : Option (NWorld × String) := some (w, "bad-op")
  match toks with
  -- replay window -------------------------------------------------------------------------------
  | ["rp-run", cmds] =>
    match rpRun (cmds.splitOn ",") with
    | some o => some (w, o)
    | none => bad
  -- wire ----------------------------------------------------------------------------------------
  | "nc-enc" :: cap :: proto :: seq :: key :: pkt =>
    match pU64 cap, pU64 proto, pPacket pkt with
    | some cap, some proto, some p =>
      let crypto : Option (Option (Nat × Bytes)) :=
        if seq = "-" ∧ key = "-" then some none else
        match pU64 seq, pHexN 32 key with
        | some s, some k => some (some (s, k))
        | _, _ => none
      match crypto with
      | none => bad
      | some crypto =>
        if cap > 4096 then bad else
        match p.encode aead cap proto crypto with
        | .ok b => some (w, s!"ok {toHex b}")
        | .err e => some (w, s!"err:{e.name}")
        | .panic _ => some (die w)
    | _, _, _ => bad
  | ["nc-dec", proto, key, rp, dg] =>
    let key? : Option (Option Bytes) := if key = "-" then some none else (pHexN 32 key).map some
    match pU64 proto, key?, pRP rp, pDatagram w dg with
    | some proto, some key, some rp, some buf =>
      match Packet.decode aead buf proto key rp with
      | (.ok (s, p), rp') => some (w, s!"ok {s} {showPacket p} rp={showRP rp'}")
      | (.err e, rp') => some (w, s!"err:{e.name} rp={showRP rp'}")
      | (.panic _, _) => some (die w)
    | _, _, _, _ => bad
  | ["nc-stream", proto, key, dgs] =>
    -- a list of datagrams decoded one after the other through ONE fresh replay window
    match pU64 proto, pHexN 32 key, (dgs.splitOn ",").mapM fromHex with
    | some proto, some key, some bufs =>
      let rec go (rp : RP) (acc : List String) : List Bytes → Option (RP × List String)
        | [] => some (rp, acc.reverse)
        | b :: rest =>
          match Packet.decode aead b proto (some key) (some rp) with
          | (.ok (s, p), rp') => go (rp'.getD rp) (s!"ok:{s}:{kindName p}" :: acc) rest
          | (.err e, rp') => go (rp'.getD rp) (s!"err:{e.name}" :: acc) rest
          | (.panic _, _) => none
      match go RP.new [] bufs with
      | some (rp, outs) => some (w, s!"{",".intercalate outs} rp={rp.dump}")
      | none => some (die w)
    | _, _, _ => bad
  -- tokens --------------------------------------------------------------------------------------
  | ["tok-write", id, ver, proto, create, expire, xnonce, priv, timeout, addrs, c2s, s2c] =>
    match pU64 id, pHexN 13 ver, pU64 proto, pU64 create, pU64 expire, pHexN 24 xnonce, pHexN 1024 priv,
          pI32 timeout, pAddrs addrs, pHexN 32 c2s, pHexN 32 s2c with
    | some id, some ver, some proto, some create, some expire, some xnonce, some priv, some timeout,
      some addrs, some c2s, some s2c =>
      let t : ConnectToken :=
        { clientId := id, versionInfo := ver, protocolId := proto, createTimestamp := create
          expireTimestamp := expire, xnonce, serverAddresses := padAddrs addrs, clientToServerKey := c2s
          serverToClientKey := s2c, privateData := priv, timeoutSeconds := timeout }
      match t.write with
      | .ok b => some (w, s!"ok {toHex b}")
      | .err e => some (w, s!"err:{e.name}")
      | .panic _ => some (die w)
    | _, _, _, _, _, _, _, _, _, _, _ => bad
  | ["tok-read", hex] =>
    match fromHex hex with
    | some b =>
      match ConnectToken.read b with
      | .ok t => some (w, s!"ok {t.clientId} {toHex t.versionInfo} {t.protocolId} {t.createTimestamp} {t.expireTimestamp} {toHex t.xnonce} {toHex t.privateData} {t.timeoutSeconds} {showAddrs t.serverAddresses} {toHex t.clientToServerKey} {toHex t.serverToClientKey}")
      | .err e => some (w, s!"err:{e.name}")
      | .panic _ => some (die w)
    | none => bad
  | ["tok-gen", now, proto, expireS, id, timeout, addrs, ud, key] =>
    match pU64 now, pU64 proto, pU64 expireS, pU64 id, pI32 timeout, pAddrsMax 40 addrs, pHexN 32 key with
    | some now, some proto, some expireS, some id, some timeout, some addrs, some key =>
      let ud? : Option Bytes := if ud = "-" then some (List.replicate 256 0) else pHexN 256 ud
      match ud? with
      | none => bad
      | some ud =>
        if addrs.any Option.isNone then bad else
        let z32 : Bytes := List.replicate 32 0
        match ConnectToken.generate aead (now * 1000) proto expireS id timeout (addrs.filterMap fun x => x) ud z32 z32
                (List.replicate 24 0) key with
        | .ok t =>
          -- the private part opens under the key and carries the same fields
          let consistent := match PrivateConnectToken.decode aead t.privateData proto t.expireTimestamp t.xnonce key with
            | .ok p => p.clientId = id && p.timeoutSeconds = timeout && p.serverAddresses = t.serverAddresses &&
                       p.userData = ud && p.clientToServerKey = t.clientToServerKey && p.serverToClientKey = t.serverToClientKey
            | _ => false
          some (w, s!"ok {t.clientId} {toHex t.versionInfo} {t.protocolId} {t.createTimestamp} {t.expireTimestamp} {t.timeoutSeconds} {showAddrs t.serverAddresses} consistent={bit consistent}")
        | .err e => some (w, s!"err:{e.name}")
        | .panic _ => some (die w)
    | _, _, _, _, _, _, _ => bad
  -- `ConnectToken::generate` with the token kept in the world: every call draws two INDEPENDENT keys and a nonce
  | ["tok-make", tk, now, proto, expireS, id, timeout, addrs, ud, key] =>
    match pU64 tk, pU64 now, pU64 proto, pU64 expireS, pU64 id, pI32 timeout, pAddrsMax 40 addrs, pHexN 32 key with
    | some tk, some now, some proto, some expireS, some id, some timeout, some addrs, some key =>
      let ud? : Option Bytes := if ud = "-" then some (List.replicate 256 0) else pHexN 256 ud
      match ud? with
      | none => bad
      | some ud =>
        if addrs.any Option.isNone then bad else
        let n := w.tokens.length
        let pat (mul add : Nat) (len : Nat) : Bytes := (List.range len).map fun i => UInt8.ofNat ((i * mul + add + n * 41) % 256)
        match ConnectToken.generate aead (now * 1000) proto expireS id timeout (addrs.filterMap fun x => x) ud (pat 7 3 32) (pat 11 5 32)
                (pat 13 9 24) key with
        | .ok t =>
          some ({ w with tokens := (tk, t) :: w.tokens.filter (·.1 ≠ tk) },
            s!"ok {t.clientId} {t.protocolId} {t.createTimestamp} {t.expireTimestamp} {t.timeoutSeconds} {showAddrs t.serverAddresses} distinct={bit (t.clientToServerKey != t.serverToClientKey)}")
        | .err e => some (w, s!"err:{e.name}")
        | .panic _ => some (die w)
    | _, _, _, _, _, _, _, _ => bad
  | ["cli-newt", h, now, tk] =>
    match pU64 h, pU64 now, pU64 tk with
    | some h, some now, some tk =>
      match (w.tokens.find? (·.1 = tk)).map (·.2) with
      | none => bad
      | some t =>
        match NetcodeClient.new (now * 1000) t with
        | .ok c => some (setC w h c, "ok")
        | .err e => some (w, s!"err:{e.name}")
        | .panic _ => some (die w)
    | _, _, _ => bad
  | ["ptok-seal", proto, expire, xnonce, key, id, timeout, addrs, c2s, s2c, ud] =>
    match pU64 proto, pU64 expire, pHexN 24 xnonce, pHexN 32 key, pU64 id, pI32 timeout, pAddrs addrs,
          pHexN 32 c2s, pHexN 32 s2c, pUserData ud with
    | some proto, some expire, some xnonce, some key, some id, some timeout, some addrs, some c2s, some s2c, some ud =>
      let t : PrivateConnectToken :=
        { clientId := id, timeoutSeconds := timeout, serverAddresses := padAddrs addrs
          clientToServerKey := c2s, serverToClientKey := s2c, userData := ud }
      match t.encode aead proto expire xnonce key with
      | .ok b => some (w, s!"ok {toHex b}")
      | .err _ => some (w, "err")
      | .panic _ => some (die w)
    | _, _, _, _, _, _, _, _, _, _ => bad
  | ["ptok-open", proto, expire, xnonce, key, hex] =>
    match pU64 proto, pU64 expire, pHexN 24 xnonce, pHexN 32 key, pHexN 1024 hex with
    | some proto, some expire, some xnonce, some key, some buf =>
      match PrivateConnectToken.decode aead buf proto expire xnonce key with
      | .ok t => some (w, s!"ok {t.clientId} {t.timeoutSeconds} {showAddrs t.serverAddresses} {toHex t.clientToServerKey} {toHex t.serverToClientKey} {toHex t.userData}")
      | .err _ => some (w, "err")
      | .panic _ => some (die w)
    | _, _, _, _, _ => bad
  -- server --------------------------------------------------------------------------------------
  | ["nc-quiet", b] =>
    match pBool b with
    | some b => some ({ w with quiet := b }, "ok")
    | none => bad
  | ["srv-new", h, now, max, proto, secure, key, ckey, addrs] =>
    -- `-`: the instance keeps the challenge key it drew itself (`generate_random_bytes`): a key of its own per instance
    let own : Bytes := (List.range 32).map fun i => UInt8.ofNat ((i * 7 + w.made * 31 + 101) % 256)
    let ckey? : Option Bytes := if ckey = "-" then some own else pHexN 32 ckey
    let w := if ckey = "-" then { w with made := w.made + 1 } else w
    match pU64 h, pU64 now, pU64 max, pU64 proto, pBool secure, pHexN 32 key, ckey?, pAddrs addrs with
    | some h, some now, some max, some proto, some secure, some key, some ckey, some addrs =>
      if addrs.any Option.isNone then bad else
      match NetcodeServer.new (now * 1000) max proto (addrs.filterMap id) secure key ckey with
      | .ok s => some (setS w h s, "ok")
      | .err e => nomatch e
      | .panic _ => some (die w)
    | _, _, _, _, _, _, _, _ => bad
  | ["srv-setmax", h, n] =>
    match pU64 h, pU64 n with
    | some h, some n =>
      match getS w h with
      | some s => some (setS w h (s.setMaxClients n), "ok")
      | none => bad
    | _, _ => bad
  | ["srv-upd", h, us] =>
    match pU64 h, pU64 us with
    | some h, some us =>
      match getS w h with
      | some s =>
        match s.update (us * 1000) with
        | .ok s' => some (setS w h s', "ok")
        | .err e => nomatch e
        | .panic _ => some (die w)
      | none => bad
    | _, _ => bad
  | ["srv-updc", h, id] =>
    match pU64 h, pU64 id with
    | some h, some id =>
      match getS w h with
      | some s => some (srvResult w h (s.updateClient aead id))
      | none => bad
    | _, _ => bad
  | ["srv-disc", h, id] =>
    match pU64 h, pU64 id with
    | some h, some id =>
      match getS w h with
      | some s => some (srvResult w h (s.disconnect aead id))
      | none => bad
    | _, _ => bad
  | ["srv-pay", h, id, hex] =>
    match pU64 h, pU64 id, fromHex hex with
    | some h, some id, some p =>
      match getS w h with
      | some s =>
        match s.generatePayloadPacket aead id p with
        | .ok ((a, out), s') => some (emit (setS w h s') out, s!"send {a.toText} {toHex out}")
        | .err e => some (w, s!"err:{e.name}")
        | .panic _ => some (die w)
      | none => bad
    | _, _, _ => bad
  | ["srv-rx", h, addr, dg] =>
    match pU64 h, Addr.parse addr, pDatagram w dg with
    | some h, some addr, some buf =>
      match getS w h with
      | some s => some (srvResult w h (s.processPacket aead addr buf))
      | none => bad
    | _, _, _ => bad
  | ["srv-q", h, id] =>
    match pU64 h, pU64 id with
    | some h, some id =>
      match getS w h with
      | some s =>
        match s.timeSinceLastReceivedPacket id with
        | .ok idle =>
          let ids := ",".intercalate (s.clientsId.map toString)
          let slots := ",".intercalate (s.clientsSlot.map toString)
          let pub := if s.addresses.isEmpty then "-" else ",".intercalate (s.addresses.map Addr.toText)
          some (w, s!"ids=[{ids}] n={s.connectedClients} max={s.maxClients} conn={bit (s.isClientConnected id)} addr={showOpt Addr.toText (s.clientAddr id)} ud={showOpt (fun u => toHex u) (s.userData id)} idle={showOpt toString idle} time={s.currentTime} slots=[{slots}] pub={pub}")
        | .err e => nomatch e
        | .panic _ => some (die w)
      | none => bad
    | _, _ => bad
  | ["srv-dump", h] =>
    match pU64 h with
    | some h =>
      match getS w h with
      | some s => some (w, s.dump)
      | none => bad
    | none => bad
  -- client --------------------------------------------------------------------------------------
  | ["cli-new", h, now, tok] =>
    match pU64 h, pU64 now, fromHex tok with
    | some h, some now, some b =>
      match ConnectToken.read b with
      | .err e => some (w, s!"err:{e.name}")
      | .panic _ => some (die w)
      | .ok t =>
        match NetcodeClient.new (now * 1000) t with
        | .ok c => some (setC w h c, "ok")
        | .err e => some (w, s!"err:{e.name}")
        | .panic _ => some (die w)
    | _, _, _ => bad
  | ["cli-upd", h, us] =>
    match pU64 h, pU64 us with
    | some h, some us =>
      match getC w h with
      | some c =>
        match c.update aead (us * 1000) with
        | .ok (none, c') => some (setC w h c', "none")
        | .ok (some (out, a), c') => some (emit (setC w h c') out, s!"send {a.toText} {toHex out}")
        | .err e => nomatch e
        | .panic _ => some (die w)
      | none => bad
    | _, _ => bad
  | ["cli-rx", h, dg] =>
    match pU64 h, pDatagram w dg with
    | some h, some buf =>
      match getC w h with
      | some c =>
        match c.processPacket aead buf with
        | .ok (none, c') => some (setC w h c', "none")
        | .ok (some p, c') => some (setC w h c', s!"payload {toHex p}")
        | .err e => nomatch e
        | .panic _ => some (die w)
      | none => bad
    | _, _ => bad
  | ["cli-pay", h, hex] =>
    match pU64 h, fromHex hex with
    | some h, some p =>
      match getC w h with
      | some c =>
        match c.generatePayloadPacket aead p with
        | .ok ((a, out), c') => some (emit (setC w h c') out, s!"send {a.toText} {toHex out}")
        | .err e => some (w, s!"err:{e.name}")
        | .panic _ => some (die w)
      | none => bad
    | _, _ => bad
  | ["cli-disc", h] =>
    match pU64 h with
    | some h =>
      match getC w h with
      | some c =>
        match c.disconnect aead with
        | (.ok (a, out), c') => some (emit (setC w h c') out, s!"send {a.toText} {toHex out}")
        | (.err e, c') => some (setC w h c', s!"err:{e.name}")
        | (.panic _, _) => some (die w)
      | none => bad
    | none => bad
  | ["cli-q", h] =>
    match pU64 h with
    | some h =>
      match getC w h with
      | some c =>
        match c.timeSinceLastReceivedPacket with
        | .ok idle =>
          some (w, s!"connecting={bit c.isConnecting} connected={bit c.isConnected} disconnected={bit c.isDisconnected} reason={showOpt DisconnectReason.name c.disconnectReason} id={c.clientId} addr={c.serverAddr.toText} idle={idle} now={c.currentTime}")
        | .err e => nomatch e
        | .panic _ => some (die w)
      | none => bad
    | none => bad
  | ["cli-dump", h] =>
    match pU64 h with
    | some h =>
      match getC w h with
      | some c => some (w, c.dump)
      | none => bad
    | none => bad
  | _ => none

def isNetcodeOp (op : String) : Bool :=
  op.startsWith "srv-" || op.startsWith "cli-" || op.startsWith "nc-" || op.startsWith "tok-" ||
  op.startsWith "ptok-" || op.startsWith "rp-"

/-- one op; after a panic every further op of the case answers `dead` -/
def step (w : NWorld) (toks : List String) : Option (NWorld × String) :=
  if w.dead then
    match toks with
    | op :: _ => if isNetcodeOp op then some (w, "dead") else none
    | [] => none
  else
    match stepOp w toks with
    | some (w', out) =>
      -- quiet mode: hide the bytes of an emitted datagram (the last field of send / connected / disconnected lines)
      if w.quiet then
        let t := out.splitOn " "
        let hide := t.length ≥ 3 && (t.head? == some "send" || t.head? == some "connected" || t.head? == some "disconnected") &&
          t.getLast? != some "none"
        if hide then
          let last := t.getLast?.getD ""
          let n := if last = "-" then 0 else last.length / 2
          some (w', " ".intercalate (t.dropLast ++ [s!"#{n}"]))
        else some (w', out)
      else some (w', out)
    | none => none

end RenetVerif.Netcode.Driver
