/-
  renetcode/src/token.rs : ConnectToken (public part) and PrivateConnectToken.
  `SocketAddr` is `Addr` (raw ip bytes + port; IPv6 flow info / scope id are not part of the netcode format).
  `[Option<SocketAddr>; 32]` is a `List (Option Addr)` of length 32.
-/
import RenetVerif.Netcode.Wire
import RenetVerif.Base.Hex
namespace RenetVerif.Netcode

inductive Addr where
  | v4 (ip : Bytes) (port : Nat)     -- ip.length = 4
  | v6 (ip : Bytes) (port : Nat)     -- ip.length = 16
  deriving Repr, DecidableEq

namespace Addr
def WF : Addr → Prop
  | v4 ip port => ip.length = 4 ∧ port < 65536
  | v6 ip port => ip.length = 16 ∧ port < 65536

instance (a : Addr) : Decidable a.WF := by cases a <;> unfold WF <;> infer_instance

def port : Addr → Nat
  | v4 _ p | v6 _ p => p

/-- canonical text (same as the hook `renetcode::verif::addr_text`): `4:7f000001:5000`, `6:<32 hex>:5000` -/
def toText : Addr → String
  | v4 ip p => "4:" ++ toHex ip ++ ":" ++ toString p
  | v6 ip p => "6:" ++ toHex ip ++ ":" ++ toString p

def parse (s : String) : Option Addr :=
  match s.splitOn ":" with
  | [k, h, p] =>
    match fromHex h, p.toNat? with
    | some ip, some port =>
      if port ≥ 65536 ∨ h = "-" then none
      else if k = "4" ∧ ip.length = 4 then some (v4 ip port)
      else if k = "6" ∧ ip.length = 16 then some (v6 ip port)
      else none
    | _, _ => none
  | _ => none
end Addr

abbrev AddrArray := List (Option Addr)

def AddrArray.empty : AddrArray := List.replicate C.NETCODE_TOKEN_MAX_ADDRESSES none

/-- token.rs `write_server_addresses`: count of `Some` entries, then the `Some` entries in order -/
def writeServerAddresses (w : Wr) (addrs : AddrArray) : Option Wr := do
  let hosts := addrs.filterMap fun x => x
  let w ← w.writeAll (leBytes hosts.length 4)
  go w hosts
where
  go (w : Wr) : List Addr → Option Wr
    | [] => some w
    | h :: rest => do
      let w ← match h with
        | .v4 ip _ => do
            let w ← w.writeAll (leBytes C.NETCODE_ADDRESS_IPV4 1)
            w.writeAll ip
        | .v6 ip _ => do
            let w ← w.writeAll (leBytes C.NETCODE_ADDRESS_IPV6 1)
            w.writeAll ip
      let w ← w.writeAll (leBytes h.port 2)
      go w rest

/-- the `for server_address in server_addresses.iter_mut().take(n)` loop of `read_server_addresses` -/
def readAddrLoop : Nat → Bytes → Option (List (Option Addr) × Bytes)
  | 0, src => some ([], src)
  | n + 1, src => do
    let (ty, r) ← readU8 src
    if ty = C.NETCODE_ADDRESS_IPV4 then
      let (ip, r) ← readN 4 r
      let (port, r) ← readU16 r
      let (rest, r) ← readAddrLoop n r
      pure (some (.v4 ip port) :: rest, r)
    else if ty = C.NETCODE_ADDRESS_IPV6 then
      let (ip, r) ← readN 16 r
      let (port, r) ← readU16 r
      let (rest, r) ← readAddrLoop n r
      pure (some (.v6 ip port) :: rest, r)
    else if ty = C.NETCODE_ADDRESS_NONE then
      none                                     -- "Empty server address in ConnectToken" (repaired: was skipped)
    else none                                  -- "Unknown ip address type"

/-- token.rs `read_server_addresses` (repaired: a token whose first slot is empty is rejected) -/
def readServerAddresses (src : Bytes) : Option (AddrArray × Bytes) := do
  let (num, r) ← readU32 src
  let n := min num C.NETCODE_TOKEN_MAX_ADDRESSES
  let (l, r) ← readAddrLoop n r
  let arr := l ++ List.replicate (C.NETCODE_TOKEN_MAX_ADDRESSES - l.length) none
  match arr.head? with
  | some (some _) => pure (arr, r)
  | _ => none                                  -- "ConnectToken does not have a server address"

structure ConnectToken where
  clientId : Nat
  versionInfo : Bytes
  protocolId : Nat
  createTimestamp : Nat
  expireTimestamp : Nat
  xnonce : Bytes
  serverAddresses : AddrArray
  clientToServerKey : Bytes
  serverToClientKey : Bytes
  privateData : Bytes
  timeoutSeconds : Int
  deriving Repr, DecidableEq

namespace ConnectToken

def WF (t : ConnectToken) : Prop :=
  t.clientId < 2 ^ 64 ∧ t.versionInfo.length = 13 ∧ t.protocolId < 2 ^ 64 ∧ t.createTimestamp < 2 ^ 64 ∧
  t.expireTimestamp < 2 ^ 64 ∧ t.xnonce.length = C.NETCODE_CONNECT_TOKEN_XNONCE_BYTES ∧
  t.serverAddresses.length = C.NETCODE_TOKEN_MAX_ADDRESSES ∧ (∀ a ∈ t.serverAddresses, ∀ x, a = some x → x.WF) ∧
  t.clientToServerKey.length = C.NETCODE_KEY_BYTES ∧ t.serverToClientKey.length = C.NETCODE_KEY_BYTES ∧
  t.privateData.length = C.NETCODE_CONNECT_TOKEN_PRIVATE_BYTES ∧ -(2 ^ 31 : Int) ≤ t.timeoutSeconds ∧ t.timeoutSeconds < 2 ^ 31

/-- `ConnectToken::write` into a writer of the given capacity (`Vec<u8>` = unbounded) -/
def writeTo (t : ConnectToken) (w : Wr) : Option Wr := do
  let w ← w.writeAll (leBytes t.clientId 8)
  let w ← w.writeAll t.versionInfo
  let w ← w.writeAll (leBytes t.protocolId 8)
  let w ← w.writeAll (leBytes t.createTimestamp 8)
  let w ← w.writeAll (leBytes t.expireTimestamp 8)
  let w ← w.writeAll t.xnonce
  let w ← w.writeAll t.privateData
  let w ← w.writeAll (i32le t.timeoutSeconds)
  let w ← writeServerAddresses w t.serverAddresses
  let w ← w.writeAll t.clientToServerKey
  w.writeAll t.serverToClientKey

/-- upper bound of a serialised token: 8+13+8+8+8+24+1024+4+4+32*19+32+32 -/
def MAX_BYTES : Nat := 1773

def write (t : ConnectToken) : NRes Bytes := do
  let w ← io? (t.writeTo (Wr.new (4 * MAX_BYTES)))
  pure w.out

/-- `ConnectToken::read` -/
def read (src : Bytes) : NRes ConnectToken := do
  let (clientId, r) ← io? (readU64 src)
  let (versionInfo, r) ← io? (readN 13 r)
  if versionInfo ≠ C.NETCODE_VERSION_INFO then .err .invalidVersion else
  let (protocolId, r) ← io? (readU64 r)
  let (createTimestamp, r) ← io? (readU64 r)
  let (expireTimestamp, r) ← io? (readU64 r)
  let (xnonce, r) ← io? (readN C.NETCODE_CONNECT_TOKEN_XNONCE_BYTES r)
  let (privateData, r) ← io? (readN C.NETCODE_CONNECT_TOKEN_PRIVATE_BYTES r)
  let (timeoutSeconds, r) ← io? (readI32 r)
  let (serverAddresses, r) ← io? (readServerAddresses r)
  let (clientToServerKey, r) ← io? (readN C.NETCODE_KEY_BYTES r)
  let (serverToClientKey, _) ← io? (readN C.NETCODE_KEY_BYTES r)
  pure { clientId, versionInfo, protocolId, createTimestamp, expireTimestamp, xnonce, serverAddresses,
         clientToServerKey, serverToClientKey, privateData, timeoutSeconds }

end ConnectToken

structure PrivateConnectToken where
  clientId : Nat
  timeoutSeconds : Int
  serverAddresses : AddrArray
  clientToServerKey : Bytes
  serverToClientKey : Bytes
  userData : Bytes
  deriving Repr, DecidableEq

namespace PrivateConnectToken

def writeTo (t : PrivateConnectToken) (w : Wr) : Option Wr := do
  let w ← w.writeAll (leBytes t.clientId 8)
  let w ← w.writeAll (i32le t.timeoutSeconds)
  let w ← writeServerAddresses w t.serverAddresses
  let w ← w.writeAll t.clientToServerKey
  let w ← w.writeAll t.serverToClientKey
  w.writeAll t.userData

/-- `PrivateConnectToken::read` -/
def read (src : Bytes) : Option PrivateConnectToken := do
  let (clientId, r) ← readU64 src
  let (timeoutSeconds, r) ← readI32 r
  let (serverAddresses, r) ← readServerAddresses r
  let (clientToServerKey, r) ← readN 32 r
  let (serverToClientKey, r) ← readN 32 r
  let (userData, _) ← readN 256 r
  pure { clientId, timeoutSeconds, serverAddresses, clientToServerKey, serverToClientKey, userData }

/-- token.rs `get_additional_data` -/
def additionalData (protocolId expireTimestamp : Nat) : Bytes :=
  C.NETCODE_VERSION_INFO ++ leBytes protocolId 8 ++ leBytes expireTimestamp 8

/-- `PrivateConnectToken::encode`: written at the front of a zeroed 1024-byte buffer, the first
    1008 bytes are sealed (XChaCha), the tag goes into the last 16 -/
def encode (a : AEAD) (t : PrivateConnectToken) (protocolId expireTimestamp : Nat) (xnonce privateKey : Bytes) :
    Res TokenGenErr Bytes :=
  match t.writeTo (Wr.new C.NETCODE_CONNECT_TOKEN_PRIVATE_BYTES) with
  | none => .err .ioError
  | some w =>
    let buffer := w.out ++ List.replicate (C.NETCODE_CONNECT_TOKEN_PRIVATE_BYTES - w.out.length) 0
    let plain := buffer.take (C.NETCODE_CONNECT_TOKEN_PRIVATE_BYTES - C.NETCODE_MAC_BYTES)
    .ok (a.xseal privateKey xnonce (additionalData protocolId expireTimestamp) plain)

/-- `PrivateConnectToken::decode` -/
def decode (a : AEAD) (buffer : Bytes) (protocolId expireTimestamp : Nat) (xnonce privateKey : Bytes) :
    Res TokenGenErr PrivateConnectToken :=
  if buffer.length < C.NETCODE_MAC_BYTES then .panic "crypto.rs dencrypted_in_place_xnonce: split_at_mut underflow" else
  match a.xopen privateKey xnonce (additionalData protocolId expireTimestamp) buffer with
  | none => .err .cryptoError
  | some plain =>
    match read (plain ++ buffer.drop plain.length) with
    | none => .err .ioError
    | some t => .ok t

end PrivateConnectToken
/-! ### token generation (the random parts are explicit arguments) -/

/-- `PrivateConnectToken::generate` -/
def PrivateConnectToken.generate (clientId : Nat) (timeoutSeconds : Int) (serverAddresses : List Addr)
    (userData clientToServerKey serverToClientKey : Bytes) : Res TokenGenErr PrivateConnectToken :=
  if serverAddresses.length > C.NETCODE_TOKEN_MAX_ADDRESSES then .err .maxHostCount
  else if serverAddresses.isEmpty then .err .noServerAddressAvailable
  else .ok { clientId, timeoutSeconds
             serverAddresses := serverAddresses.map some ++
               List.replicate (C.NETCODE_TOKEN_MAX_ADDRESSES - serverAddresses.length) none
             clientToServerKey, serverToClientKey, userData }

/-- `ConnectToken::generate`; `current_time.as_secs() + expire_seconds` is an unchecked u64 addition -/
def ConnectToken.generate (a : AEAD) (currentTime protocolId expireSeconds clientId : Nat) (timeoutSeconds : Int)
    (serverAddresses : List Addr) (userData clientToServerKey serverToClientKey xnonce privateKey : Bytes) :
    Res TokenGenErr ConnectToken :=
  let expireTimestamp := asSecs currentTime + expireSeconds
  if expireTimestamp > U64_MAX then .panic "token.rs generate: current_time.as_secs() + expire_seconds" else do
  let priv ← PrivateConnectToken.generate clientId timeoutSeconds serverAddresses userData clientToServerKey serverToClientKey
  let privateData ← priv.encode a protocolId expireTimestamp xnonce privateKey
  pure { clientId, versionInfo := C.NETCODE_VERSION_INFO, protocolId, privateData
         createTimestamp := asSecs currentTime, expireTimestamp, xnonce
         serverAddresses := priv.serverAddresses, clientToServerKey, serverToClientKey, timeoutSeconds }

end RenetVerif.Netcode
