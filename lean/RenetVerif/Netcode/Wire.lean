/-
  renetcode/src/packet.rs (+ error.rs, serialize.rs, the nonce/AAD layout of crypto.rs)
  Models the current (repaired) code:
    * prefix byte announcing more than 8 sequence bytes ⇒ IoError
    * length re-checked after the sequence bytes ⇒ PacketTooSmall (no underflow in `split_at_mut`)
  Fixed-size Rust arrays are byte lists whose length is an invariant of well-formed values
  (`Packet.WF`); `write` copies them as they are.
-/
import RenetVerif.Netcode.Util
import RenetVerif.Netcode.Aead
import RenetVerif.Netcode.Replay
import RenetVerif.Generated.Consts
namespace RenetVerif.Netcode

/-- client.rs `DisconnectReason` (needed by `NetcodeError::Disconnected`) -/
inductive DisconnectReason where
  | connectTokenExpired | connectionTimedOut | connectionResponseTimedOut | connectionRequestTimedOut
  | connectionDenied | disconnectedByClient | disconnectedByServer
  deriving Repr, DecidableEq

def DisconnectReason.name : DisconnectReason → String
  | .connectTokenExpired => "ConnectTokenExpired"
  | .connectionTimedOut => "ConnectionTimedOut"
  | .connectionResponseTimedOut => "ConnectionResponseTimedOut"
  | .connectionRequestTimedOut => "ConnectionRequestTimedOut"
  | .connectionDenied => "ConnectionDenied"
  | .disconnectedByClient => "DisconnectedByClient"
  | .disconnectedByServer => "DisconnectedByServer"

/-- token.rs `TokenGenerationError` (the variants that can be produced by decode/encode) -/
inductive TokenGenErr where
  | maxHostCount | cryptoError | ioError | noServerAddressAvailable
  deriving Repr, DecidableEq

def TokenGenErr.name : TokenGenErr → String
  | .maxHostCount => "MaxHostCount"
  | .cryptoError => "CryptoError"
  | .ioError => "IoError"
  | .noServerAddressAvailable => "NoServerAddressAvailable"

/-- error.rs `NetcodeError` (payload of `IoError` dropped) -/
inductive NetcodeError where
  | unavailablePrivateKey | invalidPacketType | invalidProtocolID | invalidVersion | packetTooSmall
  | payloadAboveLimit | duplicatedSequence | noMoreServers | expired
  | disconnected (r : DisconnectReason)
  | cryptoError | notInHostList | clientNotFound | clientNotConnected | ioError
  | tokenGenerationError (e : TokenGenErr)
  deriving Repr, DecidableEq

def NetcodeError.name : NetcodeError → String
  | .unavailablePrivateKey => "UnavailablePrivateKey"
  | .invalidPacketType => "InvalidPacketType"
  | .invalidProtocolID => "InvalidProtocolID"
  | .invalidVersion => "InvalidVersion"
  | .packetTooSmall => "PacketTooSmall"
  | .payloadAboveLimit => "PayloadAboveLimit"
  | .duplicatedSequence => "DuplicatedSequence"
  | .noMoreServers => "NoMoreServers"
  | .expired => "Expired"
  | .disconnected r => "Disconnected(" ++ r.name ++ ")"
  | .cryptoError => "CryptoError"
  | .notInHostList => "NotInHostList"
  | .clientNotFound => "ClientNotFound"
  | .clientNotConnected => "ClientNotConnected"
  | .ioError => "IoError"
  | .tokenGenerationError e => "TokenGenerationError(" ++ e.name ++ ")"

abbrev NRes := Res NetcodeError

/-- `?` on an `io::Result` inside a fn returning `Result<_, NetcodeError>` -/
def io? {α} : Option α → NRes α
  | some a => .ok a
  | none => .err .ioError

inductive PacketType where
  | connectionRequest | connectionDenied | challenge | response | keepAlive | payload | disconnect
  deriving Repr, DecidableEq

namespace PacketType
def toNat : PacketType → Nat
  | connectionRequest => 0 | connectionDenied => 1 | challenge => 2 | response => 3
  | keepAlive => 4 | payload => 5 | disconnect => 6

/-- `PacketType::from_u8` -/
def fromU8 (v : Nat) : NRes PacketType :=
  match v with
  | 0 => .ok connectionRequest | 1 => .ok connectionDenied | 2 => .ok challenge | 3 => .ok response
  | 4 => .ok keepAlive | 5 => .ok payload | 6 => .ok disconnect
  | _ => .err .invalidPacketType

/-- `apply_replay_protection` -/
def applyReplayProtection : PacketType → Bool
  | keepAlive | payload | disconnect => true
  | _ => false
end PacketType

inductive Packet where
  | connectionRequest (versionInfo : Bytes) (protocolId : Nat) (expireTimestamp : Nat) (xnonce : Bytes) (data : Bytes)
  | connectionDenied
  | challenge (tokenSequence : Nat) (tokenData : Bytes)
  | response (tokenSequence : Nat) (tokenData : Bytes)
  | keepAlive (clientIndex : Nat) (maxClients : Nat)
  | payload (p : Bytes)
  | disconnect
  deriving Repr, DecidableEq

namespace Packet

def packetType : Packet → PacketType
  | connectionRequest .. => .connectionRequest
  | connectionDenied => .connectionDenied
  | challenge .. => .challenge
  | response .. => .response
  | keepAlive .. => .keepAlive
  | payload _ => .payload
  | disconnect => .disconnect

def id (p : Packet) : Nat := p.packetType.toNat

/-- what the Rust types guarantee about a packet value -/
def WF : Packet → Prop
  | connectionRequest v pid e x d =>
      v.length = 13 ∧ pid < 2 ^ 64 ∧ e < 2 ^ 64 ∧ x.length = C.NETCODE_CONNECT_TOKEN_XNONCE_BYTES ∧
      d.length = C.NETCODE_CONNECT_TOKEN_PRIVATE_BYTES
  | challenge s d | response s d => s < 2 ^ 64 ∧ d.length = C.NETCODE_CHALLENGE_TOKEN_BYTES
  | keepAlive i m => i < 2 ^ 32 ∧ m < 2 ^ 32
  | _ => True

instance (p : Packet) : Decidable p.WF := by
  cases p <;> unfold WF <;> infer_instance

/-- `sequence_bytes_required`: number of bytes up to the highest non-zero one, at least 1
    (so every sealed packet reaches the decoder's minimum of 2 + MAC bytes) -/
def sequenceBytesRequired (sequence : Nat) : Nat :=
  go sequence 8
where
  /-- the `for i in 0..8` loop, mask = 0xFF << 8*(k-1); falling through returns 1 -/
  go (sequence : Nat) : Nat → Nat
    | 0 => 1
    | k + 1 => if sequence / 256 ^ k % 256 ≠ 0 then k + 1 else go sequence k

/-- `decode_prefix` -/
def decodePrefix (v : UInt8) : Nat × Nat := (v.toNat % 16, v.toNat / 16)

/-- `encode_prefix` (`value | (len << 4)`, `value ≤ 6`, `1 ≤ len ≤ 8`; a connection request is
    written with `encode_prefix(0, 0)` = 0x10) -/
def encodePrefix (value : Nat) (sequence : Nat) : UInt8 :=
  UInt8.ofNat (value + sequenceBytesRequired sequence * 16)

/-- `write_sequence`: `out.write(..)` — a short write is *not* an error -/
def writeSequence (w : Wr) (seq : Nat) : Wr × Nat :=
  w.write ((leBytes seq 8).take (sequenceBytesRequired seq))

/-- `read_sequence` on a cursor whose unread rest is `src` -/
def readSequence (src : Bytes) (len : Nat) : Option (Nat × Bytes) :=
  if len > 8 then none                      -- io::ErrorKind::InvalidData
  else match readN len src with
    | none => none                          -- UnexpectedEof
    | some (b, r) => some (leVal b, r)      -- scratch is zero-filled above `len`

/-- packet.rs `get_additional_data` -/
def additionalData (pfx : UInt8) (protocolId : Nat) : Bytes :=
  C.NETCODE_VERSION_INFO ++ leBytes protocolId 8 ++ [pfx]

/-- crypto.rs nonce: 4 zero bytes ‖ sequence (LE) -/
def nonce (sequence : Nat) : Bytes := [0, 0, 0, 0] ++ leBytes sequence 8

/-- `Packet::write` -/
def write (p : Packet) (w : Wr) : Option Wr :=
  match p with
  | connectionRequest v pid e x d => do
      let w ← w.writeAll v
      let w ← w.writeAll (leBytes pid 8)
      let w ← w.writeAll (leBytes e 8)
      let w ← w.writeAll x
      w.writeAll d
  | challenge s d | response s d => do
      let w ← w.writeAll (leBytes s 8)
      w.writeAll d
  | keepAlive i m => do
      let w ← w.writeAll (leBytes i 4)
      w.writeAll (leBytes m 4)
  | payload b => w.writeAll b
  | connectionDenied | disconnect => some w

/-- `Packet::read` (trailing bytes are ignored) -/
def read (ty : PacketType) (src : Bytes) : NRes Packet :=
  if ty = .payload then .ok (.payload src) else
  match ty with
  | .connectionRequest => io? do
      let (v, r) ← readN 13 src
      let (pid, r) ← readU64 r
      let (e, r) ← readU64 r
      let (x, r) ← readN C.NETCODE_CONNECT_TOKEN_XNONCE_BYTES r
      let (d, _) ← readN C.NETCODE_CONNECT_TOKEN_PRIVATE_BYTES r
      pure (.connectionRequest v pid e x d)
  | .challenge => io? do
      let (s, r) ← readU64 src
      let (d, _) ← readN C.NETCODE_CHALLENGE_TOKEN_BYTES r
      pure (.challenge s d)
  | .response => io? do
      let (s, r) ← readU64 src
      let (d, _) ← readN C.NETCODE_CHALLENGE_TOKEN_BYTES r
      pure (.response s d)
  | .keepAlive => io? do
      let (i, r) ← readU32 src
      let (m, _) ← readU32 r
      pure (.keepAlive i m)
  | .connectionDenied => .ok .connectionDenied
  | .disconnect => .ok .disconnect
  | .payload => .panic "packet.rs Packet::read: unreachable!()"

/-- `encrypt_in_place(buffer[start .. end+MAC], sequence, key, aad)` as a function of the plaintext -/
def sealBody (a : AEAD) (key : Bytes) (sequence : Nat) (aad body : Bytes) : Bytes :=
  a.seal key (nonce sequence) aad body

/-- `dencrypted_in_place`: `buffer.len() - NETCODE_MAC_BYTES` is an unchecked subtraction -/
def openBody (a : AEAD) (key : Bytes) (sequence : Nat) (aad ct : Bytes) : NRes Bytes :=
  if ct.length < C.NETCODE_MAC_BYTES then .panic "crypto.rs dencrypted_in_place: split_at_mut underflow"
  else match a.open key (nonce sequence) aad ct with
    | some p => .ok p
    | none => .err .cryptoError

/-- `Packet::encode` into a buffer of `cap` bytes; returns `buffer[..len]` -/
def encode (a : AEAD) (p : Packet) (cap : Nat) (protocolId : Nat) (crypto : Option (Nat × Bytes)) : NRes Bytes :=
  match p with
  | connectionRequest .. => do
      -- connection requests are not encrypted and carry no sequence: the prefix is the packet type alone
      let w ← io? ((Wr.new cap).writeAll [UInt8.ofNat p.id])
      let w ← io? (p.write w)
      pure w.out
  | _ =>
    match crypto with
    | none => .err .unavailablePrivateKey
    | some (sequence, key) => do
      let pfx := encodePrefix p.id sequence
      let w ← io? ((Wr.new cap).writeAll [pfx])
      let (w, _) := writeSequence w sequence
      let start := w.pos
      let w ← io? (p.write w)
      let «end» := w.pos
      if cap < «end» + C.NETCODE_MAC_BYTES then .err .ioError   -- "buffer too small to encode with encryption tag"
      else
        let aad := additionalData pfx protocolId
        pure (w.out.take start ++ sealBody a key sequence aad (w.out.drop start))

/-- `Packet::decode`.  The replay window is returned as well: it is advanced *before* the body is
    parsed, so an authentic packet with a short body still moves it (and the call returns IoError). -/
def decode (a : AEAD) (buffer : Bytes) (protocolId : Nat) (key : Option Bytes) (rp : Option RP) :
    NRes (Nat × Packet) × Option RP :=
  if buffer.length < 2 + C.NETCODE_MAC_BYTES then (.err .packetTooSmall, rp) else
  match buffer with
  | [] => (.panic "packet.rs decode: buffer[0]", rp)
  | pfx :: rest =>
    let (ty, sequenceLen) := decodePrefix pfx
    match PacketType.fromU8 ty with
    | .err e => (.err e, rp)
    | .panic s => (.panic s, rp)
    | .ok ty =>
      if ty = .connectionRequest then
        (do let p ← read .connectionRequest rest; pure (0, p), rp)
      else match key with
      | none => (.err .unavailablePrivateKey, rp)
      | some key =>
        match readSequence rest sequenceLen with
        | none => (.err .ioError, rp)
        | some (sequence, body) =>
          let readPos := 1 + sequenceLen
          if buffer.length < readPos + C.NETCODE_MAC_BYTES then (.err .packetTooSmall, rp) else
          let dup := match rp with
            | some w => ty.applyReplayProtection && w.alreadyReceived sequence
            | none => false
          if dup then (.err .duplicatedSequence, rp) else
          match openBody a key sequence (additionalData pfx protocolId) body with
          | .err e => (.err e, rp)
          | .panic s => (.panic s, rp)
          | .ok plain =>
            let rp' := match rp with
              | some w => if ty.applyReplayProtection then some (w.advance sequence) else some w
              | none => none
            (do let p ← read ty plain; pure (sequence, p), rp')

end Packet

/-- packet.rs `ChallengeToken` -/
structure ChallengeToken where
  clientId : Nat
  userData : Bytes
  deriving Repr, DecidableEq

namespace ChallengeToken

/-- `Packet::generate_challenge`: 300-byte zeroed buffer, token written at the front, whole buffer sealed
    (plaintext = first 284 bytes), nonce = challenge sequence, empty AAD -/
def generate (a : AEAD) (clientId : Nat) (userData : Bytes) (challengeSequence : Nat) (challengeKey : Bytes) :
    NRes Packet := do
  let w ← io? ((Wr.new C.NETCODE_CHALLENGE_TOKEN_BYTES).writeAll (leBytes clientId 8))
  let w ← io? (w.writeAll userData)
  let buffer := w.out ++ List.replicate (C.NETCODE_CHALLENGE_TOKEN_BYTES - w.out.length) 0
  let plain := buffer.take (C.NETCODE_CHALLENGE_TOKEN_BYTES - C.NETCODE_MAC_BYTES)
  pure (.challenge challengeSequence (Packet.sealBody a challengeKey challengeSequence [] plain))

/-- `ChallengeToken::decode` -/
def decode (a : AEAD) (tokenData : Bytes) (tokenSequence : Nat) (challengeKey : Bytes) : NRes ChallengeToken := do
  let plain ← Packet.openBody a challengeKey tokenSequence [] tokenData
  -- the reader runs over the whole 300-byte buffer (decrypted part ‖ stale tag bytes)
  let decoded := plain ++ tokenData.drop plain.length
  io? do
    let (cid, r) ← readU64 decoded
    let (ud, _) ← readN C.NETCODE_USER_DATA_BYTES r
    pure ⟨cid, ud⟩

end ChallengeToken
end RenetVerif.Netcode
