/-
  Small helpers shared by the netcode model: little-endian integer codecs, an `io::Cursor`
  reader (`Rd`) and writer (`Wr`) over byte lists, `Duration` arithmetic.
-/
import RenetVerif.Base.Res
import RenetVerif.Generated.Consts
namespace RenetVerif.Netcode

/-! ### constants derived from the generated ones -/
namespace C
export RenetVerif.C (NETCODE_MAX_CLIENTS NETCODE_MAX_PENDING_FACTOR NETCODE_MAX_PACKET_BYTES NETCODE_MAX_PAYLOAD_BYTES
  NETCODE_KEY_BYTES NETCODE_MAC_BYTES NETCODE_USER_DATA_BYTES NETCODE_CHALLENGE_TOKEN_BYTES
  NETCODE_CONNECT_TOKEN_XNONCE_BYTES NETCODE_CONNECT_TOKEN_PRIVATE_BYTES NETCODE_SEND_RATE_NS
  NETCODE_REPLAY_BUFFER_SIZE NETCODE_GLOBAL_SEQUENCE_START_SHIFT NETCODE_ADDRESS_NONE NETCODE_ADDRESS_IPV4
  NETCODE_ADDRESS_IPV6 NETCODE_TOKEN_MAX_ADDRESSES)
/-- lib.rs `NETCODE_VERSION_INFO` = b"NETCODE 1.02\0" -/
def NETCODE_VERSION_INFO : List UInt8 := [78, 69, 84, 67, 79, 68, 69, 32, 49, 46, 48, 50, 0]
/-- lib.rs `NETCODE_MAX_PENDING_CLIENTS` -/
def NETCODE_MAX_PENDING_CLIENTS : Nat := RenetVerif.C.NETCODE_MAX_CLIENTS * RenetVerif.C.NETCODE_MAX_PENDING_FACTOR
/-- server.rs `connect_token_entries: [_; NETCODE_MAX_CLIENTS * 2]` -/
def NETCODE_TOKEN_ENTRIES : Nat := RenetVerif.C.NETCODE_MAX_CLIENTS * 2
/-- server.rs `global_sequence: 1 << 63` -/
def NETCODE_GLOBAL_SEQUENCE_START : Nat := 2 ^ RenetVerif.C.NETCODE_GLOBAL_SEQUENCE_START_SHIFT
end C

/-- little-endian encoding of `n` into exactly `k` bytes (`to_le_bytes`, value taken mod 256^k) -/
def leBytes (n : Nat) : Nat → Bytes
  | 0 => []
  | k + 1 => UInt8.ofNat (n % 256) :: leBytes (n / 256) k

/-- little-endian value of a byte string (`from_le_bytes`) -/
def leVal : Bytes → Nat
  | [] => 0
  | b :: r => b.toNat + 256 * leVal r

def U64_MAX : Nat := 2 ^ 64 - 1

/-- `i32::from_le_bytes` of the u32 value `v` -/
def i32OfU32 (v : Nat) : Int := if v < 2 ^ 31 then (v : Int) else (v : Int) - 2 ^ 32
/-- `i32::to_le_bytes` -/
def i32le (t : Int) : Bytes := leBytes (t % (2 ^ 32 : Int)).toNat 4

/-! ### `io::Read` on a cursor: the state is the unread rest; `none` = `io::Error` (UnexpectedEof) -/

/-- `read_exact` of `n` bytes -/
def readN (n : Nat) (src : Bytes) : Option (Bytes × Bytes) :=
  if src.length < n then none else some (src.take n, src.drop n)

def readU (n : Nat) (src : Bytes) : Option (Nat × Bytes) :=
  match readN n src with
  | none => none
  | some (b, r) => some (leVal b, r)

def readU8 := readU 1
def readU16 := readU 2
def readU32 := readU 4
def readU64 := readU 8
def readI32 (src : Bytes) : Option (Int × Bytes) :=
  match readU 4 src with
  | none => none
  | some (v, r) => some (i32OfU32 v, r)

/-! ### `io::Write` on `Cursor<&mut [u8]>`: fixed capacity, position = bytes written so far -/
structure Wr where
  cap : Nat
  out : Bytes
  deriving Repr

namespace Wr
def new (cap : Nat) : Wr := ⟨cap, []⟩
def pos (w : Wr) : Nat := w.out.length
/-- `Write::write`: writes what fits, never fails -/
def write (w : Wr) (b : Bytes) : Wr × Nat :=
  let n := min b.length (w.cap - w.out.length)
  ({ w with out := w.out ++ b.take n }, n)
/-- `Write::write_all`: `none` = `io::ErrorKind::WriteZero` -/
def writeAll (w : Wr) (b : Bytes) : Option Wr :=
  if w.out.length + b.length ≤ w.cap then some { w with out := w.out ++ b } else none
end Wr

/-! ### `std::time::Duration` as Nat nanoseconds -/
def NS_PER_SEC : Nat := 1000000000
/-- `Duration::MAX` = u64::MAX s + 999_999_999 ns -/
def DURATION_MAX : Nat := 2 ^ 64 * NS_PER_SEC - 1
def asSecs (d : Nat) : Nat := d / NS_PER_SEC
def fromSecs (s : Nat) : Nat := s * NS_PER_SEC
/-- `Duration + Duration` (panics on overflow) -/
def durAdd {ε} (a b : Nat) (site : String) : Res ε Nat :=
  if a + b ≤ DURATION_MAX then .ok (a + b) else .panic site

/-- checked u64 increment -/
def incU64 {ε} (a : Nat) (site : String) : Res ε Nat :=
  if a + 1 ≤ U64_MAX then .ok (a + 1) else .panic site

def listSet {α} : List α → Nat → α → List α := List.set

end RenetVerif.Netcode
