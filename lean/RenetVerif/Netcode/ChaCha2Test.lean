/-
  TESTS for `RenetVerif.ChaCha2` (the implementation `ChaChaLaws.chacha2_laws` is about):
    1. known-answer vectors (RFC 8439 and draft-irtf-cfrg-xchacha), mirroring `ChaChaTest.lean`;
    2. executable agreement with the previous implementation `RenetVerif.ChaCha` on pseudo-random
       (key, nonce, aad, plaintext) — seal/open/xseal/xopen, also on tampered inputs and on
       keys/nonces of the wrong length.
  Every check is a `#guard`: a disagreement makes this file fail to compile.
  (These are tests of the equality of two executable functions, not theorems.)
-/
import RenetVerif.Netcode.ChaCha
import RenetVerif.Netcode.ChaCha2

namespace RenetVerif.ChaCha2Test
open RenetVerif

def hexVal (c : Char) : Nat :=
  if '0' ≤ c ∧ c ≤ '9' then c.toNat - '0'.toNat
  else if 'a' ≤ c ∧ c ≤ 'f' then c.toNat - 'a'.toNat + 10 else 0

/-- Parse hex, ignoring whitespace. -/
def hex (s : String) : List UInt8 :=
  let rec go : List Char → List UInt8
    | a :: b :: t => (hexVal a * 16 + hexVal b).toUInt8 :: go t
    | _ => []
  go (s.toList.filter (fun c => !c.isWhitespace))

def range (a n : Nat) : List UInt8 := (List.range n).map (fun i => (a + i).toUInt8)

def sunscreen : List UInt8 :=
  ("Ladies and Gentlemen of the class of '99: If I could offer you only one tip for the future, " ++
   "sunscreen would be it.").toUTF8.toList

#guard sunscreen.length == 114

/-! ## 1. known-answer vectors -/

/-! RFC 8439 §2.3.2 block function -/
#guard ChaCha2.blockBytes (range 0 32).toByteArray 1 (hex "000000090000004a00000000").toByteArray ==
  hex "10f1e7e4d13b5915500fdd1fa32071c4 c7d1f4c733c068030422aa9ac3d46c4e
       d2826446079faa0914c2d705d98b02a2 b5129cd1de164eb9cbd083e8a2503c4e"

/-! RFC 8439 §2.4.2 encryption (counter = 1) -/
#guard ChaCha2.chacha20 (range 0 32).toByteArray 1 (hex "000000000000004a00000000").toByteArray sunscreen ==
  hex "6e2e359a2568f98041ba0728dd0d6981 e97e7aec1d4360c20a27afccfd9fae0b
       f91b65c5524733ab8f593dabcd62b357 1639d624e65152ab8f530c359f0861d8
       07ca0dbf500d6a6156a38e088a22b65e 52bc514d16ccf806818ce91ab7793736
       5af90bbf74a35be6b40b8eedf2785e42 874d"

/-! RFC 8439 §2.5.2 Poly1305 -/
#guard ChaCha2.poly1305
          (hex "85d6be7857556d337f4452fe42d506a80103808afb0db2fd4abff6af4149f51b").toByteArray
          "Cryptographic Forum Research Group".toUTF8 ==
  hex "a8061dc1305136c6c22b8baf0c0127a9"

/-! RFC 8439 §2.6.2 Poly1305 key generation -/
#guard (ChaCha2.polyKey (range 0x80 32).toByteArray (hex "000000000001020304050607").toByteArray).toList ==
  hex "8ad5a08b905f81cc815040274ab29471 a833b637e3fd0da508dbb8e2fdd1a646"

/-! RFC 8439 §2.8.2 AEAD_CHACHA20_POLY1305 -/
def aad : List UInt8 := hex "50515253c0c1c2c3c4c5c6c7"
def rfcNonce : List UInt8 := hex "070000004041424344454647"
def rfcOut : List UInt8 :=
  hex "d31a8d34648e60db7b86afbc53ef7ec2 a4aded51296e08fea9e2b5a736ee62d6
       3dbea45e8ca9671282fafb69da92728b 1a71de0a9e060b2905d6a5b67ecd3b36
       92ddbd7f2d778b8c9803aee328091b58 fab324e4fad675945585808b4831d7bc
       3ff4def08e4b7a9de576d26586cec64b 6116
       1ae10b594f09e26a7e902ecbd0600691"

#guard ChaCha2.seal (range 0x80 32) rfcNonce aad sunscreen == rfcOut
#guard ChaCha2.open (range 0x80 32) rfcNonce aad rfcOut == some sunscreen

/-! draft-irtf-cfrg-xchacha §2.2.1 HChaCha20 -/
#guard (ChaCha2.hchacha20 (range 0 32).toByteArray (hex "000000090000004a0000000031415927").toByteArray).toList ==
  hex "82413b42 27b27bfe d30e4250 8a877d73 a0f9e4d5 8a74a853 c12ec413 26d3ecdc"

/-! draft-irtf-cfrg-xchacha A.3.1 AEAD_XChaCha20_Poly1305 -/
def xOut : List UInt8 :=
  hex "bd6d179d3e83d43b9576579493c0e939 572a1700252bfaccbed2902c21396cbb
       731c7f1b0b4aa6440bf3a82f4eda7e39 ae64c6708c54c216cb96b72e1213b452
       2f8c9ba40db5d945b11b69b982c1bb9e 3f3fac2bc369488f76b2383565d3fff9
       21f9664c97637da9768812f615c68b13 b52e
       c0875924c1c7987947deafd8780acf49"

#guard ChaCha2.xseal (range 0x80 32) (range 0x40 24) aad sunscreen == xOut
#guard ChaCha2.xopen (range 0x80 32) (range 0x40 24) aad xOut == some sunscreen

/-! netcode nonce -/
#guard ChaCha2.nonceOfSeq 0x0102030405060708 == hex "00000000 0807060504030201"
#guard ChaCha2.nonceOfSeq 0 == List.replicate 12 0
#guard [0, 1, 255, 256, 0xdeadbeefcafe, 2^64 - 1, 2^64, 2^64 + 5].all fun s =>
  ChaCha2.nonceOfSeq s == ChaCha.nonceOfSeq s

/-! round trips and tamper detection (same battery as `ChaChaTest`) -/
def pseudo (seed n : Nat) : List UInt8 :=
  (List.range n).map (fun i => ((seed + i) * 2654435761 / 65536 % 256).toUInt8)

def flipBit (l : List UInt8) (i : Nat) : List UInt8 := l.modify i (· ^^^ 0x10)

def rtLens : List Nat := [0, 1, 15, 16, 17, 63, 64, 65, 127, 128, 129, 300, 1300]

def rtOk (len : Nat) : Bool :=
  let key := pseudo (len + 1) 32
  let n12 := ChaCha2.nonceOfSeq (len * 7919)
  let n24 := pseudo (len + 2) 24
  let ad := pseudo (len + 3) (len % 21)
  let pt := pseudo (len + 4) len
  let c := ChaCha2.seal key n12 ad pt
  let x := ChaCha2.xseal key n24 ad pt
  c.length == len + 16 && x.length == len + 16 &&
  ChaCha2.open key n12 ad c == some pt && ChaCha2.xopen key n24 ad x == some pt &&
  -- flip a bit in: first byte, last ct byte (if any), first tag byte, last tag byte
  ([0, len - 1, len, len + 15].all fun i =>
    ChaCha2.open key n12 ad (flipBit c i) == none && ChaCha2.xopen key n24 ad (flipBit x i) == none) &&
  -- wrong aad / key / nonce / truncated input
  ChaCha2.open key n12 (0 :: ad) c == none && ChaCha2.xopen key n24 (0 :: ad) x == none &&
  ChaCha2.open (flipBit key 31) n12 ad c == none && ChaCha2.xopen (flipBit key 0) n24 ad x == none &&
  ChaCha2.open key (flipBit n12 11) ad c == none && ChaCha2.xopen key (flipBit n24 3) ad x == none &&
  ChaCha2.xopen key (flipBit n24 23) ad x == none &&
  ChaCha2.open key n12 ad c.dropLast == none && ChaCha2.xopen key n24 ad (x.drop 1) == none

#guard rtLens.all rtOk
#guard ChaCha2.open (range 0 32) (range 0 12) [] (List.replicate 15 0) == none
#guard ChaCha2.xopen (range 0 32) (range 0 24) [] [] == none

/-! ## 2. agreement old (`ChaCha`) vs new (`ChaCha2`) -/

/-- xorshift64 step. -/
def rngNext (s : UInt64) : UInt64 :=
  let s := s ^^^ (s <<< 13)
  let s := s ^^^ (s >>> 7)
  s ^^^ (s <<< 17)

/-- `n` pseudo-random bytes and the advanced state. -/
def rngBytes : Nat → UInt64 → List UInt8 × UInt64
  | 0, s => ([], s)
  | n + 1, s =>
    let s := rngNext s
    let (l, s') := rngBytes n s
    ((s >>> 24).toUInt8 :: l, s')

def rngNat (s : UInt64) (bound : Nat) : Nat × UInt64 :=
  let s := rngNext s
  ((s >>> 11).toNat % bound, s)

/-- One agreement case: plaintext length `len`, aad length `alen`, key/nonce lengths as given
    (32/12/24 are the nominal ones; others exercise `fit`). -/
def agreeCase (seed : UInt64) (len alen klen n12len n24len : Nat) : Bool :=
  let (key, s) := rngBytes klen seed
  let (n12, s) := rngBytes n12len s
  let (n24, s) := rngBytes n24len s
  let (ad, s) := rngBytes alen s
  let (pt, s) := rngBytes len s
  let (pos, _) := rngNat s (len + 16)
  let c := ChaCha.seal key n12 ad pt
  let x := ChaCha.xseal key n24 ad pt
  ChaCha2.seal key n12 ad pt == c &&
  ChaCha2.xseal key n24 ad pt == x &&
  ChaCha2.open key n12 ad c == some pt && ChaCha.open key n12 ad c == some pt &&
  ChaCha2.xopen key n24 ad x == some pt && ChaCha.xopen key n24 ad x == some pt &&
  -- tampered / foreign inputs: both reject (or, for `pt` read as a ciphertext, at least agree)
  ChaCha2.open key n12 ad (flipBit c pos) == none && ChaCha.open key n12 ad (flipBit c pos) == none &&
  ChaCha2.xopen key n24 ad (flipBit x pos) == none && ChaCha.xopen key n24 ad (flipBit x pos) == none &&
  ChaCha2.open key n12 ad pt == ChaCha.open key n12 ad pt &&
  ChaCha2.xopen key n24 ad pt == ChaCha.xopen key n24 ad pt &&
  ChaCha2.open key n12 ad x == ChaCha.open key n12 ad x

/-- The boundary lengths, each with nominal key/nonce sizes and a few aad lengths. -/
def edgeLens : List Nat := [0, 1, 15, 16, 17, 63, 64, 65, 127, 128, 129, 255, 256, 257, 1024, 1300, 1399, 1400]

#guard edgeLens.all fun len =>
  [0, 1, 12, 16, 17, 33].all fun alen =>
    agreeCase (0x9e3779b97f4a7c15 + (len * 64 + alen).toUInt64) len alen 32 12 24

/-- `count` cases with pseudo-random lengths `0..1400` (plaintext) and `0..40` (aad). -/
def agreeRandom (count : Nat) (seed : UInt64) : Bool := Id.run do
  let mut s := seed
  for _ in [0:count] do
    let (len, s1) := rngNat s 1401
    let (alen, s2) := rngNat s1 41
    s := rngNext s2
    if !agreeCase s len alen 32 12 24 then return false
  return true

#guard agreeRandom 200 0x243f6a8885a308d3

/-! Keys / nonces of the wrong length go through `fit` identically. -/
#guard [(0, 0, 0), (31, 11, 23), (33, 13, 25), (16, 8, 16), (64, 24, 12)].all fun (kl, a, b) =>
  [0, 1, 64, 100].all fun len => agreeCase (0x13198a2e03707344 + (kl * 1000 + len).toUInt64) len 7 kl a b

end RenetVerif.ChaCha2Test
