/-
  renetcode/src/client.rs : NetcodeClient (Secure authentication: built from a ConnectToken value).
-/
import RenetVerif.Netcode.Token
namespace RenetVerif.Netcode

inductive ClientState where
  | disconnected (reason : DisconnectReason)
  | sendingConnectionRequest
  | sendingConnectionResponse
  | connected
  deriving Repr, DecidableEq

/-- `{:?}` of the Rust enum -/
def ClientState.name : ClientState → String
  | .disconnected r => "Disconnected(" ++ r.name ++ ")"
  | .sendingConnectionRequest => "SendingConnectionRequest"
  | .sendingConnectionResponse => "SendingConnectionResponse"
  | .connected => "Connected"

structure NetcodeClient where
  state : ClientState
  clientId : Nat
  connectStartTime : Nat
  lastPacketSendTime : Option Nat
  lastPacketReceivedTime : Nat
  currentTime : Nat
  sequence : Nat
  serverAddr : Addr
  serverAddrIndex : Nat
  connectToken : ConnectToken
  challengeTokenSequence : Nat
  challengeTokenData : Bytes
  maxClients : Nat
  clientIndex : Nat
  sendRate : Nat
  replayProtection : RP
  deriving Repr

namespace NetcodeClient

/-- `NetcodeClient::new(current_time, ClientAuthentication::Secure { connect_token })` -/
def new (currentTime : Nat) (connectToken : ConnectToken) : NRes NetcodeClient :=
  match connectToken.serverAddresses.head? with
  | some (some serverAddr) =>
    .ok { sequence := 0, clientId := connectToken.clientId, serverAddr, serverAddrIndex := 0
          challengeTokenSequence := 0, state := .sendingConnectionRequest, connectStartTime := currentTime
          lastPacketSendTime := none, lastPacketReceivedTime := currentTime, currentTime
          maxClients := 0, clientIndex := 0, sendRate := C.NETCODE_SEND_RATE_NS
          challengeTokenData := List.replicate C.NETCODE_CHALLENGE_TOKEN_BYTES 0
          connectToken, replayProtection := RP.new }
  | _ => .panic "client.rs new: cannot create or deserialize a ConnectToken without a server address"

def isConnecting (c : NetcodeClient) : Bool :=
  c.state = .sendingConnectionRequest ∨ c.state = .sendingConnectionResponse
def isConnected (c : NetcodeClient) : Bool := c.state = .connected
def isDisconnected (c : NetcodeClient) : Bool :=
  match c.state with
  | .disconnected _ => true
  | _ => false

def disconnectReason (c : NetcodeClient) : Option DisconnectReason :=
  match c.state with
  | .disconnected r => some r
  | _ => none

/-- `time_since_last_received_packet` -/
def timeSinceLastReceivedPacket (c : NetcodeClient) : Res Empty Nat :=
  Res.csub c.currentTime c.lastPacketReceivedTime "client.rs time_since_last_received_packet: Duration sub"

/-- `disconnect` -/
def disconnect (a : AEAD) (c : NetcodeClient) : NRes ((Addr × Bytes)) × NetcodeClient :=
  let c := { c with state := .disconnected .disconnectedByClient }
  (do let out ← Packet.disconnect.encode a C.NETCODE_MAX_PACKET_BYTES c.connectToken.protocolId
                  (some (c.sequence, c.connectToken.clientToServerKey))
      pure (c.serverAddr, out), c)

/-- `process_packet` -/
def processPacket (a : AEAD) (c : NetcodeClient) (buffer : Bytes) : Res Empty (Option Bytes × NetcodeClient) :=
  let (r, rp) := Packet.decode a buffer c.connectToken.protocolId (some c.connectToken.serverToClientKey)
                   (some c.replayProtection)
  let c := { c with replayProtection := rp.getD c.replayProtection }
  match r with
  | .panic m => .panic m
  | .err _ => .ok (none, c)
  | .ok (_, packet) =>
    match packet, c.state with
    | .connectionDenied, .sendingConnectionRequest | .connectionDenied, .sendingConnectionResponse =>
      .ok (none, { c with state := .disconnected .connectionDenied, lastPacketReceivedTime := c.currentTime })
    | .challenge tokenSequence tokenData, .sendingConnectionRequest =>
      .ok (none, { c with challengeTokenSequence := tokenSequence, lastPacketReceivedTime := c.currentTime
                          lastPacketSendTime := none, challengeTokenData := tokenData
                          state := .sendingConnectionResponse })
    | .keepAlive .., .connected =>
      .ok (none, { c with lastPacketReceivedTime := c.currentTime })
    | .keepAlive clientIndex maxClients, .sendingConnectionResponse =>
      .ok (none, { c with lastPacketReceivedTime := c.currentTime, maxClients, clientIndex, state := .connected })
    | .payload p, .connected =>
      .ok (some p, { c with lastPacketReceivedTime := c.currentTime })
    | .disconnect, .connected =>
      .ok (none, { c with state := .disconnected .disconnectedByServer, lastPacketReceivedTime := c.currentTime })
    | _, _ => .ok (none, c)

/-- the decode error `process_packet` swallowed -/
def processPacketError (a : AEAD) (c : NetcodeClient) (buffer : Bytes) : Option NetcodeError :=
  match (Packet.decode a buffer c.connectToken.protocolId (some c.connectToken.serverToClientKey)
           (some c.replayProtection)).1 with
  | .err e => some e
  | _ => none

/-- `generate_payload_packet` -/
def generatePayloadPacket (a : AEAD) (c : NetcodeClient) (payload : Bytes) : NRes ((Addr × Bytes) × NetcodeClient) :=
  if payload.length > C.NETCODE_MAX_PAYLOAD_BYTES then .err .payloadAboveLimit else
  if c.state ≠ .connected then .err .clientNotConnected else do
  let out ← (Packet.payload payload).encode a C.NETCODE_MAX_PACKET_BYTES c.connectToken.protocolId
              (some (c.sequence, c.connectToken.clientToServerKey))
  let sq ← incU64 c.sequence "client.rs generate_payload_packet: sequence += 1"
  pure ((c.serverAddr, out), { c with sequence := sq, lastPacketSendTime := some c.currentTime })

/-- `update_internal_state`; the state is returned with the error as well -/
def updateInternalState (c : NetcodeClient) (duration : Nat) : Res Empty (Option NetcodeError × NetcodeClient) := do
  let now ← durAdd c.currentTime duration "client.rs update_internal_state: current_time += duration"
  let c := { c with currentTime := now }
  let timedOut ← (if c.connectToken.timeoutSeconds > 0 then do
      let deadline ← durAdd c.lastPacketReceivedTime (fromSecs c.connectToken.timeoutSeconds.toNat)
                       "client.rs update_internal_state: last_packet_received_time + timeout"
      pure (decide (deadline < c.currentTime))
    else pure false : Res Empty Bool)
  match c.state with
  | .sendingConnectionRequest | .sendingConnectionResponse =>
    let expireSeconds := c.connectToken.expireTimestamp - c.connectToken.createTimestamp   -- saturating_sub
    let elapsed ← Res.csub c.currentTime c.connectStartTime "client.rs update_internal_state: current_time - connect_start_time"
    if asSecs elapsed ≥ expireSeconds then
      pure (some .expired, { c with state := .disconnected .connectTokenExpired })
    else if timedOut then
      let reason := if c.state = .sendingConnectionResponse then DisconnectReason.connectionResponseTimedOut
                    else DisconnectReason.connectionRequestTimedOut
      let c := { c with state := .disconnected reason, serverAddrIndex := c.serverAddrIndex + 1 }
      if c.serverAddrIndex ≥ C.NETCODE_TOKEN_MAX_ADDRESSES then pure (some .noMoreServers, c) else
      match c.connectToken.serverAddresses[c.serverAddrIndex]? with
      | none => .panic "client.rs update_internal_state: server_addresses[index]"
      | some none => pure (some .noMoreServers, c)
      | some (some serverAddress) =>
        pure (none, { c with state := .sendingConnectionRequest, serverAddr := serverAddress
                             connectStartTime := c.currentTime, lastPacketSendTime := none
                             lastPacketReceivedTime := c.currentTime, challengeTokenSequence := 0 })
    else pure (none, c)
  | .connected =>
    if timedOut then
      pure (some (.disconnected .connectionTimedOut), { c with state := .disconnected .connectionTimedOut })
    else pure (none, c)
  | .disconnected reason => pure (some (.disconnected reason), c)

/-- `generate_packet` -/
def generatePacket (a : AEAD) (c : NetcodeClient) : Res Empty (Option (Bytes × Addr) × NetcodeClient) := do
  let tooSoon ← (match c.lastPacketSendTime with
    | some t => do
      let d ← Res.csub c.currentTime t "client.rs generate_packet: current_time - last_packet_send_time"
      pure (decide (d < c.sendRate))
    | none => pure false : Res Empty Bool)
  if tooSoon then pure (none, c) else
  let active := match c.state with
    | .disconnected _ => false
    | _ => true
  let c := if active then { c with lastPacketSendTime := some c.currentTime } else c
  let packet? : Option Packet := match c.state with
    | .sendingConnectionRequest =>
      some (.connectionRequest C.NETCODE_VERSION_INFO c.connectToken.protocolId c.connectToken.expireTimestamp
              c.connectToken.xnonce c.connectToken.privateData)
    | .sendingConnectionResponse => some (.response c.challengeTokenSequence c.challengeTokenData)
    | .connected => some (.keepAlive 0 0)
    | .disconnected _ => none
  match packet? with
  | none => pure (none, c)
  | some packet =>
    match packet.encode a C.NETCODE_MAX_PACKET_BYTES c.connectToken.protocolId
            (some (c.sequence, c.connectToken.clientToServerKey)) with
    | .panic m => .panic m
    | .err _ => pure (none, c)
    | .ok out => do
      let sq ← incU64 c.sequence "client.rs generate_packet: sequence += 1"
      pure (some (out, c.serverAddr), { c with sequence := sq })

/-- `update` -/
def update (a : AEAD) (c : NetcodeClient) (duration : Nat) : Res Empty (Option (Bytes × Addr) × NetcodeClient) := do
  let (e, c) ← updateInternalState c duration
  match e with
  | some _ => pure (none, c)
  | none => generatePacket a c

/-- `NetcodeClient::verif_dump` -/
def dump (c : NetcodeClient) : String :=
  "state=" ++ c.state.name ++ " id=" ++ toString c.clientId ++ " now=" ++ toString c.currentTime ++
  " start=" ++ toString c.connectStartTime ++
  " send=" ++ (match c.lastPacketSendTime with | none => "-" | some t => toString t) ++
  " recv=" ++ toString c.lastPacketReceivedTime ++ " seq=" ++ toString c.sequence ++
  " addr=" ++ c.serverAddr.toText ++ " idx=" ++ toString c.serverAddrIndex ++
  " cseq=" ++ toString c.challengeTokenSequence ++ " max=" ++ toString c.maxClients ++
  " cidx=" ++ toString c.clientIndex ++ " rp{" ++ c.replayProtection.dump ++ "}"

end NetcodeClient
end RenetVerif.Netcode
