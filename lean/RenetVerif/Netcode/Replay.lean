/-
  renetcode/src/replay_protection.rs
  Sequences are u64 values (`Nat < 2^64`); the window is the `[u64; 256]` array.
-/
import RenetVerif.Base.Res
import RenetVerif.Generated.Consts
namespace RenetVerif.Netcode

namespace Replay
def EMPTY : Nat := 2 ^ 64 - 1
def SIZE : Nat := 256
/-- tie to the generated constant: the model hard-wires the window size in the `Vector` type -/
theorem size_eq_const : C.NETCODE_REPLAY_BUFFER_SIZE = SIZE := rfl
end Replay

structure RP where
  mostRecent : Nat
  received : Vector Nat 256
  deriving Repr, DecidableEq

namespace RP
open Replay

/-- `ReplayProtection::new` -/
def new : RP := { mostRecent := 0, received := Vector.replicate 256 EMPTY }

/-- `self.received_packet[sequence as usize % 256]` (always in bounds) -/
abbrev «at» (rp : RP) (s : Nat) : Nat := rp.received[s % 256]'(Nat.mod_lt _ (by decide))

/-- `already_received`; `sequence.checked_add(256)`: on overflow the first test is skipped -/
def alreadyReceived (rp : RP) (s : Nat) : Bool :=
  if s + 256 ≤ U64 ∧ s + 256 ≤ rp.mostRecent then true
  else if rp.at s = EMPTY then false
  else if rp.at s ≥ s then true
  else false
where U64 : Nat := 2 ^ 64 - 1

/-- `advance_sequence` -/
def advance (rp : RP) (s : Nat) : RP :=
  { mostRecent := if s > rp.mostRecent then s else rp.mostRecent,
    received := rp.received.set (s % 256) s (Nat.mod_lt _ (by decide)) }

/-- `ReplayProtection::verif_dump` -/
def dump (rp : RP) : String :=
  let rec go (i : Nat) : List Nat → List String
    | [] => []
    | v :: r => if v = EMPTY then go (i + 1) r else (toString i ++ ":" ++ toString v) :: go (i + 1) r
  "mr=" ++ toString rp.mostRecent ++ ",w=[" ++ ";".intercalate (go 0 rp.received.toList) ++ "]"

end RP
end RenetVerif.Netcode
