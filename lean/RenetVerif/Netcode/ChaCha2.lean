/-
  ChaCha20-Poly1305 (RFC 8439, IETF variant: 96-bit nonce, 32-bit counter) and
  XChaCha20-Poly1305 (draft-irtf-cfrg-xchacha), byte-exact with `RenetVerif.ChaCha`
  (and therefore with the RustCrypto `chacha20poly1305` 0.10 crate), restructured so that the
  functional AEAD laws (`AEAD.Laws`) are provable (`RenetVerif/Lemmas/ChaChaLaws.lean`):

  * the stream cipher `chacha20` is ONE structurally recursive function over the data list
    (`xorGo`: carries the unused rest of the current 64-byte keystream block, refills it from the
    block function when empty) — length preservation and the XOR involution are two inductions;
  * the tag is built by `tagBytes`, a literal 16-element list;
  * `tagEq` folds `|||` of the byte-wise `^^^` over ALL bytes of both tags, then checks both lengths;
  * `sealK = ct ++ tag`, `openK` splits off the last 16 bytes with `take`/`drop`.

  The block function (UInt32 state), HChaCha20 and the Poly1305 accumulator are kept in the
  imperative `ByteArray`/`Nat` style of `ChaCha.lean`: the laws do not depend on what they compute,
  only on the shape of their results.  Executable, total, core-only.
-/
namespace RenetVerif.ChaCha2

/-! ## byte helpers -/

/-- Panic-free byte read (0 when out of range). -/
@[inline] def gb (b : ByteArray) (i : Nat) : UInt8 :=
  if h : i < b.size then b[i] else 0

@[inline] def le32 (b : ByteArray) (i : Nat) : UInt32 :=
  (gb b i).toUInt32 ||| ((gb b (i+1)).toUInt32 <<< 8) |||
  ((gb b (i+2)).toUInt32 <<< 16) ||| ((gb b (i+3)).toUInt32 <<< 24)

@[inline] def push32 (b : ByteArray) (w : UInt32) : ByteArray :=
  (((b.push w.toUInt8).push (w >>> 8).toUInt8).push (w >>> 16).toUInt8).push (w >>> 24).toUInt8

@[inline] def push64 (b : ByteArray) (w : UInt64) : ByteArray :=
  push32 (push32 b w.toUInt32) (w >>> 32).toUInt32

/-- The 4 little-endian bytes of `w` consed onto `rest`. -/
@[inline] def cons32 (w : UInt32) (rest : List UInt8) : List UInt8 :=
  w.toUInt8 :: (w >>> 8).toUInt8 :: (w >>> 16).toUInt8 :: (w >>> 24).toUInt8 :: rest

/-- The 8 little-endian bytes of `w` consed onto `rest`. -/
@[inline] def cons64 (w : UInt64) (rest : List UInt8) : List UInt8 :=
  cons32 w.toUInt32 (cons32 (w >>> 32).toUInt32 rest)

/-- Little-endian load of `n ≤ 8` bytes starting at `off`. -/
@[inline] def le64p (b : ByteArray) (off n : Nat) : UInt64 := Id.run do
  let mut v : UInt64 := 0
  for j in [0:n] do
    v := v ||| ((gb b (off + j)).toUInt64 <<< (8 * j).toUInt64)
  return v

/-- Truncate / zero-pad to exactly `n` bytes. -/
def fit (n : Nat) (l : List UInt8) : ByteArray :=
  let t := l.take n
  (t ++ List.replicate (n - t.length) 0).toByteArray

/-! ## ChaCha20 core -/

structure St where
  (x0 x1 x2 x3 x4 x5 x6 x7 x8 x9 x10 x11 x12 x13 x14 x15 : UInt32)

@[inline] def rotl (x n : UInt32) : UInt32 := (x <<< n) ||| (x >>> (32 - n))

@[inline] def qr (a b c d : UInt32) : UInt32 × UInt32 × UInt32 × UInt32 :=
  let a := a + b; let d := rotl (d ^^^ a) 16
  let c := c + d; let b := rotl (b ^^^ c) 12
  let a := a + b; let d := rotl (d ^^^ a) 8
  let c := c + d; let b := rotl (b ^^^ c) 7
  (a, b, c, d)

/-- One column round followed by one diagonal round. -/
def doubleRound (s : St) : St :=
  let (x0, x4, x8,  x12) := qr s.x0 s.x4 s.x8  s.x12
  let (x1, x5, x9,  x13) := qr s.x1 s.x5 s.x9  s.x13
  let (x2, x6, x10, x14) := qr s.x2 s.x6 s.x10 s.x14
  let (x3, x7, x11, x15) := qr s.x3 s.x7 s.x11 s.x15
  let (x0, x5, x10, x15) := qr x0 x5 x10 x15
  let (x1, x6, x11, x12) := qr x1 x6 x11 x12
  let (x2, x7, x8,  x13) := qr x2 x7 x8  x13
  let (x3, x4, x9,  x14) := qr x3 x4 x9  x14
  ⟨x0, x1, x2, x3, x4, x5, x6, x7, x8, x9, x10, x11, x12, x13, x14, x15⟩

def rounds20 (s : St) : St := Nat.repeat doubleRound 10 s

/-- "expand 32-byte k" ‖ key(32) ‖ w12 w13 w14 w15. -/
@[inline] def initState (key : ByteArray) (w12 w13 w14 w15 : UInt32) : St :=
  ⟨0x61707865, 0x3320646e, 0x79622d32, 0x6b206574,
   le32 key 0, le32 key 4, le32 key 8, le32 key 12,
   le32 key 16, le32 key 20, le32 key 24, le32 key 28,
   w12, w13, w14, w15⟩

/-- RFC 8439 §2.3 block function: the 64-byte keystream block as a list.
    `key` is 32 bytes, `nonce` 12 bytes. -/
def blockBytes (key : ByteArray) (ctr : UInt32) (nonce : ByteArray) : List UInt8 :=
  let i := initState key ctr (le32 nonce 0) (le32 nonce 4) (le32 nonce 8)
  let s := rounds20 i
  cons32 (s.x0 + i.x0) <| cons32 (s.x1 + i.x1) <| cons32 (s.x2 + i.x2) <| cons32 (s.x3 + i.x3) <|
  cons32 (s.x4 + i.x4) <| cons32 (s.x5 + i.x5) <| cons32 (s.x6 + i.x6) <| cons32 (s.x7 + i.x7) <|
  cons32 (s.x8 + i.x8) <| cons32 (s.x9 + i.x9) <| cons32 (s.x10 + i.x10) <| cons32 (s.x11 + i.x11) <|
  cons32 (s.x12 + i.x12) <| cons32 (s.x13 + i.x13) <| cons32 (s.x14 + i.x14) <| cons32 (s.x15 + i.x15) []

/-- Poly1305 one-time key (RFC 8439 §2.6): the first 32 bytes of block 0, as a `ByteArray`. -/
def polyKey (key : ByteArray) (nonce : ByteArray) : ByteArray :=
  let i := initState key 0 (le32 nonce 0) (le32 nonce 4) (le32 nonce 8)
  let s := rounds20 i
  let o := push32 (push32 (push32 (push32 (ByteArray.emptyWithCapacity 32) (s.x0 + i.x0)) (s.x1 + i.x1)) (s.x2 + i.x2)) (s.x3 + i.x3)
  push32 (push32 (push32 (push32 o (s.x4 + i.x4)) (s.x5 + i.x5)) (s.x6 + i.x6)) (s.x7 + i.x7)

/-- HChaCha20 (draft-irtf-cfrg-xchacha §2.2): 32-byte subkey from key and 16-byte nonce. -/
def hchacha20 (key : ByteArray) (nonce16 : ByteArray) : ByteArray :=
  let s := rounds20 (initState key (le32 nonce16 0) (le32 nonce16 4) (le32 nonce16 8) (le32 nonce16 12))
  let o := push32 (push32 (push32 (push32 (ByteArray.emptyWithCapacity 32) s.x0) s.x1) s.x2) s.x3
  push32 (push32 (push32 (push32 o s.x12) s.x13) s.x14) s.x15

/-- The stream-cipher loop.  `ks` is the unused rest of the current keystream block, `ctr` the counter
    of the NEXT block.  Each data byte is XORed with the next keystream byte; when `ks` is empty the
    next block is generated.  (`blockBytes` is never empty; the `[]` branch is there for totality and
    leaves the data unchanged.) -/
def xorGo (key nonce : ByteArray) : UInt32 → List UInt8 → List UInt8 → List UInt8
  | _, _, [] => []
  | ctr, k :: ks, d :: ds => (d ^^^ k) :: xorGo key nonce ctr ks ds
  | ctr, [], d :: ds =>
    match blockBytes key ctr nonce with
    | k :: ks => (d ^^^ k) :: xorGo key nonce (ctr + 1) ks ds
    | [] => d :: ds

/-- RFC 8439 §2.4: XOR `data` with the keystream starting at block counter `ctr`. -/
def chacha20 (key : ByteArray) (ctr : UInt32) (nonce : ByteArray) (data : List UInt8) : List UInt8 :=
  xorGo key nonce ctr [] data

/-! ## Poly1305 -/

def polyP : Nat := 2^130 - 5
def clampMask : Nat := 0x0ffffffc0ffffffc0ffffffc0fffffff

/-- Little-endian value of `len ≤ 16` bytes at `off`. -/
@[inline] def leNat (b : ByteArray) (off len : Nat) : Nat :=
  (le64p b off (min len 8)).toNat + ((le64p b (off + 8) (len - 8)).toNat <<< 64)

/-- RFC 8439 §2.5 accumulator: one-time `key` is 32 bytes (r ‖ s); result is `acc + s` (untruncated). -/
def poly1305Nat (key : ByteArray) (msg : ByteArray) : Nat := Id.run do
  let r := leNat key 0 16 &&& clampMask
  let s := leNat key 16 16
  let n := msg.size
  let mut acc : Nat := 0
  for ci in [0:(n + 15) / 16] do
    let off := ci * 16
    let len := min 16 (n - off)
    acc := ((acc + leNat msg off len + (1 <<< (8 * len))) * r) % polyP
  return acc + s

/-- The low 128 bits of `t`, little-endian: always exactly 16 bytes. -/
def tagBytes (t : Nat) : List UInt8 :=
  cons64 t.toUInt64 (cons64 (t >>> 64).toUInt64 [])

/-- RFC 8439 §2.5: the 16-byte tag. -/
def poly1305 (key : ByteArray) (msg : ByteArray) : List UInt8 :=
  tagBytes (poly1305Nat key msg)

/-! ## AEAD construction (RFC 8439 §2.8) -/

def pad16 (b : ByteArray) : ByteArray := Id.run do
  let mut o := b
  for _ in [0:(16 - b.size % 16) % 16] do
    o := o.push 0
  return o

/-- aad ‖ pad16 ‖ ct ‖ pad16 ‖ len(aad) u64le ‖ len(ct) u64le -/
def macData (aad ct : ByteArray) : ByteArray :=
  push64 (push64 (pad16 (pad16 aad ++ ct)) aad.size.toUInt64) ct.size.toUInt64

def tagOf (key nonce : ByteArray) (aad ct : List UInt8) : List UInt8 :=
  poly1305 (polyKey key nonce) (macData aad.toByteArray ct.toByteArray)

/-- ciphertext ++ 16-byte tag (`key` 32 bytes, `nonce` 12 bytes) -/
def sealK (key nonce : ByteArray) (aad pt : List UInt8) : List UInt8 :=
  let ct := chacha20 key 1 nonce pt
  ct ++ tagOf key nonce aad ct

/-- `|||` of the byte-wise `^^^` over the common prefix. -/
def tagDiff : List UInt8 → List UInt8 → UInt8
  | a :: as, b :: bs => (a ^^^ b) ||| tagDiff as bs
  | _, _ => 0

/-- Full-width (all 16 bytes, no early exit) tag comparison. -/
def tagEq (a b : List UInt8) : Bool :=
  tagDiff a b == 0 && a.length == 16 && b.length == 16

def openK (key nonce : ByteArray) (aad inp : List UInt8) : Option (List UInt8) :=
  let n := inp.length
  if n < 16 then none else
  let ct := inp.take (n - 16)
  let tag := inp.drop (n - 16)
  if tagEq tag (tagOf key nonce aad ct) then some (chacha20 key 1 nonce ct) else none

/-- XChaCha: (subkey, 12-byte nonce) = (HChaCha20(key, n[0..16]), 00000000 ‖ n[16..24]). -/
def xderive (key nonce24 : ByteArray) : ByteArray × ByteArray :=
  (hchacha20 key (nonce24.extract 0 16),
   (ByteArray.mk #[0, 0, 0, 0]) ++ nonce24.extract 16 24)

/-! ## Public API (`List UInt8`) -/

/-- ciphertext ++ 16-byte tag -/
def «seal» (key : List UInt8) (nonce12 : List UInt8) (aad : List UInt8) (pt : List UInt8) : List UInt8 :=
  sealK (fit 32 key) (fit 12 nonce12) aad pt

/-- input = ciphertext ++ tag; `none` if shorter than 16 bytes or tag mismatch -/
def «open» (key : List UInt8) (nonce12 : List UInt8) (aad : List UInt8) (ct : List UInt8) :
    Option (List UInt8) :=
  openK (fit 32 key) (fit 12 nonce12) aad ct

def xseal (key : List UInt8) (nonce24 : List UInt8) (aad : List UInt8) (pt : List UInt8) : List UInt8 :=
  let kn := xderive (fit 32 key) (fit 24 nonce24)
  sealK kn.1 kn.2 aad pt

def xopen (key : List UInt8) (nonce24 : List UInt8) (aad : List UInt8) (ct : List UInt8) :
    Option (List UInt8) :=
  let kn := xderive (fit 32 key) (fit 24 nonce24)
  openK kn.1 kn.2 aad ct

/-- netcode nonce: 4 zero bytes ++ u64 little-endian sequence -/
def nonceOfSeq (seq : Nat) : List UInt8 :=
  0 :: 0 :: 0 :: 0 :: cons64 seq.toUInt64 []

end RenetVerif.ChaCha2
