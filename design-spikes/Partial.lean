namespace P
inductive Res (α : Type) where
  | ok (a : α)
  | err (e : String)      -- Rust `Err(..)`
  | panic (site : String) -- Rust unwind
  deriving Repr, DecidableEq

instance : Monad Res where
  pure := .ok
  bind x f := match x with | .ok a => f a | .err e => .err e | .panic s => .panic s

def SLICE : Nat := 1200

structure Ctor where
  numSlices : Nat
  numReceived : Nat
  received : List Bool
  data : List UInt8
  deriving Repr, DecidableEq

def Ctor.new (n : Nat) : Ctor := ⟨n, 0, List.replicate n false, List.replicate (n * SLICE) 0⟩

def setRange (l : List UInt8) (start : Nat) (bytes : List UInt8) : Res (List UInt8) :=
  if start + bytes.length ≤ l.length then .ok (l.take start ++ bytes ++ l.drop (start + bytes.length))
  else .panic "copy_from_slice: range out of bounds"

/-- slice_constructor.rs:26-74, pinned tree (no index check) -/
def Ctor.processSlice (c : Ctor) (idx : Nat) (bytes : List UInt8) : Res (Ctor × Option (List UInt8)) := do
  if c.numSlices = 0 then .panic "num_slices - 1 underflow" else
  let isLast := idx == c.numSlices - 1
  if isLast then
    if bytes.length > SLICE then return ← .err "InvalidSliceMessage"
  else if bytes.length ≠ SLICE then return ← .err "InvalidSliceMessage"
  match c.received[idx]? with
  | none => .panic "slice_constructor.rs:41 index out of bounds"
  | some got =>
    let c ← if got then pure c else do
      let data := if isLast then (c.data.take ((c.numSlices - 1) * SLICE + bytes.length)) ++ List.replicate ((c.numSlices - 1) * SLICE + bytes.length - c.data.length) 0 else c.data
      let data ← setRange data (idx * SLICE) bytes
      pure { c with received := c.received.set idx true, numReceived := c.numReceived + 1, data := data }
    if c.numReceived = c.numSlices then pure ({ c with data := [] }, some c.data) else pure (c, none)

/-- the pinned tree panics: a concrete witness, checked by the kernel -/
theorem panics_on_pinned_tree :
    (Ctor.new 1).processSlice 5 (List.replicate 1200 7) = .panic "slice_constructor.rs:41 index out of bounds" := by
  decide +kernel
end P
