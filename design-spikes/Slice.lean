namespace Sl
variable {α : Type}

def setRange (l : List α) (start : Nat) (b : List α) : List α :=
  l.take start ++ b ++ l.drop (start + b.length)

theorem setRange_length (l : List α) (s : Nat) (b : List α) (h : s + b.length ≤ l.length) :
    (setRange l s b).length = l.length := by
  simp [setRange]; omega

theorem setRange_getElem? (l : List α) (s : Nat) (b : List α) (h : s + b.length ≤ l.length) (k : Nat) :
    (setRange l s b)[k]? = if s ≤ k ∧ k < s + b.length then b[k - s]? else l[k]? := by
  unfold setRange
  by_cases h1 : k < s
  · have : ¬ (s ≤ k ∧ k < s + b.length) := by omega
    simp only [this, if_false]
    rw [List.append_assoc, List.getElem?_append_left (by simp; omega)]
    simp [h1]
  · by_cases h2 : k < s + b.length
    · have : (s ≤ k ∧ k < s + b.length) := by omega
      simp only [this, and_self, if_true]
      rw [List.append_assoc, List.getElem?_append_right (by simp; omega)]
      have hl : (List.take s l).length = s := by simp; omega
      rw [hl, List.getElem?_append_left (by omega)]
    · have : ¬ (s ≤ k ∧ k < s + b.length) := by omega
      simp only [this, if_false]
      rw [List.getElem?_append_right (by simp; omega)]
      have hl : (List.take s l ++ b).length = s + b.length := by simp; omega
      rw [hl, List.getElem?_drop]
      congr 1; omega

/-- `Vec::resize(len, z)` -/
def resize (l : List α) (len : Nat) (z : α) : List α := l.take len ++ List.replicate (len - l.length) z

theorem resize_length (l : List α) (len : Nat) (z : α) : (resize l len z).length = len := by
  simp [resize]; omega

theorem resize_getElem?_lt (l : List α) (len : Nat) (z : α) (k : Nat) (hk : k < len) (hk2 : k < l.length) :
    (resize l len z)[k]? = l[k]? := by
  unfold resize
  rw [List.getElem?_append_left (by simp; omega)]
  simp [hk]

structure Ctor (α : Type) where
  n : Nat
  numRecv : Nat
  received : List Bool
  data : List α

def Ctor.new (S n : Nat) (z : α) : Ctor α := ⟨n, 0, List.replicate n false, List.replicate (n * S) z⟩

/-- slice_constructor.rs:26-74 (errors and the unchecked index collapsed to `none` for this spike) -/
def Ctor.process (S : Nat) (z : α) (c : Ctor α) (idx : Nat) (b : List α) : Option (Ctor α × Option (List α)) :=
  if c.n = 0 then none else
  if (idx = c.n - 1 ∧ b.length > S) ∨ (idx ≠ c.n - 1 ∧ b.length ≠ S) then none else
  match c.received[idx]? with
  | none => none
  | some got =>
    let c' : Ctor α := if got then c else
      let data := if idx = c.n - 1 then resize c.data ((c.n - 1) * S + b.length) z else c.data
      { c with received := c.received.set idx true, numRecv := c.numRecv + 1, data := setRange data (idx * S) b }
    if c'.numRecv = c'.n then some ({ c' with data := [] }, some c'.data) else some (c', none)

/-- send side: slice i of m (reliable.rs:164-167 / unreliable.rs:69-71) -/
def sliceOf (S : Nat) (m : List α) (i : Nat) : List α := (m.drop (i * S)).take S

/-- m has exactly n slices: |m| = (n-1)*S + r with 0 < r ≤ S -/
def Shape (S n : Nat) (m : List α) : Prop := 0 < S ∧ 0 < n ∧ (n - 1) * S < m.length ∧ m.length ≤ n * S

theorem sliceOf_length (S n : Nat) (m : List α) (h : Shape S n m) (i : Nat) (hi : i < n) :
    (sliceOf S m i).length = if i = n - 1 then m.length - (n - 1) * S else S := by
  obtain ⟨hS, hn, h1, h2⟩ := h
  simp only [sliceOf, List.length_take, List.length_drop]
  have hnS : n * S = (n - 1) * S + S := by
    have : n = (n - 1) + 1 := by omega
    rw [this, Nat.add_mul]; simp
  split
  · subst_vars; omega
  · have : (i + 1) * S ≤ (n - 1) * S := Nat.mul_le_mul_right S (by omega)
    rw [Nat.add_mul] at this
    omega

theorem sliceOf_getElem? (S : Nat) (m : List α) (i j : Nat) (hj : j < S) :
    (sliceOf S m i)[j]? = m[i * S + j]? := by
  simp [sliceOf, List.getElem?_take, hj]

def Inv (S n : Nat) (m : List α) (c : Ctor α) : Prop :=
  c.n = n ∧ c.received.length = n ∧ c.numRecv = c.received.count true ∧
  c.data.length = (if c.received[n - 1]? = some true then m.length else n * S) ∧
  (∀ i, c.received[i]? = some true → ∀ k, i * S ≤ k → k < i * S + (sliceOf S m i).length → c.data[k]? = m[k]?)

theorem inv_new (S n : Nat) (m : List α) (z : α) (h : Shape S n m) : Inv S n m (Ctor.new S n z) := by
  obtain ⟨hS, hn, h1, h2⟩ := h
  refine ⟨rfl, by simp [Ctor.new], ?_, ?_, ?_⟩
  · simp [Ctor.new, List.count_replicate]
  · simp [Ctor.new, List.getElem?_replicate]
  · intro i hi; simp [Ctor.new, List.getElem?_replicate] at hi

theorem mul_succ_le {i n S : Nat} (h : i + 1 ≤ n) : i * S + S ≤ n * S := by
  have := Nat.mul_le_mul_right S h; rw [Nat.add_mul] at this; simpa using this

theorem all_received (S n : Nat) (m : List α) (c : Ctor α) (hc : Inv S n m c) (hfull : c.numRecv = n) :
    ∀ i, i < n → c.received[i]? = some true := by
  obtain ⟨h1, h2, h3, _, _⟩ := hc
  intro i hi
  have hcount : c.received.count true = c.received.length := by omega
  have hall := List.count_eq_length.1 hcount
  have hmem : c.received[i]'(by omega) ∈ c.received := List.getElem_mem _
  rw [List.getElem?_eq_getElem (by omega)]
  congr 1
  exact (hall _ hmem).symm

/-- when every slice has arrived the buffer is the message, byte for byte -/
theorem complete (S n : Nat) (m : List α) (hs : Shape S n m) (c : Ctor α) (hc : Inv S n m c) (hfull : c.numRecv = n) :
    c.data = m := by
  have hall := all_received S n m c hc hfull
  obtain ⟨hS, hn, hm1, hm2⟩ := hs
  have hshape : Shape S n m := ⟨hS, hn, hm1, hm2⟩
  obtain ⟨h1, h2, h3, h4, h5⟩ := hc
  rw [hall (n - 1) (by omega)] at h4
  simp only [if_true] at h4
  apply List.ext_getElem?
  intro k
  by_cases hk : k < m.length
  · have hi : k / S < n := (Nat.div_lt_iff_lt_mul hS).2 (by omega)
    have hdm := Nat.div_add_mod k S
    have hml := Nat.mod_lt k hS
    have hcomm : S * (k / S) = k / S * S := Nat.mul_comm _ _
    apply h5 (k / S) (hall _ hi) k (by omega)
    rw [sliceOf_length S n m hshape _ hi]
    split
    · rename_i heq; rw [heq] at hcomm ⊢; omega
    · omega
  · rw [List.getElem?_eq_none (by omega), List.getElem?_eq_none (by omega)]

theorem blocks_disjoint {S i j k : Nat} (hij : i ≠ j) (h1 : i * S ≤ k) (h2 : k < i * S + S) :
    ¬ (j * S ≤ k ∧ k < j * S + S) := by
  intro ⟨h3, h4⟩
  rcases Nat.lt_or_gt_of_ne hij with h | h
  · have := mul_succ_le (S := S) (show i + 1 ≤ j by omega); omega
  · have := mul_succ_le (S := S) (show j + 1 ≤ i by omega); omega

theorem slice_end_le (S n : Nat) (m : List α) (hs : Shape S n m) (i : Nat) (hi : i < n) :
    i * S + (sliceOf S m i).length ≤ m.length ∧ (sliceOf S m i).length ≤ S := by
  rw [sliceOf_length S n m hs i hi]
  obtain ⟨hS, hn, hm1, hm2⟩ := hs
  have hnS : n * S = (n - 1) * S + S := by
    have : n = (n - 1) + 1 := by omega
    rw [this, Nat.add_mul]; simp
  split
  · rename_i h; subst h; omega
  · have := mul_succ_le (S := S) (show i + 1 ≤ n - 1 by omega); omega

/-- first arrival of a genuine slice: the updated constructor satisfies the invariant -/
theorem step_inv (S n : Nat) (z : α) (m : List α) (hs : Shape S n m) (c : Ctor α) (hc : Inv S n m c)
    (idx : Nat) (hidx : idx < n) (hnew : c.received[idx]? = some false) :
    Inv S n m { c with
      received := c.received.set idx true, numRecv := c.numRecv + 1,
      data := setRange (if idx = c.n - 1 then resize c.data ((c.n - 1) * S + (sliceOf S m idx).length) z else c.data)
                (idx * S) (sliceOf S m idx) } := by
  have hse := slice_end_le S n m hs idx hidx
  have hlen := sliceOf_length S n m hs idx hidx
  obtain ⟨hS, hn, hm1, hm2⟩ := hs
  have hshape : Shape S n m := ⟨hS, hn, hm1, hm2⟩
  obtain ⟨h1, h2, h3, h4, h5⟩ := hc
  have hnS : n * S = (n - 1) * S + S := by
    have : n = (n - 1) + 1 := by omega
    rw [this, Nat.add_mul]; simp
  -- the buffer before the copy, its length, and that it still agrees with the old buffer below |m|
  generalize hd0 : (if idx = c.n - 1 then resize c.data ((c.n - 1) * S + (sliceOf S m idx).length) z else c.data) = data0
  have hd0len : data0.length = if (idx = n - 1 ∨ c.received[n - 1]? = some true) then m.length else n * S := by
    rw [← hd0, h1]
    by_cases hl : idx = n - 1
    · simp only [hl, if_true, true_or, resize_length]; rw [hl] at hlen; simp at hlen; omega
    · simp only [hl, if_false, false_or]; exact h4
  have hd0get : ∀ k, k < m.length → data0[k]? = c.data[k]? := by
    intro k hk
    rw [← hd0, h1]
    by_cases hl : idx = n - 1
    · simp only [hl, if_true]
      have hold : c.data.length = n * S := by
        rw [h4]; rw [hl] at hnew; simp [hnew]
      rw [hl] at hlen; simp at hlen
      exact resize_getElem?_lt _ _ _ _ (by omega) (by omega)
    · simp [hl]
  have hinside : idx * S + (sliceOf S m idx).length ≤ data0.length := by
    rw [hd0len]; split
    · exact hse.1
    · have := mul_succ_le (S := S) (show idx + 1 ≤ n by omega); omega
  refine ⟨h1, by simp [h2], ?_, ?_, ?_⟩
  · -- count
    show c.numRecv + 1 = (c.received.set idx true).count true
    rw [List.count_set (by omega)]
    have : c.received[idx]'(by omega) = false := by
      have := List.getElem?_eq_getElem (l := c.received) (i := idx) (by omega)
      rw [this] at hnew; exact Option.some.inj hnew
    simp [this]; omega
  · -- length
    show (setRange data0 (idx * S) (sliceOf S m idx)).length = _
    rw [setRange_length _ _ _ hinside, hd0len]
    have : ((c.received.set idx true)[n - 1]? = some true) ↔ (idx = n - 1 ∨ c.received[n - 1]? = some true) := by
      rw [List.getElem?_set]
      by_cases hl : idx = n - 1
      · simp [hl]; omega
      · simp [hl]
    simp only [this]
  · -- contents
    intro i hi k hk1 hk2
    show (setRange data0 (idx * S) (sliceOf S m idx))[k]? = m[k]?
    rw [setRange_getElem? _ _ _ hinside]
    rw [List.getElem?_set] at hi
    by_cases hii : idx = i
    · subst hii
      have : idx * S ≤ k ∧ k < idx * S + (sliceOf S m idx).length := ⟨hk1, hk2⟩
      simp only [this, and_self, if_true]
      rw [sliceOf_getElem? _ _ _ _ (by omega)]
      congr 1; omega
    · simp only [hii, if_false] at hi
      have hiN : i < n := by
        rcases Nat.lt_or_ge i n with h | h
        · exact h
        · rw [List.getElem?_eq_none (by omega)] at hi; cases hi
      have hsei := slice_end_le S n m hshape i hiN
      have hdis := blocks_disjoint (S := S) (i := i) (j := idx) (k := k) (Ne.symm hii) hk1 (by omega)
      have : ¬ (idx * S ≤ k ∧ k < idx * S + (sliceOf S m idx).length) := by
        intro ⟨a, b⟩; exact hdis ⟨a, by omega⟩
      simp only [this, if_false]
      rw [hd0get k (by omega)]
      exact h5 i hi k hk1 hk2

theorem finish (S n : Nat) (m : List α) (hs : Shape S n m) (c1 : Ctor α) (h : Inv S n m c1) :
    ∃ c' out, (if c1.numRecv = c1.n then some ({ c1 with data := [] }, some c1.data) else some (c1, none)) = some (c', out) ∧
      (out = none → Inv S n m c') ∧ (∀ m', out = some m' → m' = m) := by
  by_cases hf : c1.numRecv = c1.n
  · refine ⟨{ c1 with data := [] }, some c1.data, by simp [hf], ?_, ?_⟩
    · intro h'; cases h'
    · intro m' h'
      cases h'
      exact complete S n m hs c1 h (by rw [hf]; exact h.1)
  · refine ⟨c1, none, by simp [hf], fun _ => h, ?_⟩
    intro m' h'; cases h'

/-- feeding a genuine slice preserves the invariant; a completed message is exactly `m` -/
theorem process_inv (S n : Nat) (z : α) (m : List α) (hs : Shape S n m) (c : Ctor α) (hc : Inv S n m c)
    (idx : Nat) (hidx : idx < n) :
    ∃ c' out, Ctor.process S z c idx (sliceOf S m idx) = some (c', out) ∧
      (out = none → Inv S n m c') ∧ (∀ m', out = some m' → m' = m) := by
  obtain ⟨hS, hn, hm1, hm2⟩ := hs
  have hshape : Shape S n m := ⟨hS, hn, hm1, hm2⟩
  obtain ⟨h1, h2, h3, h4, h5⟩ := hc
  have hlen := sliceOf_length S n m hshape idx hidx
  have hnS : n * S = (n - 1) * S + S := by
    have : n = (n - 1) + 1 := by omega
    rw [this, Nat.add_mul]; simp
  unfold Ctor.process
  have hn0 : ¬ c.n = 0 := by omega
  have hsz : ¬ ((idx = c.n - 1 ∧ (sliceOf S m idx).length > S) ∨ (idx ≠ c.n - 1 ∧ (sliceOf S m idx).length ≠ S)) := by
    rw [h1, hlen]; split <;> omega
  simp only [hn0, hsz, if_false]
  have hget : ∃ got, c.received[idx]? = some got := ⟨c.received[idx]'(by omega), List.getElem?_eq_getElem (by omega)⟩
  obtain ⟨got, hgot⟩ := hget
  simp only [hgot]
  have hinvc : Inv S n m c := ⟨h1, h2, h3, h4, h5⟩
  cases got with
  | true =>
    simp only [if_true]
    exact finish S n m hshape c hinvc
  | false =>
    have hstep := step_inv S n z m hshape c hinvc idx hidx hgot
    simp only [Bool.false_eq_true, if_false]
    exact finish S n m hshape _ hstep
end Sl
