namespace Replay
def EMPTY : Nat := 2^64 - 1

structure RP where
  mostRecent : Nat
  received : Vector Nat 256

def RP.new : RP := { mostRecent := 0, received := Vector.replicate 256 EMPTY }

abbrev RP.at (rp : RP) (s : Nat) : Nat := rp.received[s % 256]'(Nat.mod_lt _ (by decide))

/-- `sequence + 256` is a checked u64 add: none = overflow panic -/
def alreadyReceived (rp : RP) (s : Nat) : Option Bool :=
  if s + 256 ≥ 2^64 then none else
  if s + 256 ≤ rp.mostRecent then some true
  else if rp.at s = EMPTY then some false
  else if rp.at s ≥ s then some true else some false

def advance (rp : RP) (s : Nat) : RP :=
  { mostRecent := if s > rp.mostRecent then s else rp.mostRecent,
    received := rp.received.set (s % 256) s (Nat.mod_lt _ (by decide)) }

def accept (rp : RP) (s : Nat) : RP × Bool :=
  match alreadyReceived rp s with
  | some false => (advance rp s, true)
  | _ => (rp, false)

theorem accept_true_iff (rp : RP) (s : Nat) :
    (accept rp s).2 = true ↔ s + 256 < 2^64 ∧ rp.mostRecent < s + 256 ∧ (rp.at s = EMPTY ∨ rp.at s < s) := by
  unfold accept alreadyReceived
  by_cases h1 : s + 256 ≥ 2^64
  · simp [h1]; omega
  · by_cases h2 : s + 256 ≤ rp.mostRecent
    · simp [h1, h2]; omega
    · by_cases h3 : rp.at s = EMPTY
      · simp [h1, h2, h3]; omega
      · by_cases h4 : rp.at s ≥ s
        · simp [h1, h2, h3, h4]
        · simp [h1, h2, h3, h4]; omega

theorem accept_fst (rp : RP) (s : Nat) : (accept rp s).1 = if (accept rp s).2 then advance rp s else rp := by
  unfold accept; split <;> simp

@[simp] theorem advance_at_same (rp : RP) (s : Nat) : (advance rp s).at s = s := by simp [advance, RP.at]
theorem advance_at_other (rp : RP) (s t : Nat) (h : t % 256 ≠ s % 256) : (advance rp s).at t = rp.at t := by
  simp [advance, RP.at, Vector.getElem_set, Ne.symm h]
theorem advance_at_eqmod (rp : RP) (s t : Nat) (h : t % 256 = s % 256) : (advance rp s).at t = s := by
  simp [advance, RP.at, Vector.getElem_set, h]
theorem advance_mr (rp : RP) (s : Nat) : (advance rp s).mostRecent = max s rp.mostRecent := by
  simp [advance]; split <;> omega

/-- invariant relating the window to the ghost set of accepted sequences -/
def Inv (rp : RP) (acc : List Nat) : Prop :=
  (∀ s ∈ acc, s ≤ rp.mostRecent ∧ s < EMPTY) ∧
  (∀ t, rp.at t = EMPTY ∨ (rp.at t ∈ acc ∧ rp.at t % 256 = t % 256)) ∧
  (∀ s ∈ acc, rp.at s ≠ EMPTY ∧ s ≤ rp.at s)

theorem inv_new : Inv RP.new [] := by
  refine ⟨by simp, ?_, by simp⟩
  intro t; left; simp [RP.new, RP.at]

theorem accept_inv (rp : RP) (acc : List Nat) (s : Nat) (h : Inv rp acc) :
    Inv (accept rp s).1 (if (accept rp s).2 then s :: acc else acc) := by
  rw [accept_fst]
  by_cases hacc : (accept rp s).2 = true
  · simp only [hacc, if_true]
    obtain ⟨hb, hmr, he⟩ := (accept_true_iff rp s).1 hacc
    obtain ⟨h1, h2, h3⟩ := h
    refine ⟨?_, ?_, ?_⟩
    · intro t ht
      rw [advance_mr]
      rcases List.mem_cons.1 ht with rfl | ht
      · exact ⟨by omega, by simp [EMPTY]; omega⟩
      · have := h1 t ht; exact ⟨by omega, this.2⟩
    · intro t
      by_cases hm : t % 256 = s % 256
      · right; rw [advance_at_eqmod _ _ _ hm]; exact ⟨by simp, hm.symm⟩
      · rw [advance_at_other _ _ _ hm]
        rcases h2 t with h | h
        · left; exact h
        · right; exact ⟨List.mem_cons_of_mem _ h.1, h.2⟩
    · intro t ht
      rcases List.mem_cons.1 ht with rfl | ht
      · rw [advance_at_same]; exact ⟨by simp [EMPTY]; omega, Nat.le_refl _⟩
      · by_cases hm : t % 256 = s % 256
        · rw [advance_at_eqmod _ _ _ hm]
          have ht3 := h3 t ht
          have hat : rp.at t = rp.at s := by simp [RP.at, hm]
          refine ⟨by simp [EMPTY]; omega, ?_⟩
          rcases he with he | he
          · exact absurd (hat ▸ he) ht3.1
          · omega
        · rw [advance_at_other _ _ _ hm]; exact h3 t ht
  · simp only [hacc]; simpa using h

/-- C04 at-most-once core: an accepted sequence is never accepted again -/
theorem no_reaccept (rp : RP) (acc : List Nat) (s : Nat) (h : Inv rp acc) (hs : s ∈ acc) :
    (accept rp s).2 = false := by
  have h3 := h.2.2 s hs
  cases hacc : (accept rp s).2 with
  | false => rfl
  | true =>
    obtain ⟨_, _, he⟩ := (accept_true_iff rp s).1 hacc
    rcases he with he | he
    · exact absurd he h3.1
    · omega

/-- C04 converse core: a never-accepted sequence less than 256 behind the newest is accepted -/
theorem fresh_accept (rp : RP) (acc : List Nat) (s : Nat) (h : Inv rp acc) (hs : s ∉ acc)
    (hw : rp.mostRecent < s + 256) (hb : s + 256 < 2^64) : (accept rp s).2 = true := by
  rw [accept_true_iff]
  refine ⟨hb, hw, ?_⟩
  rcases h.2.1 s with he | ⟨hmem, hmod⟩
  · left; exact he
  · right
    have hle := (h.1 _ hmem).1
    have hne : rp.at s ≠ s := fun heq => hs (heq ▸ hmem)
    omega
end Replay
