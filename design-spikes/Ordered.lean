namespace Ord
abbrev Msg := List UInt8

structure Recv where
  messages : List (Nat × Msg)     -- BTreeMap<u64, Bytes>; only lookup/remove by key are used on the ordered path
  oldest : Nat

def Recv.find (r : Recv) (id : Nat) : Option Msg := r.messages.lookup id

/-- reliable.rs:281-297 (ordered arm, memory accounting elided in this spike) -/
def process (r : Recv) (id : Nat) (m : Msg) : Recv :=
  if id < r.oldest then r
  else match r.find id with
    | some _ => r
    | none => { r with messages := (id, m) :: r.messages }

/-- reliable.rs:350-358 -/
def receive (r : Recv) : Recv × Option Msg :=
  match r.find r.oldest with
  | none => (r, none)
  | some m => ({ messages := r.messages.filter (fun p => p.1 != r.oldest), oldest := r.oldest + 1 }, some m)

inductive Op where
  | deliver (id : Nat) (m : Msg)   -- the network hands over (a copy of) a small-message entry
  | recv                           -- the application calls receive_message

/-- run with ghost log of obtained messages -/
def step (st : Recv × List Msg) : Op → Recv × List Msg
  | .deliver id m => (process st.1 id m, st.2)
  | .recv => match receive st.1 with
    | (r', some m) => (r', st.2 ++ [m])
    | (r', none) => (r', st.2)

def run (ops : List Op) : Recv × List Msg := ops.foldl step ({ messages := [], oldest := 0 }, [])

/-- what the adversarial network may deliver: any entry of any packet the sender ever emitted -/
def Genuine (sent : List Msg) : Op → Prop
  | .deliver id m => sent[id]? = some m
  | .recv => True

def Inv (sent : List Msg) (st : Recv × List Msg) : Prop :=
  (∀ id m, st.1.find id = some m → st.1.oldest ≤ id ∧ sent[id]? = some m) ∧
  st.2 = sent.take st.1.oldest ∧ st.1.oldest ≤ sent.length

theorem lookup_filter_ne {l : List (Nat × Msg)} {k id : Nat} :
    (l.filter (fun p => p.1 != k)).lookup id = if id = k then none else l.lookup id := by
  induction l with
  | nil => simp
  | cons p l ih =>
    obtain ⟨a, b⟩ := p
    by_cases hak : a = k
    · subst hak
      by_cases hid : id = a
      · subst hid; simp [List.filter, ih]
      · simp [List.filter, ih, List.lookup, hid]
        have : (id == a) = false := by simp [hid]
        simp [this]
    · have hne : (a != k) = true := by simp [hak]
      simp only [List.filter, hne, List.lookup]
      by_cases hid : id = a
      · subst hid; simp [hak]
      · have : (id == a) = false := by simp [hid]
        simp [this, ih]

theorem step_inv (sent : List Msg) (st : Recv × List Msg) (op : Op) (h : Inv sent st) (g : Genuine sent op) :
    Inv sent (step st op) := by
  obtain ⟨h1, h2, h3⟩ := h
  cases op with
  | deliver id m =>
    simp only [step, process]
    split
    · exact ⟨h1, h2, h3⟩
    · split
      · exact ⟨h1, h2, h3⟩
      · refine ⟨?_, h2, h3⟩
        intro id' m' hf
        simp only [Recv.find, List.lookup] at hf
        by_cases hid : id' = id
        · subst hid; simp at hf; subst hf; exact ⟨by dsimp only; omega, g⟩
        · have : (id' == id) = false := by simp [hid]
          simp [this] at hf; exact h1 id' m' hf
  | recv =>
    simp only [step, receive]
    split <;> rename_i heq
    · split at heq
      · simp at heq
      · rename_i m0 hfind
        simp only [Prod.mk.injEq, Option.some.injEq] at heq
        obtain ⟨rfl, rfl⟩ := heq
        obtain ⟨_, hs⟩ := h1 _ _ hfind
        have hlt : st.1.oldest < sent.length := by
          rcases List.getElem?_eq_some_iff.1 hs with ⟨hlt, _⟩; exact hlt
        refine ⟨?_, ?_, hlt⟩
        · intro id' m' hf
          simp only [Recv.find, lookup_filter_ne] at hf
          split at hf
          · simp at hf
          · rename_i hne
            have := h1 id' m' hf
            exact ⟨by dsimp only; omega, this.2⟩
        · simp only [h2]
          rw [List.take_add_one, hs]; rfl
    · split at heq
      · simp only [Prod.mk.injEq] at heq; obtain ⟨rfl, _⟩ := heq; exact ⟨h1, h2, h3⟩
      · simp at heq

/-- C01 safety core: whatever the network does with genuine entries, and however the application
    interleaves its calls, what it has obtained is a prefix of what was submitted -/
theorem obtained_prefix (sent : List Msg) (ops : List Op) (hg : ∀ op ∈ ops, Genuine sent op) :
    (run ops).2 <+: sent := by
  have key : ∀ (ops : List Op) st, Inv sent st → (∀ op ∈ ops, Genuine sent op) → Inv sent (ops.foldl step st) := by
    intro ops
    induction ops with
    | nil => intro st h _; exact h
    | cons op ops ih =>
      intro st h hg
      exact ih _ (step_inv sent st op h (hg op (by simp))) (fun o ho => hg o (by simp [ho]))
  have hinv := key ops ({ messages := [], oldest := 0 }, []) ⟨by simp [Recv.find], by simp, by simp⟩ hg
  unfold run
  rw [hinv.2.1]
  exact List.take_prefix _ _

/-- non-vacuity: a reordered, duplicated history is genuine and yields the full list -/
example : (run [.deliver 1 [2], .recv, .deliver 0 [1], .deliver 1 [2], .recv, .deliver 0 [1], .recv, .recv]).2 = [[1], [2]] := by
  decide
end Ord
