namespace Acks

abbrev R := Nat × Nat   -- half-open [s, e)

def Mem (x : Nat) : List R → Prop
  | [] => False
  | r :: l => (r.1 ≤ x ∧ x < r.2) ∨ Mem x l

/-- sorted, non-empty ranges, non-adjacent: e_i < s_{i+1} -/
def WF : List R → Prop
  | [] => True
  | [r] => r.1 < r.2
  | r :: r2 :: rest => r.1 < r.2 ∧ r.2 < r2.1 ∧ WF (r2 :: rest)

/-- the `for index in 0..len` loop of add_pending_ack; none = fell through the loop -/
def addAux (seq : Nat) : List R → Option (List R)
  | [] => none
  | (s, e) :: rest =>
    if s ≤ seq ∧ seq < e then some ((s, e) :: rest)
    else if s = seq + 1 then some ((seq, e) :: rest)
    else if e = seq then
      match rest with
      | (s2, e2) :: rest2 => if seq + 1 = s2 then some ((s, e2) :: rest2) else some ((s, seq + 1) :: rest)
      | [] => some [(s, seq + 1)]
    else if s > seq + 1 then some ((seq, seq + 1) :: (s, e) :: rest)
    else (addAux seq rest).map ((s, e) :: ·)

def add (cap : Nat) (seq : Nat) (l : List R) : List R :=
  match l with
  | [] => [(seq, seq + 1)]
  | _ =>
    match addAux seq l with
    | some l' => l'
    | none =>
      let l' := l ++ [(seq, seq + 1)]
      if l'.length > cap then l'.tail else l'

theorem wf_tail {r : R} {l : List R} (h : WF (r :: l)) : WF l := by
  cases l with
  | nil => trivial
  | cons r2 rest => exact h.2.2

theorem wf_head {r : R} {l : List R} (h : WF (r :: l)) : r.1 < r.2 := by
  cases l with
  | nil => exact h
  | cons r2 rest => exact h.1


@[simp] theorem mem_nil {x : Nat} : Mem x [] ↔ False := Iff.rfl
@[simp] theorem mem_cons {x : Nat} {r : R} {l : List R} : Mem x (r :: l) ↔ (r.1 ≤ x ∧ x < r.2) ∨ Mem x l := Iff.rfl


theorem wf_cons_iff {r : R} {l : List R} : WF (r :: l) ↔ r.1 < r.2 ∧ WF l ∧ (∀ r2, l.head? = some r2 → r.2 < r2.1) := by
  cases l with
  | nil => simp [WF]
  | cons r2 rest => simp [WF]; intro _; exact And.comm

theorem addAux_spec (seq : Nat) : ∀ (l : List R) (l' : List R), WF l → addAux seq l = some l' →
    WF l' ∧ (∀ x, Mem x l' ↔ (Mem x l ∨ x = seq)) ∧
    (∀ r, l.head? = some r → ∃ r', l'.head? = some r' ∧ (r'.1 = r.1 ∨ r'.1 = seq) ∧ (r'.1 ≤ r.1))
  | [], l', _, h => by simp [addAux] at h
  | (s, e) :: rest, l', hwf, h => by
    have ih := addAux_spec seq rest
    simp only [addAux] at h
    split at h
    · cases h
      refine ⟨hwf, ?_, ?_⟩
      · intro x; simp only [mem_cons]; grind
      · grind
    · split at h
      · cases h
        rw [wf_cons_iff] at hwf ⊢
        refine ⟨?_, ?_, ?_⟩
        · grind
        · intro x; simp only [mem_cons]; grind
        · grind
      · split at h
        · split at h
          · split at h
            · cases h
              rename_i s2 e2 rest2 _ _
              simp only [wf_cons_iff] at hwf ⊢
              refine ⟨?_, ?_, ?_⟩
              · grind
              · intro x; simp only [mem_cons]; grind
              · grind
            · cases h
              simp only [wf_cons_iff] at hwf ⊢
              refine ⟨?_, ?_, ?_⟩
              · grind
              · intro x; simp only [mem_cons]; grind
              · grind
          · cases h
            simp only [wf_cons_iff] at hwf ⊢
            refine ⟨?_, ?_, ?_⟩
            · grind
            · intro x; simp only [mem_cons, mem_nil]; grind
            · grind
        · split at h
          · cases h
            simp only [wf_cons_iff] at hwf ⊢
            refine ⟨?_, ?_, ?_⟩
            · grind
            · intro x; simp only [mem_cons]; grind
            · grind
          · cases hr : addAux seq rest with
            | none => simp [hr] at h
            | some l'' =>
              simp [hr] at h; cases h
              simp only [wf_cons_iff] at hwf
              obtain ⟨h1, h2, h3⟩ := ih l'' hwf.2.1 hr
              simp only [wf_cons_iff]
              refine ⟨?_, ?_, ?_⟩
              · refine ⟨hwf.1, h1, ?_⟩
                intro r2 hr2
                cases rest with
                | nil => simp [addAux] at hr
                | cons r0 rest0 =>
                  obtain ⟨r', hr', hh, _⟩ := h3 r0 rfl
                  have := hwf.2.2 r0 rfl
                  grind
              · intro x; simp only [mem_cons]; grind
              · grind
end Acks
